NOT_APPLICABLE = {}

add("C18", "proof",
    "ByzantineMajority/ByzantineMinority are executed symbolically from go/ssa with n a single full-width 64-bit symbol (products in 128 bits); "
    "z3 shows every obligation (3m>2n, 3(m-1)<=2n, 3k>=n, 3(k-1)<n, panic iff n=0, quorum overlap >= minority, below-minority cannot form or block a majority) unsat-negated for all 2^64 values. "
    "No bound other than the machine width, both functions are loop-free, so this is a solver-discharged proof of the stated arithmetic facts about the real code.",
    "Stubs: math/bits.Mul64/Add64/Sub64 as 128/65-bit bit-vector terms. Assumes z3's QF_BV decision procedure is sound.",
    "symbolic execution of go/ssa + SMT (z3 bit-vectors), all paths, full 64-bit", "§5 C18")

add("C09", "model_checking",
    "Bounded symbolic execution of the real crash-relevant units: kState.FindView and (*Kernel).sendPHCheckResponse over full-width symbolic request heights/rounds and node positions (any state satisfying the kernel position invariant), "
    "both shipped feedback mappers over every defined result constant, and further total-function harnesses (see evidence.harnesses). A reachable panic/nil-deref/index error or an undefined result is the violation; each is replayed natively before being reported.",
    "Bounds and stubs per harness are in evidence (coverage.bounds, coverage.stubs). Whole-engine schedules, libp2p internals and OS resource exhaustion are outside the claim; option-construction (K7) and mirror end-to-end (K8) parts are listed in evidence only when their harnesses ran.",
    "symbolic execution of go/ssa + SMT (z3), per-unit totality harnesses", "§5 C09")
