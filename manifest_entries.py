NOT_APPLICABLE = {}

add("C18", "proof",
    "ByzantineMajority/ByzantineMinority are executed symbolically from go/ssa with n a single full-width 64-bit symbol (products in 128 bits); "
    "z3 shows every obligation (3m>2n, 3(m-1)<=2n, 3k>=n, 3(k-1)<n, panic iff n=0, quorum overlap >= minority, below-minority cannot form or block a majority) unsat-negated for all 2^64 values. "
    "No bound other than the machine width, both functions are loop-free, so this is a solver-discharged proof of the stated arithmetic facts about the real code.",
    "Stubs: math/bits.Mul64/Add64/Sub64 as 128/65-bit bit-vector terms. Assumes z3's QF_BV decision procedure is sound.",
    "symbolic execution of go/ssa + SMT (z3 bit-vectors), all paths, full 64-bit", "§5 C18")

add("C09", "model_checking",
    "Bounded symbolic execution of the real crash-relevant units: kState.FindView and (*Kernel).sendPHCheckResponse over full-width symbolic request heights/rounds and node positions (any state satisfying the kernel position invariant), "
    "both shipped feedback mappers over every defined result constant, and further total-function harnesses (see evidence.harnesses). A reachable panic/nil-deref/index error or an undefined result is the violation; each is replayed natively before being reported.",
    "Bounds and stubs per harness are in evidence (coverage.bounds, coverage.stubs). Whole-engine schedules, libp2p internals and OS resource exhaustion are outside the claim; option-construction (K7) and mirror end-to-end (K8) parts are listed in evidence only when their harnesses ran.",
    "symbolic execution of go/ssa + SMT (z3), per-unit totality harnesses", "§5 C09")

add("C06", "model_checking",
    "The real SetAvailablePower/SetPrevotePowers/SetPrecommitPowers run on real signature proofs for every assignment of signer subsets to the targets nil/A/B (each target absent or signed by any subset, so any validator may sign several targets), with full-width symbolic powers and every map iteration order; "
    "z3/cvc5 show the reported numbers equal the oracle recomputed from the signer sets (available = sum, block = sum of distinct signers, total counts each validator once, most-voted = least target among maximal power) on every path.",
    "Bounds: H1 2 validators (quick) / 3 (thorough), 3 targets, all map orders. H2 (consequence): through the real kernel entries a coalition of 1-2 of 4 validators with < 1/3 of the (symbolic) power that signs every target cannot make the node leave its round, regard the round as fully voted, or commit. Assumes the sum of powers does not overflow 64 bits. Signature verification is stubbed to true (accounting, not authenticity). The state-machine step function (delay timers) is exercised by C08.",
    "symbolic execution of go/ssa + SMT; structure (signer sets, map order) enumerated, powers symbolic", "§5 C06")

add("C01", "model_checking",
    "The commit rule is driven through the real kernel entry addPrecommit (and everything it calls: vote summary, ByzantineMajority, ShiftVotingToCommitting, committed-header store, mirror store) from the genesis state produced by the real loadInitialVotingView, for every assignment of precommit signer subsets to nil/A/B, every subset of known proposed headers and full-width symbolic powers; "
    "the solver shows that whenever the node then treats a header as committed, the hash is non-nil, proposed, stored, and signed by more than 2/3 of the total power (128-bit arithmetic).",
    "Bounds: 3 validators, 3 targets, one precommit message from genesis (+ header deliveries). ByzantineMajority/Minority are replaced by their specification (proven by C18) to keep queries linear. Signatures inside builder proofs are assumed authentic (admission is C05). BLS scheme outside.",
    "symbolic execution of go/ssa + SMT (cvc5 bv-as-int / z3 portfolio)", "§5 C01")

add("C04", "model_checking",
    "From four start states reached through the real kernel handlers (genesis at initial height 1 or 5, one committed height, one committed height plus a nil-precommit round advance), one (quick) or two (thorough) kernel entries — addProposedHeader, addPrecommit, addPrevote, handleReplayedHeader — run with full-width symbolic request height and round, so the solver enumerates every position class of the request relative to the node; after each step the chain obligations are asserted on the real kState and the shipped memstores: voting = committing+1, never backwards, one height at a time, mirror store = position, committed hashes immutable and gap-free, new commit hash-linked to the previous one.",
    "Bounds: 3 validators with power 1, hashes A/B/G, 1-2 steps from the listed start states. Proposed headers handed to the kernel carry the link the mirror layer enforces; replayed headers carry an arbitrary predecessor. Panics in a step are C09-K3's obligation, not C04's. Restart (crash points) is C10.",
    "symbolic execution of go/ssa + SMT; request positions symbolic, content enumerated", "§5 C04")

add("C13", "model_checking",
    "The real SimpleCommonMessageSignatureProof(Scheme) and tsi.CommitProofFinalizer run on every prior signer subset and every offered operand within the bounds, with signature verification an uninterpreted predicate (forged, foreign and honest signatures are all points of the same function): AddSignature/MergeSparse/Merge are checked against the set-union oracle and flag definitions, Clone/Derive independence, AsSparse rebuild, HasSparseKeyID/KeyIDChecker, Finalize -> ValidateFinalizedProof round trip and hostile finalized input.",
    "Bounds: 2 keys (quick) / 3 (thorough), 1-2 sparse entries, main + 0-2 rest proofs; key ids of 0-3 arbitrary bytes. BLS scheme (cgo blst) is outside the claim. WasStrictSuperset is asserted only where Merge and MergeSparse agree with the doc comment.",
    "symbolic execution of go/ssa + SMT with uninterpreted verification", "§5 C13")

add("C17", "model_checking",
    "The real ChattyStrategy functions broadcastViewDiff/broadcastUpdatesOnly/broadcastAll/broadcastPrecommits and the real kernel goroutine (two consecutive updates) run against a recording broadcaster on pairs of consecutive views built from real signature proofs (same or different height/round as full-width symbols, growing signer words per target, growing header sets, nil-voted round); per update everything new in the view must be contained in what was sent and everything sent must be in the view.",
    "Bounds: 2 validators (quick) / 3 (thorough), targets nil/A/B, 2 consecutive updates. Assumes the previous view was completely broadcast (per-step obligation) and views of one round only grow. Update sequences longer than 2 and cancelled contexts are outside.",
    "symbolic execution of go/ssa + SMT; view structure enumerated, positions symbolic", "§5 C17")

add("C14", "model_checking",
    "The real tmjson conversion code (To*/toJSON* for headers, proposed/committed headers, validators, commit proofs, sparse proofs, the consensus-message dispatch) and gcrypto.Registry Marshal/Unmarshal/Decode run on arbitrary intermediate values (slice lengths 0-2, byte strings 0-3 symbolic bytes or nil; public-key encodings of 0-10 arbitrary bytes) for totality, and on symbolic well-formed values for field-by-field round trip and variant preservation. encoding/json itself is replaced by its contract (Marshal->Unmarshal of the intermediate structs is the identity; Unmarshal of arbitrary text yields an arbitrary intermediate value or an error); native replay of sampled paths runs the real encoding/json.",
    "Bounds in evidence. Outside: encoding/json and JSON text themselves, sizes above the bounds, nil-vs-empty proof maps (not distinguished, as in the repo's compliance tests).",
    "symbolic execution of go/ssa + SMT; encoding/json replaced by its contract", "§5 C14")

add("C19", "model_checking",
    "The real generic workingState[S,T] (S=uint64, T={ID}) runs one operation (CheckAddTx, Buffered, Rebase) from an arbitrary pre-state satisfying the pending-list invariant (0-2 quick / 0-3 thorough pending transactions), with the application's AddTx semantics left uninterpreted (valid/apply/fatal are uninterpreted functions), so the inductive step holds for every transaction semantics; plus the real Buffer API (kernel goroutine) driven sequentially against a reference model and with two concurrent clients under all schedules at channel operations.",
    "Assumes pairwise distinct transaction IDs (the deleter contract does not define duplicates; a duplicate-ID counterexample exists and is documented in DESIGN.md as outside the property). Plain memory races are invisible to the cooperative scheduler.",
    "symbolic execution of go/ssa + SMT with uninterpreted transaction semantics; inductive step", "§5 C19")

add("C20", "model_checking",
    "exchangeFeedbackToLibp2p runs over all 256 feedback values (Accept iff FeedbackAccepted, everything else including out-of-range is not Accept) and the real topic-validator closure of the libp2p Connection runs with stub codec/handler whose outcomes are symbolic: Accept for a message from another peer implies decode succeeded, a handler is installed and its verdict was accepted.",
    "Only the mapping and the validator closure are claimed. The handler-replacement window of (*Connection).background (third-party pubsub behaviour) and the in-memory daisy-chain network are NOT decided (see DESIGN.md §6); libp2p gossipsub itself is outside.",
    "symbolic execution of go/ssa + SMT", "§5 C20")

add("C16", "model_checking",
    "Sequential refinement of every shipped in-memory store against a reference model written from the tmstore interface comments: a state reached by 0-2 (quick) / 0-3 (thorough) operations with symbolic heights, rounds, keys, hashes and signatures, then every method with symbolic arguments; results, error types (DoubleActionError, PubKeyChangedError, FinalizationOverwriteError, OverwriteError, RoundUnknownError, HeightUnknownError, ErrStoreUninitialized, *AlreadyExist, No*Hash, count mismatch) and reloaded values must equal the model, for every map iteration order inside LoadRoundState; plus independence of stored values from later reuse of the caller's slices where the store copies.",
    "The CONCURRENT half of the property (linearizability under interleavings) is NOT decided by this check: every method body is one critical section under the store mutex, and plain data races are invisible to the cooperative scheduler, so only the sequential contract is claimed. Domain: heights >= 1, non-empty signatures (zero values are used as 'absent' sentinels by the stores; recorded as an observation in DESIGN.md). SQLite stores are outside.",
    "symbolic execution of go/ssa + SMT; refinement against a reference model", "§5 C16")

add("C05", "model_checking",
    "A real Mirror (real kernel goroutine, shipped in-memory stores) handles one prevote or precommit message for the voting round, next round, a future round, a future height or height 0, with right or wrong validator-set hash, 1-2 block entries (known, nil, unknown hash) and 1-2 signatures each whose key ids are member / out-of-range / malformed and whose validity is an uninterpreted predicate (forged, foreign, wrong-target and honest signatures are all points of that predicate), optionally after a valid vote. Afterwards every signature found in the voting/committing views and in the round store is re-verified through the same predicate for exactly the kind/height/round/hash it is filed under, and a message with no verifying member signature must leave the views unchanged and not be reported as accepted.",
    "Bounds: 2 validators, one message (plus an optional earlier valid vote), deterministic cooperative schedule between caller and kernel goroutine (concurrent handlers are not explored). Gossip output is not inspected separately (it is a clone of the views). A wrong validator-set hash on a FUTURE round of the voting height is not rejected by the code; the signatures must still verify (recorded as an observation). BLS proofs outside.",
    "symbolic execution of go/ssa + SMT with uninterpreted verification; real mirror+kernel threads", "§5 C05")

add("C07", "model_checking",
    "Two heights and a nil round are committed through the real kernel handlers while the application changes keys and powers at every height (pairwise different sets, symbolic powers, a competing header with a decoy next set in either arrival order): after each commit the voting and next-round views use exactly the committed header's NextValidatorSet and the committing view keeps its set. Through a real Mirror, a proposed header whose validator or public-key LISTS were altered in transit while hashes, block hash and signature stay valid (4 forgery shapes, forged copy before or after the original) must not be accepted, and the set adopted after the commit must match the hashes covered by the committed block hash.",
    "Bounds: 2 validators per set, 4 sets, 2 committed heights. The state-machine side (the sets it proposes/votes with, driver responses) is exercised by the C08/C02 harnesses, not here; restart is C10.",
    "symbolic execution of go/ssa + SMT; real kernel and mirror", "§5 C07")

add("C10", "model_checking",
    "A 3-message history (proposed header, precommit majority, prevote at the next height under a changed validator set) is delivered to a real Mirror on the shipped in-memory stores; the process stops right after the k-th store write of a handler for every k (the writing goroutine is frozen for ever), or cleanly after any message; a new Mirror starts on the same stores, everything sent so far is delivered again and the history continues. Restart must succeed without panic, the position must not be behind the durable record, resumed views must contain only signatures that verify under the height's prescribed set, and the final committed chain, position, validator set and votes must equal the run without a stop.",
    "Bounds: one stop per run, 2 validators per set, 3 messages; store calls atomic (no torn writes); deterministic cooperative schedule. The state machine's restart (action store, finalizations) is C02's subject; SQLite stores outside.",
    "symbolic execution of go/ssa + SMT; crash point enumerated as a choice, real mirror+kernel threads", "§5 C10")

add("C15", "model_checking",
    "The real SimpleHashScheme.Block/PubKeys/VotePowers and SimpleSignatureScheme.Write*SigningContent run on pairs of symbolic headers / vote targets (byte fields 0-2 symbolic bytes incl. nil vs empty, integers < 1000, 0-2 validators, 0-2 commit-proof entries with 0-2 signatures): BLAKE2b is replaced by an injective recording hasher (the digest is the written byte stream), so 'equal hash' means 'equal serialised bytes'; the solver shows equal bytes imply equality of every field other than Hash, independence from the stored Hash and from map iteration order, and that prevote/precommit/proposal sign bytes are pairwise distinct across kind, height, round and hash.",
    "Assumes BLAKE2b collision resistance (modelled as injectivity). fmt's %x/%d/%s are modelled exactly for symbolic operands (validated against real fmt in native replay). Field sizes above 2 bytes and integers >= 1000 are outside. Observation (not claimed as violation): proposal sign bytes do not cover validator sets or the commit proof.",
    "symbolic execution of go/ssa + SMT; hash replaced by an injective function", "§5 C15")

add("C11", "model_checking",
    "A real Mirror whose view outputs are unbuffered (as tmengine wires them) with the harness playing the state machine (round entrance, view reader) and the gossip strategy: four scripted histories (growing votes, one nil-precommit round, two consecutive nil-precommit rounds, a minority-prevote jump) are delivered, and after every message each consumer either reads everything offered or stays stalled (all combinations); both resume at the end. Per consumer and (height, round): versions strictly increase, votes and proposals only grow; at quiescence gossip holds the mirror's latest voting view and the state machine the latest view of its round; the precommits that justified leaving a nil-committed round reached both consumers; a skipped round is announced by a jump-ahead.",
    "Bounds: 3 validators, 2-3 messages per script, stall/read choices at message boundaries only (no preemption inside the kernel loop; deterministic cooperative schedule otherwise). Signature validity is an uninterpreted predicate with the script's signatures assumed authentic.",
    "symbolic execution of go/ssa + SMT; consumer speeds as explored choices, real mirror+kernel threads", "§5 C11")

add("C03", "other",
    "C03 quantifies over networks of engines, delivery schedules, partitions and restarts, which symbolic execution of one process cannot encode. What IS decided, by the solver on the real commit rule, is the pairwise commit-state lemma: for two node states at one height holding admitted precommit sets for A (round r1) and B != A (round r2 >= r1) — signer sets, Byzantine set and 4 validator powers fully symbolic, Byzantine power < 1/3, no honest validator in both sets — the real checkVotingPrecommitViewShift/ShiftVotingToCommitting cannot commit A at one node and B at the other (the quorum-intersection argument is discharged by the solver as infeasibility of the 'both commit' path).",
    "Premises (assumptions, not decided here): honest validators sign at most one precommit per round (C02) and respect the lock rule across rounds (consensus-strategy/driver code); vote summaries equal the sums over admitted signers (C06-H1); thresholds per C18. Network schedules, message loss, partitions, restarts of N engines, and contiguous finalization (C08) are outside this check.",
    "symbolic execution of go/ssa + SMT (cvc5 bv-as-int); conditional lemma, not a network exploration", "§5 C03")
