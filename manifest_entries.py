NOT_APPLICABLE = {}

add("C18", "proof",
    "ByzantineMajority/ByzantineMinority are executed symbolically from go/ssa with n a single full-width 64-bit symbol (products in 128 bits); "
    "z3 shows every obligation (3m>2n, 3(m-1)<=2n, 3k>=n, 3(k-1)<n, panic iff n=0, quorum overlap >= minority, below-minority cannot form or block a majority) unsat-negated for all 2^64 values. "
    "No bound other than the machine width, both functions are loop-free, so this is a solver-discharged proof of the stated arithmetic facts about the real code.",
    "Stubs: math/bits.Mul64/Add64/Sub64 as 128/65-bit bit-vector terms. Assumes z3's QF_BV decision procedure is sound.",
    "symbolic execution of go/ssa + SMT (z3 bit-vectors), all paths, full 64-bit", "§5 C18")
