package main

// Model of the two libp2p-pubsub calls the tmlibp2p Connection makes on its *pubsub.PubSub
// (the pubsub package itself is not executed): a per-PubSub table topic -> registered validator.
//
//   RegisterTopicValidator(topic, val, opts...)  error iff one is already registered
//   UnregisterTopicValidator(topic)              error iff none is registered
//
// Both are scheduling points (in libp2p they are a request/response with the pubsub event
// loop). The harness-side intrinsic vhPubsubValidate(ps, topic, ctx, from, msg) plays the
// validation pipeline for one incoming message: it reports whether a validator is registered
// at that moment and, if so, calls it (ValidatorEx or the plain func form) and returns its
// result. libp2p forwards a message iff no validator is registered for the topic or the
// validator returns ValidationAccept.

import (
	"fmt"
	"go/types"
)

const (
	c20Pubsub = "(*github.com/libp2p/go-libp2p-pubsub.PubSub)."
	c20Pkg    = "github.com/gordian-engine/gordian/tm/tmp2p/tmlibp2p."
)

func (m *machine) pubsubTable(ps value) map[string]value {
	if m.pubsubVals == nil {
		m.pubsubVals = map[value]map[string]value{}
	}
	t := m.pubsubVals[ps]
	if t == nil {
		t = map[string]value{}
		m.pubsubVals[ps] = t
	}
	return t
}

func c20Err(fr *frame, msg string) value {
	t := fr.i.namedType("errors", "errorString")
	p := new(value)
	*p = structure{msg}
	return iface{t: types.NewPointer(t), v: p}
}

func init() {
	externals[c20Pubsub+"RegisterTopicValidator"] = func(fr *frame, args []value) value {
		fr.m.yield(fr.th)
		topic, ok := args[1].(string)
		if !ok {
			panic(internalError{"pubsub model: symbolic topic"})
		}
		t := fr.m.pubsubTable(args[0])
		if _, dup := t[topic]; dup {
			return c20Err(fr, fmt.Sprintf("duplicate validator for topic %s", topic))
		}
		t[topic] = args[2]
		fr.m.yield(fr.th)
		return iface{}
	}
	externals[c20Pubsub+"UnregisterTopicValidator"] = func(fr *frame, args []value) value {
		fr.m.yield(fr.th)
		topic, ok := args[1].(string)
		if !ok {
			panic(internalError{"pubsub model: symbolic topic"})
		}
		t := fr.m.pubsubTable(args[0])
		if _, have := t[topic]; !have {
			return c20Err(fr, fmt.Sprintf("no validator for topic %s", topic))
		}
		delete(t, topic)
		fr.m.yield(fr.th)
		return iface{}
	}
	// Join / Subscribe / GetTopics: the topic is joined and subscribed (from then on the host
	// receives the topic's messages); the returned Topic / Subscription are zero values that
	// the code under test only stores.
	externals[c20Pubsub+"Join"] = func(fr *frame, args []value) value {
		fr.m.yield(fr.th)
		t := fr.m.pubsubTable(args[0])
		t["#joined:"+args[1].(string)] = true
		p := new(value)
		*p = zero(fr.i.namedType("github.com/libp2p/go-libp2p-pubsub", "Topic"))
		fr.m.c20Topic = args[1].(string)
		fr.m.c20PS = args[0]
		return tuple{p, iface{}}
	}
	externals["(*github.com/libp2p/go-libp2p-pubsub.Topic).Subscribe"] = func(fr *frame, args []value) value {
		fr.m.yield(fr.th)
		t := fr.m.pubsubTable(fr.m.c20PS)
		t["#subscribed:"+fr.m.c20Topic] = true
		p := new(value)
		*p = zero(fr.i.namedType("github.com/libp2p/go-libp2p-pubsub", "Subscription"))
		return tuple{p, iface{}}
	}
	externals[c20Pubsub+"GetTopics"] = func(fr *frame, args []value) value {
		t := fr.m.pubsubTable(args[0])
		var out []value
		for k := range t {
			if len(k) > 8 && k[:8] == "#joined:" {
				out = append(out, k[8:])
			}
		}
		return out
	}
	// Subscription.Next: nothing is ever handed to the subscriber in this model.
	externals["(*github.com/libp2p/go-libp2p-pubsub.Subscription).Next"] = func(fr *frame, args []value) value {
		fr.m.blockUntil(fr.th, func() bool { return false })
		return tuple{(*value)(nil), iface{}}
	}
	// dht.New / dht.ProtocolPrefix: the DHT peer is only stored.
	externals["github.com/libp2p/go-libp2p-kad-dht.New"] = func(fr *frame, args []value) value {
		return tuple{(*value)(nil), iface{}}
	}
	externals["github.com/libp2p/go-libp2p-kad-dht.ProtocolPrefix"] = func(fr *frame, args []value) value {
		return (*closure)(nil)
	}
	// vhPubsubValidate(ps *pubsub.PubSub, topic string, ctx context.Context, from peer.ID, msg *pubsub.Message) (res int, state int)
	// state 0: the host is not subscribed (the message is not received at all);
	// state 1: no validator registered (libp2p forwards the message unchecked);
	// state 2: the registered validator ran and returned res.
	externals[c20Pkg+"vhPubsubValidate"] = func(fr *frame, args []value) value {
		fr.m.schedDep = true
		t := fr.m.pubsubTable(args[0])
		if _, sub := t["#subscribed:"+args[1].(string)]; !sub {
			return tuple{int(0), int(0)}
		}
		v, have := t[args[1].(string)]
		if !have {
			return tuple{int(0), int(1)}
		}
		fn := v
		if i, isIface := v.(iface); isIface {
			fn = i.v
		}
		r := call(fr.i, fr, 0, fn, []value{args[2], args[3], args[4]})
		switch x := r.(type) {
		case int:
			return tuple{x, int(2)}
		case sym:
			return tuple{x, int(2)}
		}
		panic(internalError{fmt.Sprintf("pubsub model: validator returned %T", r)})
	}
}
