package main

// Function summaries: a pure callee is replaced by a fresh value constrained by
// its specification. Only used where the specification is itself established on
// the real code by another check (ByzantineMajority/Minority: C18, proof level),
// and only when a harness opts in through verifrt.Summarize.

import (
	"go/types"
	"math/big"
	"strings"
)

type summaryFn func(fr *frame, args []value) (value, bool)

func summaryFor(name string) (string, summaryFn) {
	switch {
	case strings.HasSuffix(name, "/tm/tmconsensus.ByzantineMajority"):
		return "ByzantineThresholds", sumMajority
	case strings.HasSuffix(name, "/tm/tmconsensus.ByzantineMinority"):
		return "ByzantineThresholds", sumMinority
	}
	return "", nil
}

func (m *machine) thresholdSummary(fr *frame, n value, kind string) (value, bool) {
	sn, ok := n.(sym)
	if !ok {
		return nil, false // concrete argument: run the real function
	}
	tt := m.tt
	if fr.decide(tt.cmp("=", sn.t, tt.bv(64, 0))) {
		return nil, false // n == 0: the real function panics; run it
	}
	key := kind + ":" + itoa(sn.t.id)
	if v, ok := m.sumCache[key]; ok {
		return v, true
	}
	res := m.freshVar(kind+"_of", types.Uint64).(sym)
	z := func(t *term) *term { return tt.zext(t, 66) }
	three, two, one := tt.bv(66, 3), tt.bv(66, 2), tt.bv(64, 1)
	var spec *term
	if kind == "maj" {
		// least m with 3m > 2n
		a := tt.cmp("bvugt", tt.bin("bvmul", z(res.t), three), tt.bin("bvmul", z(sn.t), two))
		b := tt.cmp("bvule", tt.bin("bvmul", z(tt.bin("bvsub", res.t, one)), three), tt.bin("bvmul", z(sn.t), two))
		spec = tt.and(tt.and(a, b), tt.cmp("bvuge", res.t, one))
	} else {
		// least k with 3k >= n
		a := tt.cmp("bvuge", tt.bin("bvmul", z(res.t), three), z(sn.t))
		b := tt.cmp("bvult", tt.bin("bvmul", z(tt.bin("bvsub", res.t, one)), three), z(sn.t))
		spec = tt.and(tt.and(a, b), tt.cmp("bvuge", res.t, one))
	}
	// keep the cached model valid by computing the function on the model's n
	if m.modelValid {
		e := &evalCtx{vars: m.model, memo: map[*term]*big.Int{}}
		if nv := e.eval(sn.t); nv != nil && nv.IsUint64() && nv.Uint64() != 0 {
			x := nv.Uint64()
			var r uint64
			if kind == "maj" {
				q, rem := x/3, x%3
				if rem < 2 {
					r = 2*q + 1
				} else {
					r = 2*q + 2
				}
			} else {
				q, rem := x/3, x%3
				r = q
				if rem != 0 {
					r = q + 1
				}
			}
			m.model[res.t.name] = r
		} else {
			m.modelValid = false
		}
	}
	m.pc = append(m.pc, spec)
	if m.modelValid && m.evalModel(spec) != 1 {
		m.modelValid = false
	}
	m.sumCache[key] = res
	m.sumUsed["tmconsensus.ByzantineMajority/ByzantineMinority -> value constrained by the specification proven in C18"] = true
	return res, true
}

func sumMajority(fr *frame, args []value) (value, bool) {
	return fr.m.thresholdSummary(fr, args[0], "maj")
}
func sumMinority(fr *frame, args []value) (value, bool) {
	return fr.m.thresholdSummary(fr, args[0], "min")
}

func itoa(i int) string {
	return new(big.Int).SetInt64(int64(i)).String()
}
