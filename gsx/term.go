package main

// Terms: hash-consed SMT-LIB2 bit-vector / Bool expressions with light
// simplification. A term table lives for one path (one re-execution).

import (
	"fmt"
	"math/bits"
	"strconv"
	"strings"
)

type term struct {
	op   string  // "const", "var", "app" (uninterpreted), or an SMT operator
	w    int     // bit width; 0 = Bool
	args []*term // operands
	cv   uint64  // constant value (w<=64) ; Bool: 0/1
	name string  // var / uf name
	p1   int     // extract hi / extend amount
	p2   int     // extract lo
	id   int
	// emitted is the solver-session epoch in which this node was defined
	emitted int
}

func (t *term) isConst() bool { return t.op == "const" }
func (t *term) isBool() bool  { return t.w == 0 }

type ufDecl struct {
	name string
	argw []int
	retw int
}

type termTable struct {
	tab   map[string]*term
	nodes []*term
	vars  []*term          // declared variables in creation order
	ufs   map[string]*ufDecl
	ufOrd []string
	apps  []*term // uf applications in creation order
}

func newTermTable() *termTable {
	return &termTable{tab: map[string]*term{}, ufs: map[string]*ufDecl{}}
}

func (tt *termTable) intern(t *term) *term {
	var sb strings.Builder
	sb.WriteString(t.op)
	sb.WriteByte('|')
	sb.WriteString(strconv.Itoa(t.w))
	sb.WriteByte('|')
	if t.op == "const" {
		sb.WriteString(strconv.FormatUint(t.cv, 16))
	}
	sb.WriteString(t.name)
	sb.WriteByte('|')
	sb.WriteString(strconv.Itoa(t.p1))
	sb.WriteByte('|')
	sb.WriteString(strconv.Itoa(t.p2))
	for _, a := range t.args {
		sb.WriteByte(',')
		sb.WriteString(strconv.Itoa(a.id))
	}
	k := sb.String()
	if e, ok := tt.tab[k]; ok {
		return e
	}
	t.id = len(tt.nodes)
	tt.nodes = append(tt.nodes, t)
	tt.tab[k] = t
	if t.op == "var" {
		tt.vars = append(tt.vars, t)
	}
	if t.op == "app" {
		tt.apps = append(tt.apps, t)
	}
	return t
}

func mask(w int) uint64 {
	if w >= 64 {
		return ^uint64(0)
	}
	return (uint64(1) << uint(w)) - 1
}

func (tt *termTable) bv(w int, v uint64) *term {
	if w == 0 {
		panic("bv: width 0")
	}
	if w > 64 {
		// wide constant: zero-extend a 64-bit constant
		return tt.zext(tt.bv(64, v), w)
	}
	return tt.intern(&term{op: "const", w: w, cv: v & mask(w)})
}

func (tt *termTable) boolc(b bool) *term {
	v := uint64(0)
	if b {
		v = 1
	}
	return tt.intern(&term{op: "const", w: 0, cv: v})
}

func (tt *termTable) newVar(name string, w int) *term {
	return tt.intern(&term{op: "var", w: w, name: name})
}

func (tt *termTable) app(name string, retw int, args []*term) *term {
	d, ok := tt.ufs[name]
	if !ok {
		d = &ufDecl{name: name, retw: retw}
		for _, a := range args {
			d.argw = append(d.argw, a.w)
		}
		tt.ufs[name] = d
		tt.ufOrd = append(tt.ufOrd, name)
	} else {
		if d.retw != retw || len(d.argw) != len(args) {
			panic(internalError{"uninterpreted function " + name + " used with different signatures"})
		}
		for i, a := range args {
			if d.argw[i] != a.w {
				panic(internalError{"uninterpreted function " + name + " used with different argument widths"})
			}
		}
	}
	return tt.intern(&term{op: "app", w: retw, name: name, args: args})
}

func sext64(v uint64, w int) int64 {
	if w >= 64 {
		return int64(v)
	}
	sh := uint(64 - w)
	return int64(v<<sh) >> sh
}

// bin builds a binary bit-vector operation with constant folding.
func (tt *termTable) bin(op string, a, b *term) *term {
	if a.w != b.w {
		panic(internalError{fmt.Sprintf("term width mismatch %s: %d vs %d", op, a.w, b.w)})
	}
	w := a.w
	if a.isConst() && b.isConst() && w <= 64 && w > 0 {
		x, y := a.cv, b.cv
		switch op {
		case "bvadd":
			return tt.bv(w, x+y)
		case "bvsub":
			return tt.bv(w, x-y)
		case "bvmul":
			return tt.bv(w, x*y)
		case "bvand":
			return tt.bv(w, x&y)
		case "bvor":
			return tt.bv(w, x|y)
		case "bvxor":
			return tt.bv(w, x^y)
		case "bvudiv":
			if y != 0 {
				return tt.bv(w, x/y)
			}
		case "bvurem":
			if y != 0 {
				return tt.bv(w, x%y)
			}
		case "bvsdiv":
			if y != 0 {
				sx, sy := sext64(x, w), sext64(y, w)
				if !(sy == -1 && sx == sext64(uint64(1)<<uint(w-1), w)) {
					return tt.bv(w, uint64(sx/sy))
				}
				return tt.bv(w, x)
			}
		case "bvsrem":
			if y != 0 {
				sx, sy := sext64(x, w), sext64(y, w)
				if sy == -1 {
					return tt.bv(w, 0)
				}
				return tt.bv(w, uint64(sx%sy))
			}
		case "bvshl":
			if y >= uint64(w) {
				return tt.bv(w, 0)
			}
			return tt.bv(w, x<<y)
		case "bvlshr":
			if y >= uint64(w) {
				return tt.bv(w, 0)
			}
			return tt.bv(w, x>>y)
		case "bvashr":
			sx := sext64(x, w)
			if y >= uint64(w) {
				y = uint64(w - 1)
			}
			return tt.bv(w, uint64(sx>>y))
		}
	}
	// identities
	isZero := func(t *term) bool { return t.isConst() && t.w <= 64 && t.cv == 0 }
	isOnes := func(t *term) bool { return t.isConst() && t.w <= 64 && t.cv == mask(t.w) }
	switch op {
	case "bvadd", "bvor", "bvxor":
		if isZero(a) {
			return b
		}
		if isZero(b) {
			return a
		}
	case "bvsub", "bvshl", "bvlshr", "bvashr":
		if isZero(b) {
			return a
		}
	case "bvand":
		if isZero(a) || isZero(b) {
			return tt.bv(w, 0)
		}
		if isOnes(a) {
			return b
		}
		if isOnes(b) {
			return a
		}
		if a == b {
			return a
		}
	case "bvmul":
		if isZero(a) || isZero(b) {
			return tt.bv(w, 0)
		}
		if a.isConst() && a.w <= 64 && a.cv == 1 {
			return b
		}
		if b.isConst() && b.w <= 64 && b.cv == 1 {
			return a
		}
	}
	if op == "bvor" && a == b {
		return a
	}
	// canonical order for commutative ops (const last)
	switch op {
	case "bvadd", "bvmul", "bvand", "bvor", "bvxor":
		if a.isConst() && !b.isConst() {
			a, b = b, a
		}
	}
	return tt.intern(&term{op: op, w: w, args: []*term{a, b}})
}

// cmp builds a comparison producing Bool.
func (tt *termTable) cmp(op string, a, b *term) *term {
	if a.w != b.w {
		panic(internalError{fmt.Sprintf("term width mismatch %s: %d vs %d", op, a.w, b.w)})
	}
	if a.isConst() && b.isConst() && a.w <= 64 {
		x, y := a.cv, b.cv
		w := a.w
		switch op {
		case "=":
			return tt.boolc(x == y)
		case "bvult":
			return tt.boolc(x < y)
		case "bvule":
			return tt.boolc(x <= y)
		case "bvugt":
			return tt.boolc(x > y)
		case "bvuge":
			return tt.boolc(x >= y)
		case "bvslt":
			return tt.boolc(sext64(x, w) < sext64(y, w))
		case "bvsle":
			return tt.boolc(sext64(x, w) <= sext64(y, w))
		case "bvsgt":
			return tt.boolc(sext64(x, w) > sext64(y, w))
		case "bvsge":
			return tt.boolc(sext64(x, w) >= sext64(y, w))
		}
	}
	if a == b {
		switch op {
		case "=", "bvule", "bvuge", "bvsle", "bvsge":
			return tt.boolc(true)
		default:
			return tt.boolc(false)
		}
	}
	if op == "=" && a.w == 0 {
		// Bool equality
		if a.isConst() {
			if a.cv == 1 {
				return b
			}
			return tt.not(b)
		}
		if b.isConst() {
			if b.cv == 1 {
				return a
			}
			return tt.not(a)
		}
	}
	if op == "=" && a.id > b.id {
		a, b = b, a
	}
	return tt.intern(&term{op: op, w: 0, args: []*term{a, b}})
}

func (tt *termTable) not(a *term) *term {
	if a.w != 0 {
		panic(internalError{"not on non-bool"})
	}
	if a.isConst() {
		return tt.boolc(a.cv == 0)
	}
	if a.op == "not" {
		return a.args[0]
	}
	return tt.intern(&term{op: "not", w: 0, args: []*term{a}})
}

func (tt *termTable) and(a, b *term) *term {
	if a.isConst() {
		if a.cv == 1 {
			return b
		}
		return a
	}
	if b.isConst() {
		if b.cv == 1 {
			return a
		}
		return b
	}
	if a == b {
		return a
	}
	return tt.intern(&term{op: "and", w: 0, args: []*term{a, b}})
}

func (tt *termTable) or(a, b *term) *term {
	if a.isConst() {
		if a.cv == 0 {
			return b
		}
		return a
	}
	if b.isConst() {
		if b.cv == 0 {
			return a
		}
		return b
	}
	if a == b {
		return a
	}
	return tt.intern(&term{op: "or", w: 0, args: []*term{a, b}})
}

func (tt *termTable) implies(a, b *term) *term { return tt.or(tt.not(a), b) }

func (tt *termTable) ite(c, a, b *term) *term {
	if a.w != b.w {
		panic(internalError{"ite width mismatch"})
	}
	if c.isConst() {
		if c.cv == 1 {
			return a
		}
		return b
	}
	if a == b {
		return a
	}
	if a.w == 0 {
		// Bool ite -> connectives
		if a.isConst() && b.isConst() {
			if a.cv == 1 {
				return c
			}
			return tt.not(c)
		}
	}
	return tt.intern(&term{op: "ite", w: a.w, args: []*term{c, a, b}})
}

func (tt *termTable) bvnot(a *term) *term {
	if a.isConst() && a.w <= 64 {
		return tt.bv(a.w, ^a.cv)
	}
	return tt.intern(&term{op: "bvnot", w: a.w, args: []*term{a}})
}

func (tt *termTable) bvneg(a *term) *term {
	if a.isConst() && a.w <= 64 {
		return tt.bv(a.w, -a.cv)
	}
	return tt.intern(&term{op: "bvneg", w: a.w, args: []*term{a}})
}

func (tt *termTable) zext(a *term, w int) *term {
	if w == a.w {
		return a
	}
	if w < a.w {
		return tt.extract(a, w-1, 0)
	}
	if a.isConst() && w <= 64 {
		return tt.bv(w, a.cv)
	}
	return tt.intern(&term{op: "zero_extend", w: w, p1: w - a.w, args: []*term{a}})
}

func (tt *termTable) sext(a *term, w int) *term {
	if w == a.w {
		return a
	}
	if w < a.w {
		return tt.extract(a, w-1, 0)
	}
	if a.isConst() && w <= 64 {
		return tt.bv(w, uint64(sext64(a.cv, a.w)))
	}
	return tt.intern(&term{op: "sign_extend", w: w, p1: w - a.w, args: []*term{a}})
}

func (tt *termTable) extract(a *term, hi, lo int) *term {
	if lo == 0 && hi == a.w-1 {
		return a
	}
	w := hi - lo + 1
	if a.isConst() && a.w <= 64 {
		return tt.bv(w, a.cv>>uint(lo))
	}
	if a.op == "zero_extend" && hi < a.args[0].w {
		return tt.extract(a.args[0], hi, lo)
	}
	if a.op == "sign_extend" && hi < a.args[0].w {
		return tt.extract(a.args[0], hi, lo)
	}
	if a.op == "concat" {
		lw := a.args[1].w
		if hi < lw {
			return tt.extract(a.args[1], hi, lo)
		}
		if lo >= lw {
			return tt.extract(a.args[0], hi-lw, lo-lw)
		}
	}
	return tt.intern(&term{op: "extract", w: w, p1: hi, p2: lo, args: []*term{a}})
}

func (tt *termTable) concat(hi, lo *term) *term {
	w := hi.w + lo.w
	if hi.isConst() && lo.isConst() && w <= 64 {
		return tt.bv(w, hi.cv<<uint(lo.w)|lo.cv)
	}
	return tt.intern(&term{op: "concat", w: w, args: []*term{hi, lo}})
}

// popcount as a sum of single-bit extracts, result width w.
func (tt *termTable) popcount(a *term, w int) *term {
	if a.isConst() && a.w <= 64 {
		return tt.bv(w, uint64(bits.OnesCount64(a.cv)))
	}
	sum := tt.bv(w, 0)
	for i := 0; i < a.w; i++ {
		sum = tt.bin("bvadd", sum, tt.zext(tt.extract(a, i, i), w))
	}
	return sum
}

// ---- printing

func sortName(w int) string {
	if w == 0 {
		return "Bool"
	}
	return fmt.Sprintf("(_ BitVec %d)", w)
}

func constLit(t *term) string {
	if t.w == 0 {
		if t.cv == 1 {
			return "true"
		}
		return "false"
	}
	if t.w%4 == 0 {
		return fmt.Sprintf("#x%0*x", t.w/4, t.cv)
	}
	return fmt.Sprintf("#b%0*b", t.w, t.cv)
}

// ref returns the name by which t is referred to in the solver session,
// appending any needed definitions to defs. epoch identifies the session.
func (t *term) ref(defs *strings.Builder, epoch int) string {
	switch t.op {
	case "const":
		return constLit(t)
	case "var":
		if t.emitted != epoch {
			t.emitted = epoch
			fmt.Fprintf(defs, "(declare-const %s %s)\n", smtSym(t.name), sortName(t.w))
		}
		return smtSym(t.name)
	}
	nm := "n" + strconv.Itoa(t.id)
	if t.emitted == epoch {
		return nm
	}
	refs := make([]string, len(t.args))
	for i, a := range t.args {
		refs[i] = a.ref(defs, epoch)
	}
	t.emitted = epoch
	var body string
	switch t.op {
	case "app":
		body = "(" + smtSym("uf_"+t.name) + " " + strings.Join(refs, " ") + ")"
	case "extract":
		body = fmt.Sprintf("((_ extract %d %d) %s)", t.p1, t.p2, refs[0])
	case "zero_extend", "sign_extend":
		body = fmt.Sprintf("((_ %s %d) %s)", t.op, t.p1, refs[0])
	default:
		body = "(" + t.op + " " + strings.Join(refs, " ") + ")"
	}
	fmt.Fprintf(defs, "(define-fun %s () %s %s)\n", nm, sortName(t.w), body)
	return nm
}

func smtSym(s string) string {
	ok := true
	for _, c := range s {
		if !(c >= 'a' && c <= 'z' || c >= 'A' && c <= 'Z' || c >= '0' && c <= '9' || c == '_' || c == '.') {
			ok = false
		}
	}
	if ok && s != "" && !(s[0] >= '0' && s[0] <= '9') {
		return s
	}
	return "|" + strings.ReplaceAll(s, "|", "_") + "|"
}

// String renders a term inline (for evidence samples / debugging).
func (t *term) String() string {
	var sb strings.Builder
	t.write(&sb, 0)
	return sb.String()
}

func (t *term) write(sb *strings.Builder, depth int) {
	if depth > 12 {
		sb.WriteString("…")
		return
	}
	switch t.op {
	case "const":
		sb.WriteString(constLit(t))
	case "var":
		sb.WriteString(t.name)
	default:
		sb.WriteByte('(')
		switch t.op {
		case "app":
			sb.WriteString(t.name)
		case "extract":
			fmt.Fprintf(sb, "(_ extract %d %d)", t.p1, t.p2)
		case "zero_extend", "sign_extend":
			fmt.Fprintf(sb, "(_ %s %d)", t.op, t.p1)
		default:
			sb.WriteString(t.op)
		}
		for _, a := range t.args {
			sb.WriteByte(' ')
			a.write(sb, depth+1)
		}
		sb.WriteByte(')')
	}
}

// eval evaluates t under a model (vars by name; UF applications by
// name+args key). Returns ok=false if something is missing.
type model struct {
	vars map[string]uint64
	apps map[string]uint64 // key: name(arg,arg,...) with hex args
}

func appKey(name string, args []uint64) string {
	var sb strings.Builder
	sb.WriteString(name)
	sb.WriteByte('(')
	for i, a := range args {
		if i > 0 {
			sb.WriteByte(',')
		}
		sb.WriteString(strconv.FormatUint(a, 16))
	}
	sb.WriteByte(')')
	return sb.String()
}
