package main

import (
	"encoding/json"
	"flag"
	"fmt"
	"hash/fnv"
	"os"
	"path/filepath"
	"runtime"
	"runtime/pprof"
	"sort"
	"strings"
	"time"

	"golang.org/x/tools/go/ssa"
)

type config struct {
	Level       string            `json:"level"` // model_checking | proof | other
	Tags        string            `json:"tags"`
	Only        []string          `json:"only,omitempty"`
	Quick       budgets           `json:"quick"`
	Thorough    budgets           `json:"thorough"`
	Bounds      map[string]string `json:"bounds"`
	Stubs       []string          `json:"stubs"`
	Assumptions []string          `json:"assumptions"`
	Explanation string            `json:"explanation"`
	TrustedBase []string          `json:"trusted_base"`
	QuickSkip   []string          `json:"quick_skip"` // harnesses only run in thorough
	CrossCheck  bool              `json:"cross_check"`
	NoWitness   bool              `json:"no_witness"`
	Shared      []string          `json:"shared"`
	Solver      string            `json:"solver"` // primary solver: z3 (default) or cvc5
	// Replace maps a module path to a directory under /verif that replaces it (go.mod replace
	// in a private -modfile), for the encoder's load and for the native replay build alike:
	// a pure-Go model of a cgo dependency that has no Go IR (blst).
	Replace map[string]string `json:"replace"`
}

// modReplace is cfg.Replace with absolute directories.
var modReplace map[string]string

func setModReplace(cfg config) {
	modReplace = map[string]string{}
	for k, v := range cfg.Replace {
		if !filepath.IsAbs(v) {
			v = filepath.Join(*flagVerif, v)
		}
		modReplace[k] = v
	}
}

// privateModfile writes a copy of the repository's go.mod/go.sum with the configured replace
// directives into dir and returns the go.mod path ("" if the repository has no go.mod).
func privateModfile(repo, dir string) string {
	gm, err := os.ReadFile(filepath.Join(repo, "go.mod"))
	if err != nil {
		return ""
	}
	var keys []string
	for k := range modReplace {
		keys = append(keys, k)
	}
	sort.Strings(keys)
	for _, k := range keys {
		gm = append(gm, []byte(fmt.Sprintf("\nreplace %s => %s\n", k, modReplace[k]))...)
	}
	mf := filepath.Join(dir, "go.mod")
	os.WriteFile(mf, gm, 0o644)
	if gs, err := os.ReadFile(filepath.Join(repo, "go.sum")); err == nil {
		os.WriteFile(filepath.Join(dir, "go.sum"), gs, 0o644)
	}
	return mf
}

type knownFinding struct {
	Property string `json:"property"`
	Harness  string `json:"harness"`
	Label    string `json:"label"`
	What     string `json:"what"`
	ID       string `json:"finding_id"`
}

func defaultBudgets(tier string) budgets {
	if tier == "thorough" {
		return budgets{MaxSteps: 20_000_000, MaxDecisions: 4000, MaxPaths: 400_000, QueryMs: 60_000, WallS: 1500}
	}
	return budgets{MaxSteps: 5_000_000, MaxDecisions: 2000, MaxPaths: 50_000, QueryMs: 10_000, WallS: 240}
}

func mergeBudgets(d, o budgets) budgets {
	if o.MaxSteps > 0 {
		d.MaxSteps = o.MaxSteps
	}
	if o.MaxDecisions > 0 {
		d.MaxDecisions = o.MaxDecisions
	}
	if o.MaxPaths > 0 {
		d.MaxPaths = o.MaxPaths
	}
	if o.QueryMs > 0 {
		d.QueryMs = o.QueryMs
	}
	if o.WallS > 0 {
		d.WallS = o.WallS
	}
	return d
}

var (
	flagRepo     = flag.String("repo", "/repo", "repository under test")
	flagVerif    = flag.String("verif", "/verif", "verification root")
	flagProp     = flag.String("prop", "", "property id")
	flagTier     = flag.String("tier", "quick", "quick|thorough")
	flagOnly     = flag.String("only", "", "comma-separated harness names")
	flagWorkers  = flag.Int("workers", 0, "worker count (default: cores)")
	flagTrace    = flag.Bool("trace", false, "trace calls")
	flagReplay   = flag.String("replay", "", "replay a violation file natively")
	flagNoNative = flag.Bool("no-native", false, "skip native replay / witness validation (debugging only; never exits 0 with violations)")
	flagSolverLog = flag.String("solver-log", "", "write solver input of worker 0 here")
	flagOutRoot  = flag.String("outroot", "", "directory for evidence/ and out/ (default: the verification root)")
	flagWall     = flag.Int("wall", 0, "override wall budget per harness (s)")
	flagOne      = flag.String("prefix", "", "run a single path with this decision prefix (comma separated), verbose")
)

func main() {
	flag.Parse()
	os.Exit(realMain())
}

func realMain() int {
	t0 := time.Now()
	if p := os.Getenv("GSX_CPUPROFILE"); p != "" {
		f, _ := os.Create(p)
		pprof.StartCPUProfile(f)
		defer pprof.StopCPUProfile()
	}
	prop := *flagProp
	if prop == "" {
		fmt.Fprintln(os.Stderr, "usage: gsx -prop Cxx [-tier quick|thorough]")
		return 2
	}
	tier := *flagTier
	if env := os.Getenv("VERIF_TIER"); env != "" && tier == "" {
		tier = env
	}
	seed := int64(1)
	if s := os.Getenv("VERIF_SEED"); s != "" {
		fmt.Sscan(s, &seed)
	}
	harnessDir := filepath.Join(*flagVerif, "harness", prop)
	rtDir := filepath.Join(*flagVerif, "rt")
	outRoot := *flagVerif
	if *flagOutRoot != "" {
		outRoot = *flagOutRoot
	}
	outDir := filepath.Join(outRoot, "out", prop)
	os.MkdirAll(outDir, 0o755)
	evPath := filepath.Join(outRoot, "evidence", prop+".json")
	os.MkdirAll(filepath.Dir(evPath), 0o755)

	var cfg config
	if b, err := os.ReadFile(filepath.Join(harnessDir, "config.json")); err == nil {
		if err := json.Unmarshal(b, &cfg); err != nil {
			fmt.Fprintln(os.Stderr, "bad config.json:", err)
			return 2
		}
	}
	if cfg.Level == "" {
		cfg.Level = "model_checking"
	}
	setModReplace(cfg)
	tags := "math_big_pure_go"
	if cfg.Tags != "" {
		tags += "," + cfg.Tags
	}
	b := defaultBudgets(tier)
	if tier == "thorough" {
		b = mergeBudgets(b, cfg.Thorough)
	} else {
		b = mergeBudgets(b, cfg.Quick)
	}

	if *flagWall > 0 {
		b.WallS = *flagWall
	}
	if *flagReplay != "" {
		return replayFile(prop, harnessDir, rtDir, *flagReplay)
	}

	var known []knownFinding
	if kb, err := os.ReadFile(filepath.Join(*flagVerif, "known_findings.json")); err == nil {
		var kf struct {
			Findings []knownFinding `json:"findings"`
		}
		if err := json.Unmarshal(kb, &kf); err != nil {
			fmt.Fprintln(os.Stderr, "bad known_findings.json:", err)
			return 2
		}
		known = kf.Findings
	}

	tl := time.Now()
	ld, err := loadProgram(*flagRepo, harnessDir, rtDir, tags, cfg.Shared)
	if err != nil {
		fmt.Fprintln(os.Stderr, "LOAD FAILED:", err)
		writeEvidenceFailure(evPath, prop, tier, seed, cfg, "load failed: "+err.Error(), time.Since(t0).Seconds())
		return 2
	}
	loadS := time.Since(tl).Seconds()
	logf("loaded %d packages, %d harnesses in %.1fs", len(ld.prog.AllPackages()), len(ld.harnesses), loadS)

	nw := *flagWorkers
	if nw <= 0 {
		nw = runtime.NumCPU()
	}
	if *flagOne != "" {
		nw = 1
	}
	only := map[string]bool{}
	for _, s := range strings.Split(*flagOnly, ",") {
		if s != "" {
			only[s] = true
		}
	}
	skip := map[string]bool{}
	if tier != "thorough" {
		for _, s := range cfg.QuickSkip {
			skip[s] = true
		}
	}

	// workers
	ti := time.Now()
	workers := make([]*worker, nw)
	errs := make(chan error, nw)
	for i := 0; i < nw; i++ {
		go func(i int) {
			w := &worker{id: i + 1, in: newInterpreter(ld)}
			w.in.trace = *flagTrace
			w.in.thorough = tier == "thorough"
			primary, secondary := "z3", "cvc5"
			if cfg.Solver == "cvc5" {
				primary, secondary = "cvc5", "z3"
			}
			s, err := newSolver(primary, b.QueryMs)
			if err != nil {
				errs <- err
				return
			}
			if s.alt, err = newSolver(secondary, b.QueryMs); err != nil {
				errs <- err
				return
			}
			w.solver = s
			if i == 0 && *flagSolverLog != "" {
				f, _ := os.Create(*flagSolverLog)
				s.logw = f
			}
			w.ex = &explorer{res: &harnessResult{Violations: map[string]*violation{}}, sampleLabels: map[string]int{}}
			if err := w.runInit(ld.pkgs); err != nil {
				errs <- err
				return
			}
			workers[i] = w
			errs <- nil
		}(i)
	}
	for i := 0; i < nw; i++ {
		if err := <-errs; err != nil {
			fmt.Fprintln(os.Stderr, "INIT FAILED:", err)
			writeEvidenceFailure(evPath, prop, tier, seed, cfg, "init failed: "+err.Error(), time.Since(t0).Seconds())
			return 2
		}
	}
	defer func() {
		for _, w := range workers {
			if w != nil {
				w.solver.close()
			}
		}
	}()
	logf("initialised %d workers in %.1fs", nw, time.Since(ti).Seconds())

	if *flagOne != "" {
		return runOne(ld, workers[0], b)
	}

	var results []*harnessResult
	reachDecl := map[string][]string{}
	for _, h := range ld.harnesses {
		if len(only) > 0 && !only[h.Name()] {
			continue
		}
		if skip[h.Name()] {
			continue
		}
		reachDecl[h.Name()] = declaredReach(ld, h)
		wc := 4
		if tier == "thorough" {
			wc = 16
		}
		if cfg.NoWitness || *flagNoNative {
			wc = 0
		}
		r := exploreHarness(h, workers, b, wc)
		results = append(results, r)
		logf("%s: paths=%d ok=%d infeasible=%d bound=%d unsupported=%d inconclusive=%d deadlock=%d decisions=%d queries=%d obligations=%d(%d solver) violations=%d wall=%.1fs solver=%.1fs",
			r.Harness, r.Paths, r.PathsOK, r.Infeasible, r.Bound, r.Unsupported, r.Inconclusive, r.Deadlocks, r.Decisions, r.Queries, r.Obligations, r.OblSymbolic, len(r.Violations), r.WallS, r.SolverS)
		for _, p := range r.Problems {
			logf("   problem: %s", clip(p, 1500))
		}
	}
	if len(results) == 0 {
		fmt.Fprintln(os.Stderr, "no harness selected")
		return 2
	}

	rep := buildReport(prop, tier, seed, cfg, b, ld, results, reachDecl, known, outDir, harnessDir, rtDir, nw, loadS)
	rep.WallS = time.Since(t0).Seconds()
	writeEvidence(evPath, rep)
	for _, l := range rep.stdoutLines {
		fmt.Println(l)
	}
	logf("exit %d (%s) wall %.1fs", rep.exit, rep.summary, rep.WallS)
	return rep.exit
}

// declaredReach collects the constant labels passed to verifrt.Reach in the harness and its package-local callees.
func declaredReach(ld *loaded, h *ssa.Function) []string {
	seen := map[*ssa.Function]bool{}
	labels := map[string]bool{}
	var visit func(f *ssa.Function)
	visit = func(f *ssa.Function) {
		if f == nil || seen[f] || f.Blocks == nil {
			return
		}
		seen[f] = true
		for _, af := range f.AnonFuncs {
			visit(af)
		}
		for _, blk := range f.Blocks {
			for _, ins := range blk.Instrs {
				c, ok := ins.(ssa.CallInstruction)
				if !ok {
					continue
				}
				callee := c.Common().StaticCallee()
				if callee == nil || callee.Pkg == nil {
					continue
				}
				if callee.Pkg.Pkg.Path() == ld.rtPath && callee.Name() == "Reach" {
					if k, ok := c.Common().Args[0].(*ssa.Const); ok {
						labels[strings.Trim(k.Value.ExactString(), "\"")] = true
					}
					continue
				}
				// follow into harness-file functions only
				pos := ld.prog.Fset.Position(callee.Pos())
				if _, isOv := ld.overlay[pos.Filename]; isOv && callee.Pkg.Pkg.Path() != ld.rtPath {
					visit(callee)
				}
			}
		}
	}
	visit(h)
	var r []string
	for l := range labels {
		r = append(r, l)
	}
	sort.Strings(r)
	return r
}

func hashStr(s string) uint32 {
	h := fnv.New32a()
	h.Write([]byte(s))
	return h.Sum32()
}

func runOne(ld *loaded, w *worker, b budgets) int {
	var prefix []int
	for _, s := range strings.Split(*flagOne, ",") {
		s = strings.TrimSpace(s)
		if s == "" || s == "-" {
			continue
		}
		var v int
		fmt.Sscan(s, &v)
		prefix = append(prefix, v)
	}
	for _, h := range ld.harnesses {
		if *flagOnly != "" && h.Name() != *flagOnly {
			continue
		}
		w.ex = &explorer{res: &harnessResult{Violations: map[string]*violation{}}, sampleLabels: map[string]int{}}
		m := w.runPath(h, prefix, b)
		fmt.Printf("harness %s status=%d msg=%s steps=%d decisions=%d reach=%v\n", h.Name(), m.status, m.statusMsg, m.steps, len(m.decs), m.reach)
		for i, d := range m.decs {
			fmt.Printf("  dec %d kind=%c chosen=%d forced=%v at %s\n", i, d.kind, d.chosen, d.forced, d.what)
		}
		for _, v := range m.viols {
			fmt.Printf("  violation %s (%s)\n", v.Label, v.Kind)
		}
		for _, a := range m.alts {
			fmt.Printf("  alt %v\n", a)
		}
	}
	return 0
}
