package main

// Intrinsics for the C12 round-timer harnesses (zz_vh_c12_timer.go).

const c12tPkg = "github.com/gordian-engine/gordian/tm/tmengine/internal/tmstate."

func init() {
	// vhC12ScheduleDependent(): the harness runs a real background goroutine, so no
	// path is a deterministic function of the solver model: never use such a path as
	// a translator-validation witness and retry native replays of its violations.
	externals[c12tPkg+"vhC12ScheduleDependent"] = func(fr *frame, args []value) value {
		fr.m.schedDep = true
		return nil
	}
	// vhC12TimerFires() int: how many times a time.Timer / time.After channel has
	// delivered so far on this path (-1 natively: unknown).
	externals[c12tPkg+"vhC12TimerFires"] = func(fr *frame, args []value) value {
		return fr.m.threads[0].timerFires
	}
}
