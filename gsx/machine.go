package main

// machine: the state of one path (one re-execution of a harness with a
// decision prefix): term table, path condition, decisions, threads,
// channels, results.

import (
	"fmt"
	"go/types"
	"math/big"
	"sort"
	"strings"
)

type abortKind int

const (
	abortEnd         abortKind = iota // harness finished; other threads are torn down
	abortInfeasible                   // Assume(false) / infeasible continuation
	abortBound                        // budget exceeded (unwinding assertion)
	abortUnsupported                  // construct without a model
	abortInconclusive                 // solver unknown
	abortDeadlock
	abortViolation // Assert(false): nothing left to explore on this path
)

type pathAbort struct {
	kind abortKind
	msg  string
}

type internalError struct{ msg string }

func (e internalError) Error() string { return "gsx internal: " + e.msg }

// targetPanic: the target program panicked with value v.
type targetPanic struct {
	v value
}

func (p targetPanic) String() string { return toString(p.v) }

type decisionRec struct {
	kind   byte // 'b' branch, 'c' free choice
	arity  int
	chosen int
	forced bool
	what   string
}

type violation struct {
	Label    string            `json:"label"`
	Kind     string            `json:"kind"` // "assert", "panic", "deadlock"
	Detail   string            `json:"detail,omitempty"`
	Replay   *replayInput      `json:"replay,omitempty"`
	Prefix   []int             `json:"prefix,omitempty"`
	Schedule bool              `json:"schedule_dependent,omitempty"`
	Extra    map[string]string `json:"extra,omitempty"`
}

type replayInput struct {
	Harness string                `json:"harness"`
	Vars    map[string]uint64     `json:"vars"`
	UFs     map[string][]ufPoint  `json:"ufs"`
	Choices []choiceRec           `json:"choices"`
	Expect  string                `json:"expect,omitempty"`
}

type ufPoint struct {
	Args []uint64 `json:"args"`
	Ret  uint64   `json:"ret"`
}

type choiceRec struct {
	Name string `json:"name"`
	N    int    `json:"n"`
	V    int    `json:"v"`
}

type observation struct {
	label string
	vals  []value
	bytes bool
}

type machine struct {
	w  *worker
	in *interpreter
	tt *termTable

	harness string
	prefix  []int
	decs    []decisionRec
	pc      []*term
	pcSent  int

	steps     int
	maxSteps  int
	maxDecs   int
	nQueries  int
	nObl      int
	nOblSym   int
	reach     []string
	obs       []observation
	viols     []violation
	alts      [][]int
	choices   []choiceRec
	status    abortKind
	statusMsg string
	schedDep  bool // a scheduling / map-order / select choice was taken on this path
	pubsubVals map[value]map[string]value // libp2p-pubsub model: registered topic validators per PubSub
	c20Topic   string
	c20PS      value

	varSeq map[string]int

	model       map[string]uint64
	modelValid  bool
	pcUnchecked bool

	// threads
	threads []*thread
	cur     *thread
	aborted bool
	abortCh chan struct{}
	nextTid int
	mutexes map[*value]*mutexState
	onces   map[*value]*onceState
	wgs     map[*value]*wgState
	funcs   map[string]bool // repo functions executed

	summarize      map[string]bool
	sumCache       map[string]value
	sumUsed        map[string]bool
	mapOrderNondet bool
	mapOrderFuncs  []string
	schedNondet    bool
	raceOn         bool // verifrt.LocksetRace: lockset check on map accesses of spawned goroutines
	raceSeen       bool
	mapAcc         map[any]*mapState
	preemptBudget  int
	wedgeLabel     string
	panicSite      string
	panicWhere     string
	lastPanic      value
	chanSeq        int
	doneCh         chan struct{}
	wit            *witness
	storeWrites    int
	crashAfter     int
}

func (m *machine) abort(kind abortKind, msg string) {
	panic(pathAbort{kind: kind, msg: msg})
}

// ---- solver session

func (m *machine) flushPC(sb *strings.Builder) {
	for ; m.pcSent < len(m.pc); m.pcSent++ {
		r := m.pc[m.pcSent].ref(sb, m.w.solver.epoch)
		fmt.Fprintf(sb, "(assert %s)\n", r)
	}
}

// query checks satisfiability of PC ∧ extra (extra may be nil).
func (m *machine) query(extra *term) satResult {
	var sb strings.Builder
	s := m.w.solver
	// declare any new UFs
	for _, n := range m.tt.ufOrd {
		if !m.w.ufDeclared[n] {
			d := m.tt.ufs[n]
			var as []string
			for _, w := range d.argw {
				as = append(as, sortName(w))
			}
			fmt.Fprintf(&sb, "(declare-fun %s (%s) %s)\n", smtSym("uf_"+n), strings.Join(as, " "), sortName(d.retw))
			m.w.ufDeclared[n] = true
		}
	}
	m.flushPC(&sb)
	if extra != nil {
		r := extra.ref(&sb, s.epoch)
		sb.WriteString("(push 1)\n")
		fmt.Fprintf(&sb, "(assert %s)\n", r)
	}
	txt := sb.String()
	if !s.hard && (strings.Contains(txt, "(bvudiv ") || strings.Contains(txt, "(bvurem ") || strings.Contains(txt, "(bvsdiv ") || strings.Contains(txt, "(bvsrem ") || strings.Contains(txt, "(_ BitVec 128) (bvmul ")) {
		s.hard = true
	}
	s.send(txt)
	res, detail := s.checkSat(len(m.tt.ufOrd) > 0)
	m.nQueries++
	if res == resUnknown {
		m.w.lastUnknown = detail
	}
	m.w.inQueryPush = extra != nil
	if extra == nil && res == resSat {
		m.pcUnchecked = false
	}
	return res
}

func (m *machine) popQuery() {
	if m.w.inQueryPush {
		m.w.solver.send("(pop 1)\n")
		m.w.inQueryPush = false
	}
}

// ---- model cache: a model of the current path condition, if known

// evalModel evaluates c under the cached model: 1 true, 0 false, -1 unknown.
func (m *machine) evalModel(c *term) int {
	if !m.modelValid {
		return -1
	}
	e := &evalCtx{vars: m.model, memo: map[*term]*big.Int{}}
	v := e.eval(c)
	if v == nil {
		return -1
	}
	if v.Sign() != 0 {
		return 1
	}
	return 0
}

// fetchModel reads the values of all declared variables from the solver's current sat context.
func (m *machine) fetchModel() {
	s := m.w.solver
	var names []string
	var vars []*term
	for _, v := range m.tt.vars {
		if v.emitted == s.epoch {
			names = append(names, smtSym(v.name))
			vars = append(vars, v)
		}
	}
	m.model = map[string]uint64{}
	m.modelValid = false
	if len(names) > 0 {
		vals, err := s.getValues(names)
		if err != nil {
			return
		}
		for i, v := range vars {
			m.model[v.name] = vals[names[i]]
		}
	}
	// variables not yet mentioned to the solver are unconstrained: 0
	for _, v := range m.tt.vars {
		if _, ok := m.model[v.name]; !ok {
			m.model[v.name] = 0
		}
	}
	m.modelValid = true
}

// noteAdded keeps the model cache consistent after c was appended to the path condition.
func (m *machine) noteAdded(c *term) {
	if m.modelValid && m.evalModel(c) != 1 {
		m.modelValid = false
	}
	// new variables default to 0 in evalModel through the map miss -> handled in eval as unknown;
	// make them explicit so later evaluations agree
}

func (m *machine) addPC(c *term) {
	if m.modelValid {
		for _, v := range m.tt.vars {
			if _, ok := m.model[v.name]; !ok {
				m.model[v.name] = 0
			}
		}
	}
	m.pc = append(m.pc, c)
	m.noteAdded(c)
}

// ---- decisions

// decide turns a symbolic Bool into control flow.
func (m *machine) decide(c *term, what string) bool {
	if c.isConst() {
		return c.cv == 1
	}
	if len(m.decs) >= m.maxDecs {
		m.abort(abortBound, fmt.Sprintf("more than %d decisions on one path", m.maxDecs))
	}
	pos := len(m.decs)
	if pos < len(m.prefix) {
		ch := m.prefix[pos]
		m.decs = append(m.decs, decisionRec{kind: 'b', arity: 2, chosen: ch, what: what})
		if ch == 1 {
			m.addPC(c)
			return true
		}
		m.addPC(m.tt.not(c))
		return false
	}
	// new decision
	unknown := func() {
		m.abort(abortInconclusive, "solver unknown at branch "+what+": "+m.w.lastUnknown)
	}
	if m.modelValid {
		for _, v := range m.tt.vars {
			if _, ok := m.model[v.name]; !ok {
				m.model[v.name] = 0
			}
		}
	}
	nc := m.tt.not(c)
	switch m.evalModel(c) {
	case 1:
		// the cached model witnesses PC ∧ c
		r := m.query(nc)
		m.popQuery()
		switch r {
		case resUnknown:
			unknown()
		case resUnsat:
			m.decs = append(m.decs, decisionRec{kind: 'b', arity: 2, chosen: 1, forced: true, what: what})
			m.pc = append(m.pc, c)
			return true
		}
		m.alts = append(m.alts, append(m.curPrefix(), 0))
		m.decs = append(m.decs, decisionRec{kind: 'b', arity: 2, chosen: 1, what: what})
		m.pc = append(m.pc, c)
		return true
	case 0:
		// the cached model witnesses PC ∧ ¬c
		r := m.query(c)
		switch r {
		case resUnknown:
			m.popQuery()
			unknown()
		case resUnsat:
			m.popQuery()
			m.decs = append(m.decs, decisionRec{kind: 'b', arity: 2, chosen: 0, forced: true, what: what})
			m.pc = append(m.pc, nc)
			return false
		}
		m.fetchModel() // model of PC ∧ c
		m.popQuery()
		m.alts = append(m.alts, append(m.curPrefix(), 0))
		m.decs = append(m.decs, decisionRec{kind: 'b', arity: 2, chosen: 1, what: what})
		m.pc = append(m.pc, c)
		return true
	}
	// no usable model
	r1 := m.query(c)
	if r1 == resUnknown {
		m.popQuery()
		unknown()
	}
	if r1 == resUnsat {
		m.popQuery()
		if m.pcUnchecked {
			// the path condition itself may be infeasible (lazy assumptions)
			r2 := m.query(nc)
			if r2 == resSat {
				m.fetchModel()
			}
			m.popQuery()
			if r2 == resUnknown {
				unknown()
			}
			if r2 == resUnsat {
				m.abort(abortInfeasible, "assumptions infeasible")
			}
			m.pcUnchecked = false
		}
		m.decs = append(m.decs, decisionRec{kind: 'b', arity: 2, chosen: 0, forced: true, what: what})
		m.pc = append(m.pc, nc)
		if m.modelValid && m.evalModel(nc) != 1 {
			m.modelValid = false
		}
		return false
	}
	m.pcUnchecked = false
	m.fetchModel() // model of PC ∧ c
	m.popQuery()
	r2 := m.query(nc)
	m.popQuery()
	if r2 == resUnknown {
		unknown()
	}
	if r2 == resUnsat {
		m.decs = append(m.decs, decisionRec{kind: 'b', arity: 2, chosen: 1, forced: true, what: what})
		m.pc = append(m.pc, c)
		return true
	}
	// both feasible: fork. Continue with true, push false.
	m.alts = append(m.alts, append(m.curPrefix(), 0))
	m.decs = append(m.decs, decisionRec{kind: 'b', arity: 2, chosen: 1, what: what})
	m.pc = append(m.pc, c)
	return true
}

func (m *machine) curPrefix() []int {
	p := make([]int, len(m.decs), len(m.decs)+1)
	for i, d := range m.decs {
		p[i] = d.chosen
	}
	return p
}

// choose is a free n-way choice (no constraint attached).
func (m *machine) choose(n int, what string) int {
	if n <= 1 {
		return 0
	}
	if len(m.decs) >= m.maxDecs {
		m.abort(abortBound, fmt.Sprintf("more than %d decisions on one path", m.maxDecs))
	}
	pos := len(m.decs)
	if pos < len(m.prefix) {
		ch := m.prefix[pos]
		if ch >= n {
			panic(internalError{fmt.Sprintf("re-execution diverged at choice %s: prefix %d arity %d", what, ch, n)})
		}
		m.decs = append(m.decs, decisionRec{kind: 'c', arity: n, chosen: ch, what: what})
		return ch
	}
	for k := n - 1; k >= 1; k-- {
		alt := m.curPrefix()
		alt = append(alt, k)
		m.alts = append(m.alts, alt)
	}
	m.decs = append(m.decs, decisionRec{kind: 'c', arity: n, chosen: 0, what: what})
	return 0
}

// assume adds c to the path condition. Feasibility is established lazily: by the
// cached model, at the next decision, or at the end of the path.
func (m *machine) assume(c *term) {
	if c.isConst() {
		if c.cv == 0 {
			m.abort(abortInfeasible, "assume false")
		}
		return
	}
	m.addPC(c)
	if !m.modelValid {
		m.pcUnchecked = true
	}
}

// ensureFeasible settles a pending feasibility check of the path condition.
func (m *machine) ensureFeasible() {
	if !m.pcUnchecked {
		return
	}
	r := m.query(nil)
	switch r {
	case resUnsat:
		m.abort(abortInfeasible, "assumptions infeasible")
	case resUnknown:
		m.abort(abortInconclusive, "solver unknown at feasibility check: "+m.w.lastUnknown)
	}
	m.fetchModel()
	m.pcUnchecked = false
}

// concretize enumerates the feasible values of a symbolic integer (as decisions).
func (m *machine) concretize(s sym, what string) value {
	w := s.t.w
	if w == 0 {
		return m.decide(s.t, what)
	}
	tried := 0
	for {
		if tried > 64 {
			m.abort(abortBound, "concretization of "+what+" exceeds 64 values")
		}
		// ask the solver for a feasible value (replays follow the prefix, so the
		// candidate must be deterministic: smallest not-yet-excluded by PC is not
		// available cheaply; instead use get-value when beyond the prefix and
		// record the value inside the decision)
		v, ok := m.pickValue(s.t, what)
		if !ok {
			m.abort(abortInfeasible, "no value for "+what)
		}
		eq := m.tt.cmp("=", s.t, m.tt.bv(w, v))
		if m.decide(eq, fmt.Sprintf("%s==%d", what, v)) {
			return concreteOfKind(s.kind, v)
		}
		tried++
	}
}

// pickValue returns a feasible value of t under PC. It is recorded as a
// free 'v' decision so that re-execution sees the same candidate.
func (m *machine) pickValue(t *term, what string) (uint64, bool) {
	pos := len(m.decs)
	if pos < len(m.prefix) {
		v := m.prefix[pos]
		m.decs = append(m.decs, decisionRec{kind: 'v', arity: 0, chosen: v, what: what})
		return uint64(int64(v)), true
	}
	r := m.query(nil)
	if r == resUnknown {
		m.abort(abortInconclusive, "solver unknown at concretize "+what)
	}
	if r == resUnsat {
		return 0, false
	}
	var sb strings.Builder
	ref := t.ref(&sb, m.w.solver.epoch)
	m.w.solver.send(sb.String())
	vals, err := m.w.solver.getValues([]string{ref})
	if err != nil {
		m.abort(abortInconclusive, "get-value failed: "+err.Error())
	}
	v := vals[ref]
	m.decs = append(m.decs, decisionRec{kind: 'v', arity: 0, chosen: int(int64(v)), what: what})
	return v, true
}

// ---- assertions

func (m *machine) assert(c value, label string) {
	m.nObl++
	switch c := c.(type) {
	case bool:
		if c {
			return
		}
		m.recordViolation(label, "assert", nil)
		m.abort(abortViolation, label)
	case sym:
		m.nOblSym++
		neg := m.tt.not(c.t)
		r := m.query(neg)
		switch r {
		case resUnsat:
			m.popQuery()
			m.w.addSample(m, label, c.t)
			return
		case resUnknown:
			m.popQuery()
			m.abort(abortInconclusive, "solver unknown at assertion "+label+": "+m.w.lastUnknown)
		case resSat:
			m.recordViolationInCtx(label, "assert")
			m.popQuery()
			// continue under the assumption that the assertion holds
			m.addPC(c.t)
			m.pcUnchecked = true
			if m.query(nil) != resSat {
				m.abort(abortViolation, label)
			}
		}
	default:
		panic(internalError{fmt.Sprintf("Assert on %T", c)})
	}
}

// recordViolation: the current PC itself is the witness.
func (m *machine) recordViolation(label, kind string, extra map[string]string) {
	if m.w.alreadyViolated(m.harness, label) {
		return
	}
	r := m.query(nil)
	if r != resSat {
		if r == resUnknown {
			m.abort(abortInconclusive, "solver unknown while extracting witness for "+label)
		}
		return // infeasible path: not a violation
	}
	m.recordViolationInCtxKind(label, kind, extra)
}

func (m *machine) recordViolationInCtx(label, kind string) {
	if m.w.alreadyViolated(m.harness, label) {
		return
	}
	m.recordViolationInCtxKind(label, kind, nil)
}

// recordViolationInCtxKind extracts the model from the solver's current sat context.
func (m *machine) recordViolationInCtxKind(label, kind string, extra map[string]string) {
	rp, err := m.extractModel()
	if err != nil {
		m.abort(abortInconclusive, "model extraction failed: "+err.Error())
	}
	rp.Expect = label
	v := violation{Label: label, Kind: kind, Replay: rp, Prefix: m.curPrefix(), Schedule: m.schedDep, Extra: extra}
	m.viols = append(m.viols, v)
}

func (m *machine) extractModel() (*replayInput, error) {
	s := m.w.solver
	rp := &replayInput{Harness: m.harness, Vars: map[string]uint64{}, UFs: map[string][]ufPoint{}}
	var sb strings.Builder
	var names []string
	for _, v := range m.tt.vars {
		if v.emitted == s.epoch {
			names = append(names, smtSym(v.name))
		}
	}
	type appRef struct {
		t    *term
		refs []string
	}
	var apps []appRef
	for _, a := range m.tt.apps {
		if a.emitted != s.epoch {
			continue // not part of any sent formula
		}
		ar := appRef{t: a}
		for _, x := range a.args {
			ar.refs = append(ar.refs, x.ref(&sb, s.epoch))
		}
		ar.refs = append(ar.refs, a.ref(&sb, s.epoch))
		apps = append(apps, ar)
	}
	s.send(sb.String())
	all := append([]string(nil), names...)
	for _, a := range apps {
		all = append(all, a.refs...)
	}
	// constants cannot be passed to get-value by name reliably? they can (literals are terms).
	vals, err := s.getValues(all)
	if err != nil {
		return nil, err
	}
	for _, v := range m.tt.vars {
		if v.emitted == s.epoch {
			rp.Vars[v.name] = vals[smtSym(v.name)]
		}
	}
	for _, a := range apps {
		var args []uint64
		for _, r := range a.refs[:len(a.refs)-1] {
			args = append(args, vals[r])
		}
		rp.UFs[a.t.name] = append(rp.UFs[a.t.name], ufPoint{Args: args, Ret: vals[a.refs[len(a.refs)-1]]})
	}
	rp.Choices = append(rp.Choices, m.choices...)
	return rp, nil
}

// freshVar returns a new symbolic variable; repeated names get a #k suffix.
func (m *machine) freshVar(name string, k types.BasicKind) value {
	n := m.varSeq[name]
	m.varSeq[name] = n + 1
	full := name
	if n > 0 {
		full = fmt.Sprintf("%s#%d", name, n)
	}
	return sym{t: m.tt.newVar(full, kindWidth(k)), kind: k, m: m}
}

func (m *machine) noteFunc(name string) {
	if m.funcs != nil {
		m.funcs[name] = true
	}
}

func sortedKeys(mp map[string]bool) []string {
	var r []string
	for k := range mp {
		r = append(r, k)
	}
	sort.Strings(r)
	return r
}
