package main

// Intrinsics for C15 (block hash binding / sign-bytes domain separation).
//
// Both models are OPT-IN per path through verifrt.Summarize(<group>); without the
// opt-in the previous behaviour is kept bit for bit (other properties are unaffected).
//
//  1. group "Blake2bInjective": golang.org/x/crypto/blake2b.New is not executed. It
//     returns the harness package's recording hash.Hash (type hc15.RecHash, plain Go,
//     executed from its SSA): Write appends to a buffer, Sum(b) returns b followed by
//     the recorded bytes. The "digest" therefore IS the hashed byte stream, which makes
//     the stated assumption (BLAKE2b is collision free = injective on the explored
//     inputs) literal: digest equality <=> equality of the hashed byte streams.
//     Natively the real BLAKE2b runs; harnesses only compare digests for equality.
//
//  2. group "SymbolicFmt": fmt.Sprintf / Fprintf / Appendf render operands with symbolic
//     parts exactly instead of as "<sym>":
//       %x / %X of a []byte or string: two hex digits per byte (digit = ite on the nibble);
//       %s of a string / []byte: the bytes;
//       %d of a symbolic integer: the number of digits is decided (one fork per
//       feasible digit count, so harnesses bound the value), each digit is an
//       ite-chain over the thresholds j*10^i (no division).
//     Only the bare verbs (no flags / width / precision) are modelled for symbolic
//     operands: anything else ends the path as "unsupported". Calls whose operands are
//     all concrete are delegated to the previous implementation.

import (
	"fmt"
	"go/token"
	"go/types"
	"strings"

	"golang.org/x/tools/go/ssa"
)

const (
	sumBlake2b = "Blake2bInjective"
	sumSymFmt  = "SymbolicFmt"
)

func init() {
	oldSprintf := externals["fmt.Sprintf"]
	oldFprintf := externals["fmt.Fprintf"]
	oldAppendf := externals["fmt.Appendf"]

	externals["golang.org/x/crypto/blake2b.New"] = extBlake2bNewC15

	// tmconsensustest imports gcrypto/gcryptotest, whose package initialiser parses a
	// text/template (code generator for tests). text/template needs the tables of
	// package unicode, whose initialiser the engine deliberately does not run, so the
	// parse fails. Nothing reachable from the C15 harnesses touches gcryptotest's
	// package-level variables: its initialiser is skipped.
	externals["github.com/gordian-engine/gordian/gcrypto/gcryptotest.init"] = noop

	externals["fmt.Sprintf"] = func(fr *frame, args []value) value {
		if !c15FmtActive(fr, args[0], args[1]) {
			return oldSprintf(fr, args)
		}
		out := c15Format(fr, strArg(args[0]), args[1].([]value))
		return normStr(symstr(out))
	}
	externals["fmt.Appendf"] = func(fr *frame, args []value) value {
		if !c15FmtActive(fr, args[1], args[2]) {
			return oldAppendf(fr, args)
		}
		out := c15Format(fr, strArg(args[1]), args[2].([]value))
		b, _ := args[0].([]value)
		return append(b, out...)
	}
	// strconv decimal formatting of a symbolic integer: the same exact rendering as %d (the
	// real strconv loops over digit pairs and explodes on a symbolic operand). Concrete
	// operands, other bases and paths that did not opt in run the real body.
	symDec := func(fr *frame, iv value, base value) ([]value, bool) {
		v, isSym := iv.(sym)
		b, _ := base.(int)
		if !isSym || b != 10 || !fr.m.summarize[sumSymFmt] {
			return nil, false
		}
		fr.m.sumUsed["strconv.AppendUint/FormatUint/AppendInt/FormatInt/Itoa with a symbolic operand -> exact decimal rendering (as %d)"] = true
		return c15Decimal(fr, nil, v), true
	}
	externals["strconv.AppendUint"] = func(fr *frame, args []value) value {
		if out, ok := symDec(fr, args[1], args[2]); ok {
			b, _ := args[0].([]value)
			return append(b, out...)
		}
		return c15RunBody(fr, args)
	}
	externals["strconv.AppendInt"] = externals["strconv.AppendUint"]
	externals["strconv.FormatUint"] = func(fr *frame, args []value) value {
		if out, ok := symDec(fr, args[0], args[1]); ok {
			return normStr(symstr(out))
		}
		return c15RunBody(fr, args)
	}
	externals["strconv.FormatInt"] = externals["strconv.FormatUint"]
	externals["strconv.Itoa"] = func(fr *frame, args []value) value {
		if out, ok := symDec(fr, args[0], 10); ok {
			return normStr(symstr(out))
		}
		return c15RunBody(fr, args)
	}
	externals["fmt.Fprintf"] = func(fr *frame, args []value) value {
		if !c15FmtActive(fr, args[1], args[2]) {
			return oldFprintf(fr, args)
		}
		out := c15Format(fr, strArg(args[1]), args[2].([]value))
		w := args[0].(iface)
		if w.t == nil {
			panic(targetPanic{runtimeErr("invalid memory address or nil pointer dereference")})
		}
		wf := fr.i.prog.LookupMethod(w.t, nil, "Write")
		if wf == nil {
			panic(internalError{"fmt.Fprintf: writer without Write"})
		}
		return call(fr.i, fr, token.NoPos, wf, []value{w.v, out})
	}
}

// c15RunBody executes the SSA body of the function an external was registered for
// (fr is the fresh frame callSSA built for it).
func c15RunBody(fr *frame, args []value) value {
	fn := fr.fn
	if fn.Blocks == nil {
		panic(internalError{"no code for function: " + fn.String()})
	}
	fr.env = make(map[ssa.Value]value)
	fr.block = fn.Blocks[0]
	fr.locals = make([]value, len(fn.Locals))
	for i, l := range fn.Locals {
		fr.locals[i] = zero(mustDeref(l.Type()))
		fr.env[l] = &fr.locals[i]
	}
	for i, p := range fn.Params {
		fr.env[p] = args[i]
	}
	for fr.block != nil {
		runFrame(fr)
	}
	return fr.result
}

// extBlake2bNewC15: blake2b.New(size int, key []byte) (hash.Hash, error).
func extBlake2bNewC15(fr *frame, args []value) value {
	if !fr.m.summarize[sumBlake2b] {
		return c15RunBody(fr, args)
	}
	if key, _ := args[1].([]value); len(key) != 0 {
		panic(pathAbort{kind: abortUnsupported, msg: "blake2b.New with a MAC key is outside the injective-hash model"})
	}
	pkg := fr.i.prog.ImportedPackage(fr.i.modulePath + "/internal/verifrt/hc15")
	if pkg == nil || pkg.Type("RecHash") == nil {
		panic(internalError{"Blake2bInjective: recording hash type hc15.RecHash is not loaded"})
	}
	T := pkg.Type("RecHash").Object().Type()
	p := new(value)
	*p = zero(T)
	fr.m.sumUsed["golang.org/x/crypto/blake2b.New -> recording hash (digest = hashed byte stream; BLAKE2b assumed injective)"] = true
	return tuple{iface{t: types.NewPointer(T), v: p}, iface{}}
}

// c15FmtActive: the precise model is used only on opted-in paths and only when some
// operand has symbolic parts.
func c15FmtActive(fr *frame, format value, operands value) bool {
	if !fr.m.summarize[sumSymFmt] {
		return false
	}
	if _, ok := format.(string); !ok {
		return false
	}
	ops, _ := operands.([]value)
	for _, a := range ops {
		if c15HasSymDeep(a) {
			return true
		}
	}
	return false
}

func c15HasSymDeep(v value) bool {
	switch v := v.(type) {
	case sym, symstr:
		return true
	case iface:
		return c15HasSymDeep(v.v)
	case []value:
		for _, e := range v {
			if _, ok := e.(sym); ok {
				return true
			}
		}
	}
	return false
}

func c15IsByteSlice(t types.Type) bool {
	if t == nil {
		return false
	}
	if sl, ok := t.Underlying().(*types.Slice); ok {
		if b, ok := sl.Elem().Underlying().(*types.Basic); ok && b.Kind() == types.Uint8 {
			return true
		}
	}
	return false
}

func c15AppendStr(out []value, s string) []value {
	for i := 0; i < len(s); i++ {
		out = append(out, s[i])
	}
	return out
}

// c15Format renders format with operands; the result is a byte sequence whose
// elements are uint8 or sym(Uint8).
func c15Format(fr *frame, format string, args []value) []value {
	fr.m.sumUsed["fmt.Sprintf/Fprintf/Appendf with symbolic operands -> exact %x/%X/%s/%d rendering (hex digit = ite on the nibble; %d forks on the digit count, digits by threshold ite-chains)"] = true
	var out []value
	ai := 0
	for i := 0; i < len(format); i++ {
		c := format[i]
		if c != '%' {
			out = append(out, c)
			continue
		}
		j := i + 1
		for j < len(format) && strings.IndexByte("+-# 0123456789.", format[j]) >= 0 {
			j++
		}
		if j >= len(format) {
			out = c15AppendStr(out, "%!(NOVERB)")
			break
		}
		verb := format[j]
		if verb == '%' {
			out = append(out, uint8('%'))
			i = j
			continue
		}
		spec := format[i : j+1]
		i = j
		if ai >= len(args) {
			out = c15AppendStr(out, "%!"+string(verb)+"(MISSING)")
			continue
		}
		arg := args[ai]
		ai++
		if !c15HasSymDeep(arg) {
			out = c15AppendStr(out, fmtArg(fr, spec, verb, arg))
			continue
		}
		if len(spec) != 2 {
			panic(pathAbort{kind: abortUnsupported, msg: "SymbolicFmt: flags/width on a symbolic operand: " + spec})
		}
		out = c15FmtSymArg(fr, out, verb, arg)
	}
	if ai < len(args) {
		panic(pathAbort{kind: abortUnsupported, msg: "SymbolicFmt: extra operands"})
	}
	return out
}

func c15FmtSymArg(fr *frame, out []value, verb byte, arg value) []value {
	it, isIface := arg.(iface)
	if !isIface {
		it = iface{v: arg}
	}
	unsupported := func() []value {
		panic(pathAbort{kind: abortUnsupported, msg: fmt.Sprintf("SymbolicFmt: %%%c of symbolic %T (%v)", verb, it.v, it.t)})
	}
	switch v := it.v.(type) {
	case sym:
		if v.t.w == 0 || verb != 'd' {
			return unsupported()
		}
		return c15Decimal(fr, out, v)
	case symstr, string, []value:
		var bs []value
		switch v := v.(type) {
		case symstr:
			bs = []value(v)
		case string:
			bs = []value(strToSym(v))
		case []value:
			if !c15IsByteSlice(it.t) {
				return unsupported()
			}
			bs = v
		}
		// named string / []byte types with String/Error methods are not modelled
		if it.t != nil && (verb == 's' || verb == 'v') {
			if hasMethod(fr, it.t, "Error") != nil || hasMethod(fr, it.t, "String") != nil {
				return unsupported()
			}
		}
		switch verb {
		case 's':
			return append(out, bs...)
		case 'x', 'X':
			for _, b := range bs {
				out = c15HexByte(fr, out, b, verb == 'X')
			}
			return out
		}
	}
	return unsupported()
}

// c15HexByte appends the two hex digits of b.
func c15HexByte(fr *frame, out []value, b value, upper bool) []value {
	const lo, up = "0123456789abcdef", "0123456789ABCDEF"
	digits := lo
	if upper {
		digits = up
	}
	switch b := b.(type) {
	case uint8:
		return append(out, digits[b>>4], digits[b&15])
	case sym:
		m := b.m
		tt := m.tt
		alpha := uint64('a' - 10)
		if upper {
			alpha = 'A' - 10
		}
		nib := func(n *term) value {
			n8 := tt.zext(n, 8)
			ch := tt.ite(tt.cmp("bvult", n8, tt.bv(8, 10)),
				tt.bin("bvadd", n8, tt.bv(8, '0')),
				tt.bin("bvadd", n8, tt.bv(8, alpha)))
			return m.mkSym(ch, types.Uint8)
		}
		return append(out, nib(tt.extract(b.t, 7, 4)), nib(tt.extract(b.t, 3, 0)))
	}
	panic(internalError{fmt.Sprintf("SymbolicFmt: byte of kind %T", b)})
}

// c15Decimal appends the decimal rendering of the symbolic integer v.
func c15Decimal(fr *frame, out []value, v sym) []value {
	m := v.m
	tt := m.tt
	t := v.t
	if kindSigned(v.kind) {
		if fr.decide(tt.cmp("bvslt", t, tt.bv(t.w, 0))) {
			out = append(out, uint8('-'))
			t = tt.bvneg(t) // min int maps to itself = 2^(w-1) read unsigned
		}
	}
	if t.w < 64 {
		t = tt.zext(t, 64)
	}
	// number of digits
	pow := [20]uint64{1}
	for i := 1; i < 20; i++ {
		pow[i] = pow[i-1] * 10
	}
	n := 20
	for k := 1; k < 20; k++ {
		if fr.decide(tt.cmp("bvult", t, tt.bv(64, pow[k]))) {
			n = k
			break
		}
	}
	r := t
	for i := n - 1; i >= 0; i-- {
		p := pow[i]
		d := tt.bv(8, '0')
		sub := tt.bv(64, 0)
		for j := uint64(1); j <= 9; j++ {
			if p > (^uint64(0))/j {
				break // j*p does not fit: r cannot reach it
			}
			ge := tt.cmp("bvuge", r, tt.bv(64, j*p))
			d = tt.ite(ge, tt.bv(8, '0'+j), d)
			sub = tt.ite(ge, tt.bv(64, j*p), sub)
		}
		out = append(out, m.mkSym(d, types.Uint8))
		r = tt.bin("bvsub", r, sub)
	}
	return out
}
