package main

// Symbolic versions of the scalar operators (Go wrapping semantics on bit-vectors).

import (
	"fmt"
	"go/token"
	"go/types"
)

var theRuntimeErrorString types.Type

// runtimeErr builds the value of a runtime error visible to the target.
func runtimeErr(msg string) value {
	if theRuntimeErrorString != nil {
		return iface{theRuntimeErrorString, "runtime error: " + msg}
	}
	return iface{types.Typ[types.String], "runtime error: " + msg}
}

func basicKindOf(t types.Type, fallback value) types.BasicKind {
	if t != nil {
		if b, ok := t.Underlying().(*types.Basic); ok {
			k := b.Kind()
			switch k {
			case types.UntypedInt:
				return types.Int
			case types.UntypedRune:
				return types.Int32
			case types.UntypedBool:
				return types.Bool
			}
			return k
		}
	}
	return valueKind(fallback)
}

func symBinop(m *machine, op token.Token, t types.Type, x, y value) value {
	tt := m.tt
	switch op {
	case token.SHL, token.SHR:
		kx := valueKind(x)
		ky := valueKind(y)
		wx, wy := kindWidth(kx), kindWidth(ky)
		tx, ty := m.toTerm(x), m.toTerm(y)
		if kindSigned(ky) {
			// negative shift count panics
			neg := tt.cmp("bvslt", ty, tt.bv(wy, 0))
			if m.decide(neg, "negative shift") {
				panic(targetPanic{runtimeErr("negative shift amount")})
			}
		}
		w := wx
		if wy > w {
			w = wy
		}
		var ex *term
		if kindSigned(kx) {
			ex = tt.sext(tx, w)
		} else {
			ex = tt.zext(tx, w)
		}
		ey := tt.zext(ty, w)
		var r *term
		if op == token.SHL {
			r = tt.bin("bvshl", ex, ey)
		} else if kindSigned(kx) {
			r = tt.bin("bvashr", ex, ey)
		} else {
			r = tt.bin("bvlshr", ex, ey)
		}
		return m.mkSym(tt.extract(r, wx-1, 0), kx)
	}

	// Bool operands (== / != on bools)
	kx := basicKindOf(t, x)
	if _, isB := x.(bool); isB {
		kx = types.Bool
	}
	if sx, ok := x.(sym); ok && sx.t.w == 0 {
		kx = types.Bool
	}
	if sy, ok := y.(sym); ok && sy.t.w == 0 {
		kx = types.Bool
	}
	if kx == types.Bool {
		tx, ty := m.toTerm(x), m.toTerm(y)
		switch op {
		case token.EQL:
			return m.mkSym(tt.cmp("=", tx, ty), types.Bool)
		case token.NEQ:
			return m.mkSym(tt.not(tt.cmp("=", tx, ty)), types.Bool)
		case token.AND:
			return m.mkSym(tt.and(tx, ty), types.Bool)
		case token.OR:
			return m.mkSym(tt.or(tx, ty), types.Bool)
		}
		panic(internalError{fmt.Sprintf("invalid binary op %s on symbolic bools", op)})
	}
	// use the operand kinds (t may be nil for min/max)
	if s, ok := x.(sym); ok {
		kx = s.kind
	} else if s, ok := y.(sym); ok {
		kx = s.kind
	}
	signed := kindSigned(kx)
	tx, ty := m.toTerm(x), m.toTerm(y)
	if tx.w != ty.w {
		panic(internalError{fmt.Sprintf("symBinop %s: operand widths differ (%d, %d)", op, tx.w, ty.w)})
	}
	w := tx.w
	pick := func(u, s string) string {
		if signed {
			return s
		}
		return u
	}
	switch op {
	case token.ADD:
		return m.mkSym(tt.bin("bvadd", tx, ty), kx)
	case token.SUB:
		return m.mkSym(tt.bin("bvsub", tx, ty), kx)
	case token.MUL:
		return m.mkSym(tt.bin("bvmul", tx, ty), kx)
	case token.QUO, token.REM:
		if m.decide(tt.cmp("=", ty, tt.bv(w, 0)), "divide by zero") {
			panic(targetPanic{runtimeErr("integer divide by zero")})
		}
		if op == token.QUO {
			return m.mkSym(tt.bin(pick("bvudiv", "bvsdiv"), tx, ty), kx)
		}
		return m.mkSym(tt.bin(pick("bvurem", "bvsrem"), tx, ty), kx)
	case token.AND:
		return m.mkSym(tt.bin("bvand", tx, ty), kx)
	case token.OR:
		return m.mkSym(tt.bin("bvor", tx, ty), kx)
	case token.XOR:
		return m.mkSym(tt.bin("bvxor", tx, ty), kx)
	case token.AND_NOT:
		return m.mkSym(tt.bin("bvand", tx, tt.bvnot(ty)), kx)
	case token.EQL:
		return m.mkSym(tt.cmp("=", tx, ty), types.Bool)
	case token.NEQ:
		return m.mkSym(tt.not(tt.cmp("=", tx, ty)), types.Bool)
	case token.LSS:
		return m.mkSym(tt.cmp(pick("bvult", "bvslt"), tx, ty), types.Bool)
	case token.LEQ:
		return m.mkSym(tt.cmp(pick("bvule", "bvsle"), tx, ty), types.Bool)
	case token.GTR:
		return m.mkSym(tt.cmp(pick("bvugt", "bvsgt"), tx, ty), types.Bool)
	case token.GEQ:
		return m.mkSym(tt.cmp(pick("bvuge", "bvsge"), tx, ty), types.Bool)
	}
	panic(internalError{fmt.Sprintf("invalid binary op on symbolic operands: %T %s %T", x, op, y)})
}

func toSymstr(x value) symstr {
	switch x := x.(type) {
	case string:
		return strToSym(x)
	case symstr:
		return x
	}
	panic(internalError{fmt.Sprintf("toSymstr: %T", x)})
}

// strBinop: string operators where at least one side has symbolic bytes.
func strBinop(op token.Token, x, y value) value {
	a, b := toSymstr(x), toSymstr(y)
	switch op {
	case token.ADD:
		r := make(symstr, 0, len(a)+len(b))
		r = append(r, a...)
		r = append(r, b...)
		return normStr(r)
	case token.EQL:
		return symstrEq(a, b)
	case token.NEQ:
		return notV(symstrEq(a, b))
	case token.LSS:
		return symstrLess(a, b, false)
	case token.LEQ:
		return symstrLess(a, b, true)
	case token.GTR:
		return symstrLess(b, a, false)
	case token.GEQ:
		return symstrLess(b, a, true)
	}
	panic(internalError{fmt.Sprintf("invalid string op %s on symbolic strings", op)})
}

// symstrLess: lexicographic a < b (or <= when orEq) as an ite-free and/or chain.
func symstrLess(a, b symstr, orEq bool) value {
	// result = exists i: prefix equal up to i and a[i] < b[i]; or a is a proper prefix of b (or equal when orEq)
	n := len(a)
	if len(b) < n {
		n = len(b)
	}
	var res value = false
	var prefEq value = true
	for i := 0; i < n; i++ {
		lt := binop(token.LSS, types.Typ[types.Uint8], a[i], b[i])
		res = orV(res, andV(prefEq, lt))
		prefEq = andV(prefEq, equalsV(nil, a[i], b[i]))
	}
	// all n compared bytes equal
	var tail bool
	if len(a) < len(b) {
		tail = true
	} else if len(a) == len(b) {
		tail = orEq
	}
	if tail {
		res = orV(res, prefEq)
	}
	return res
}

func symConv(sx sym, ut_dst, ut_src types.Type) value {
	m := sx.m
	db, ok := ut_dst.(*types.Basic)
	if !ok {
		panic(internalError{fmt.Sprintf("unsupported conversion of symbolic %v to %s", sx.kind, ut_dst)})
	}
	if db.Info()&types.IsInteger == 0 {
		if db.Kind() == types.Bool {
			return sx
		}
		panic(internalError{fmt.Sprintf("unsupported conversion of symbolic integer to %s", ut_dst)})
	}
	dk := db.Kind()
	dw := kindWidth(dk)
	sw := sx.t.w
	if sw == 0 {
		panic(internalError{"conversion of symbolic bool to integer"})
	}
	var r *term
	switch {
	case dw == sw:
		r = sx.t
	case dw < sw:
		r = m.tt.extract(sx.t, dw-1, 0)
	case kindSigned(sx.kind):
		r = m.tt.sext(sx.t, dw)
	default:
		r = m.tt.zext(sx.t, dw)
	}
	return m.mkSym(r, dk)
}

// ---- frame helpers

func (fr *frame) decide(c *term) bool {
	return fr.m.decide(c, fr.where())
}

// decideV decides a bool-or-sym value.
func (fr *frame) decideV(c value) bool {
	switch c := c.(type) {
	case bool:
		return c
	case sym:
		return fr.m.decide(c.t, fr.where())
	}
	panic(internalError{fmt.Sprintf("decideV on %T", c)})
}

func (fr *frame) where() string {
	if fr == nil || fr.fn == nil {
		return "?"
	}
	if fr.curInstr != nil {
		p := fr.fn.Prog.Fset.Position(fr.curInstr.Pos())
		if p.IsValid() {
			return fmt.Sprintf("%s:%d", shortFile(p.Filename), p.Line)
		}
	}
	return fr.fn.String()
}

func shortFile(f string) string {
	for i := len(f) - 1; i >= 0; i-- {
		if f[i] == '/' {
			// keep two path elements
			for j := i - 1; j >= 0; j-- {
				if f[j] == '/' {
					return f[j+1:]
				}
			}
			return f
		}
	}
	return f
}

// concrete returns x if concrete, otherwise enumerates feasible values.
func (fr *frame) concrete(x value, what string) value {
	if s, ok := x.(sym); ok {
		return fr.m.concretize(s, what+"@"+fr.where())
	}
	return x
}

// concreteIndex checks 0 <= idx < n (panicking like Go) and returns a concrete index.
func (fr *frame) concreteIndex(idx value, n int64, what string) value {
	if s, ok := idx.(sym); ok {
		m := s.m
		w := s.t.w
		var inRange *term
		if kindSigned(s.kind) {
			inRange = m.tt.and(m.tt.cmp("bvsge", s.t, m.tt.bv(w, 0)), m.tt.cmp("bvslt", s.t, m.tt.bv(w, uint64(n))))
		} else {
			inRange = m.tt.cmp("bvult", s.t, m.tt.bv(w, uint64(n)))
		}
		if !fr.decide(inRange) {
			panic(targetPanic{runtimeErr(fmt.Sprintf("index out of range [symbolic] with length %d", n))})
		}
		return fr.m.concretize(s, what+"@"+fr.where())
	}
	i := asInt64(idx)
	if i < 0 || i >= n {
		panic(targetPanic{runtimeErr(fmt.Sprintf("index out of range [%d] with length %d", i, n))})
	}
	return idx
}
