package main

// Intrinsics for the state-machine harness family (C02, C08, C12 first half).
//
// time.NewTimer: handleProposalViewUpdate guards three sends to the consensus manager
// with a 100 ms timer and panics if the timer wins. With the may-fire timer model both
// select arms are ready and the engine would explore "the timer fired first", which a
// native replay cannot reproduce (and which is C09's subject, not this family's). When a
// harness opts in with verifrt.Summarize("SMQuietSendGuardTimers") timers created by
// time.NewTimer never fire. (init order: intrinsics2.go < intrinsics_sm.go.)

func init() {
	externals["time.NewTimer"] = func(fr *frame, args []value) value {
		v := extNewTimer(fr, args)
		if fr.m.summarize["SMQuietSendGuardTimers"] {
			st := (*v.(*value)).(structure)
			if ch, _ := st[0].(*channel); ch != nil {
				ch.stopped = true
			}
			fr.m.sumUsed["time.NewTimer (100 ms send guards in handleProposalViewUpdate) -> never fires"] = true
		}
		return v
	}
}
