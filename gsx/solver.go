package main

// One long-lived SMT solver process per worker, driven over a pipe.

import (
	"bufio"
	"fmt"
	"io"
	"os/exec"
	"strconv"
	"strings"
	"time"
)

type solver struct {
	kind    string // "z3", "z3-new", "cvc5"
	cmd     *exec.Cmd
	in      io.WriteCloser
	out     *bufio.Reader
	epoch   int
	pending strings.Builder
	queries int
	elapsed time.Duration
	timeout int // ms
	fallbacks int
	alt       *solver // secondary solver of the portfolio (same session text)
	answered  *solver // which solver produced the last verdict (for get-value)
	altUsed   int
	hard      bool // this session contains terms the incremental core does not decide quickly
	fastMs    int
	logw    io.Writer
}

var solverEpoch int64

func newSolver(kind string, timeoutMs int) (*solver, error) {
	var cmd *exec.Cmd
	switch kind {
	case "z3":
		cmd = exec.Command("/usr/bin/z3", "-in", "-smt2", fmt.Sprintf("-t:%d", timeoutMs))
	case "z3-new":
		cmd = exec.Command("z3-new", "-in", "-smt2", fmt.Sprintf("-t:%d", timeoutMs))
	case "cvc5":
		// integer encoding of bit-vectors (mod 2^k semantics kept): decides the linear
		// threshold arithmetic over 64-bit powers that bit-blasting does not finish
		cmd = exec.Command("cvc5", "--incremental", "--lang=smt2", fmt.Sprintf("--tlimit-per=%d", timeoutMs), "--produce-models", "--solve-bv-as-int=sum")
	case "cvc5-bv":
		cmd = exec.Command("cvc5", "--incremental", "--lang=smt2", fmt.Sprintf("--tlimit-per=%d", timeoutMs), "--produce-models")
	default:
		return nil, fmt.Errorf("unknown solver %q", kind)
	}
	in, err := cmd.StdinPipe()
	if err != nil {
		return nil, err
	}
	outp, err := cmd.StdoutPipe()
	if err != nil {
		return nil, err
	}
	cmd.Stderr = cmd.Stdout
	if err := cmd.Start(); err != nil {
		return nil, err
	}
	s := &solver{kind: kind, cmd: cmd, in: in, out: bufio.NewReaderSize(outp, 1<<16), timeout: timeoutMs, fastMs: 250}
	return s, nil
}

func (s *solver) close() {
	if s == nil || s.cmd == nil {
		return
	}
	if s.alt != nil {
		s.alt.close()
	}
	s.in.Close()
	s.cmd.Process.Kill()
	s.cmd.Wait()
}

// reset starts a fresh session; returns the new epoch id used to track
// which term definitions were sent.
func (s *solver) reset(epoch int) {
	s.pending.Reset()
	s.epoch = epoch
	s.hard = false
	if strings.HasPrefix(s.kind, "cvc5") {
		s.pending.WriteString("(reset)\n(set-option :produce-models true)\n(set-logic ALL)\n")
	} else {
		s.pending.WriteString("(reset)\n(set-option :produce-models true)\n")
	}
	s.answered = s
	if s.alt != nil {
		s.alt.reset(epoch)
	}
}

func (s *solver) send(text string) {
	s.pending.WriteString(text)
	if s.alt != nil {
		s.alt.pending.WriteString(text)
	}
}

// roundtrip flushes pending text plus cmd and reads response lines up to a marker.
func (s *solver) roundtrip(cmd string) ([]string, error) {
	s.pending.WriteString(cmd)
	s.pending.WriteString("\n(echo \"##done\")\n")
	txt := s.pending.String()
	s.pending.Reset()
	if s.logw != nil {
		io.WriteString(s.logw, txt)
	}
	if _, err := io.WriteString(s.in, txt); err != nil {
		return nil, err
	}
	var lines []string
	for {
		line, err := s.out.ReadString('\n')
		if err != nil {
			return lines, fmt.Errorf("solver died: %v (%s)", err, strings.Join(lines, " / "))
		}
		line = strings.TrimSpace(line)
		if line == "##done" || line == "\"##done\"" {
			break
		}
		if line != "" {
			lines = append(lines, line)
		}
	}
	return lines, nil
}

type satResult int

const (
	resUnsat satResult = iota
	resSat
	resUnknown
)

func (r satResult) String() string {
	switch r {
	case resUnsat:
		return "unsat"
	case resSat:
		return "sat"
	}
	return "unknown"
}

// checkSat decides the current context. The incremental core is tried first
// under a short timeout (it answers the many small branch queries in
// milliseconds); z3's incremental core is weak on division/multiplication-heavy
// bit-vector goals, so on "unknown" the bit-blasting tactic (which works inside
// push/pop scopes) decides under the full timeout. Once a session needed the
// tactic it is used directly for the rest of the session.
func (s *solver) checkSat(hasUF bool) (satResult, string) {
	r, d := s.checkSat1(hasUF)
	s.answered = s
	if r == resUnknown && s.alt != nil {
		// portfolio: the secondary solver has received the same session text
		s.altUsed++
		r2, d2 := s.alt.checkSat1(hasUF)
		s.queries += 0
		s.elapsed += 0
		if r2 != resUnknown {
			s.answered = s.alt
			return r2, d2
		}
		return r2, d + " / alt: " + d2
	}
	return r, d
}

func (s *solver) checkSat1(hasUF bool) (satResult, string) {
	if strings.HasPrefix(s.kind, "cvc5") {
		return s.checkSatCmd("(check-sat)")
	}
	tactic := "(check-sat-using qfbv)"
	if hasUF {
		tactic = "(check-sat-using qfufbv)"
	}
	if !s.hard {
		r, d := s.checkSatCmd(fmt.Sprintf("(set-option :timeout %d)\n(check-sat)", s.fastMs))
		if r != resUnknown {
			return r, d
		}
		s.hard = true
		s.fallbacks++
	}
	r, d := s.checkSatCmd(fmt.Sprintf("(set-option :timeout %d)\n%s", s.timeout, tactic))
	if r == resUnknown {
		r2, d2 := s.checkSatCmd(fmt.Sprintf("(set-option :timeout %d)\n(check-sat)", s.timeout))
		if r2 != resUnknown {
			return r2, d2
		}
		return r2, d + " / " + d2
	}
	return r, d
}

func (s *solver) checkSatCmd(cmd string) (satResult, string) {
	t0 := time.Now()
	lines, err := s.roundtrip(cmd)
	s.elapsed += time.Since(t0)
	s.queries++
	if err != nil {
		return resUnknown, err.Error()
	}
	res := resUnknown
	detail := ""
	seen := false
	for _, l := range lines {
		if strings.HasPrefix(l, "(error") || strings.Contains(l, "(error ") {
			return resUnknown, l
		}
		switch l {
		case "sat":
			res, seen = resSat, true
		case "unsat":
			res, seen = resUnsat, true
		case "unknown", "timeout":
			res, seen = resUnknown, true
			detail = l
		}
	}
	if !seen {
		return resUnknown, strings.Join(lines, " / ")
	}
	return res, detail
}

// getValues evaluates the given expressions (by solver name) in the current model.
func (s *solver) getValues(names []string) (map[string]uint64, error) {
	if s.answered != nil && s.answered != s {
		return s.answered.getValues(names)
	}
	res := map[string]uint64{}
	const chunk = 200
	for i := 0; i < len(names); i += chunk {
		j := i + chunk
		if j > len(names) {
			j = len(names)
		}
		lines, err := s.roundtrip("(get-value (" + strings.Join(names[i:j], " ") + "))")
		if err != nil {
			return nil, err
		}
		txt := strings.Join(lines, " ")
		if strings.Contains(txt, "(error") {
			return nil, fmt.Errorf("get-value: %s", txt)
		}
		toks := tokenize(txt)
		// expect: ( ( name val ) ( name val ) ... )
		pos := 0
		if pos < len(toks) && toks[pos] == "(" {
			pos++
		}
		k := i
		for pos < len(toks) && toks[pos] == "(" {
			pos++
			// name may itself be an s-expression
			pos = skipSexp(toks, pos)
			v, np, err := parseVal(toks, pos)
			if err != nil {
				return nil, err
			}
			pos = np
			if pos < len(toks) && toks[pos] == ")" {
				pos++
			}
			if k < j {
				res[names[k]] = v
			}
			k++
		}
	}
	return res, nil
}

func skipSexp(toks []string, pos int) int {
	if pos >= len(toks) {
		return pos
	}
	if toks[pos] != "(" {
		return pos + 1
	}
	depth := 0
	for pos < len(toks) {
		if toks[pos] == "(" {
			depth++
		} else if toks[pos] == ")" {
			depth--
			if depth == 0 {
				return pos + 1
			}
		}
		pos++
	}
	return pos
}

func parseVal(toks []string, pos int) (uint64, int, error) {
	if pos >= len(toks) {
		return 0, pos, fmt.Errorf("get-value: truncated")
	}
	t := toks[pos]
	switch {
	case t == "true":
		return 1, pos + 1, nil
	case t == "false":
		return 0, pos + 1, nil
	case strings.HasPrefix(t, "#x"):
		h := t[2:]
		if len(h) > 16 {
			h = h[len(h)-16:]
		}
		v, err := strconv.ParseUint(h, 16, 64)
		return v, pos + 1, err
	case strings.HasPrefix(t, "#b"):
		b := t[2:]
		if len(b) > 64 {
			b = b[len(b)-64:]
		}
		v, err := strconv.ParseUint(b, 2, 64)
		return v, pos + 1, err
	case t == "(":
		// (_ bvN w)
		if pos+3 < len(toks) && toks[pos+1] == "_" && strings.HasPrefix(toks[pos+2], "bv") {
			v, err := strconv.ParseUint(toks[pos+2][2:], 10, 64)
			return v, skipSexp(toks, pos), err
		}
	}
	return 0, pos, fmt.Errorf("get-value: cannot parse value %q", t)
}

func tokenize(s string) []string {
	var toks []string
	i := 0
	for i < len(s) {
		c := s[i]
		switch {
		case c == ' ' || c == '\t' || c == '\n' || c == '\r':
			i++
		case c == '(' || c == ')':
			toks = append(toks, string(c))
			i++
		case c == '|':
			j := i + 1
			for j < len(s) && s[j] != '|' {
				j++
			}
			toks = append(toks, s[i:min(j+1, len(s))])
			i = j + 1
		default:
			j := i
			for j < len(s) && s[j] != ' ' && s[j] != '(' && s[j] != ')' && s[j] != '\n' {
				j++
			}
			toks = append(toks, s[i:j])
			i = j
		}
	}
	return toks
}
