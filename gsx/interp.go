// Copyright 2013 The Go Authors. All rights reserved.
// Use of this source code is governed by a BSD-style
// license that can be found in the LICENSE file.
//
// Derived from golang.org/x/tools/go/ssa/interp/interp.go. Changes: symbolic
// conditions fork through machine.decide; symbolic indices/lengths are
// concretised; channels, select, go and maps are interpreter-level so that
// every source of nondeterminism is an explicit decision; panics are classified
// into target panics, path aborts and interpreter errors.

package main

import (
	"fmt"
	"go/token"
	"go/types"
	"runtime"
	"slices"
	"strings"

	"golang.org/x/tools/go/ssa"
)

type continuation int

const (
	kNext continuation = iota
	kReturn
	kJump
)

type methodSet map[string]*ssa.Function

// State shared between all paths of one worker.
type interpreter struct {
	prog       *ssa.Program
	globals    map[*ssa.Global]*value // addresses of global variables
	sizes      types.Sizes
	initAllow  func(pkg *ssa.Package) bool
	modulePath string
	rtPath     string // import path of verifrt
	trace      bool
	thorough   bool
}

type deferred struct {
	fn    value
	args  []value
	instr *ssa.Defer
	tail  *deferred
}

type frame struct {
	i                *interpreter
	m                *machine
	th               *thread
	caller           *frame
	fn               *ssa.Function
	block, prevBlock *ssa.BasicBlock
	env              map[ssa.Value]value // dynamic values of SSA variables
	locals           []value
	defers           *deferred
	result           value
	panicking        bool
	panic            any
	phitemps         []value // temporaries for parallel phi assignment
	curInstr         ssa.Instruction
	depth            int
}

func (fr *frame) get(key ssa.Value) value {
	switch key := key.(type) {
	case nil:
		return nil
	case *ssa.Function, *ssa.Builtin:
		return key
	case *ssa.Const:
		return constValue(key)
	case *ssa.Global:
		if r, ok := fr.i.globals[key]; ok {
			return r
		}
		// globals are materialised on first use
		cell := zero(mustDeref(key.Type()))
		p := &cell
		fr.i.globals[key] = p
		return p
	}
	if r, ok := fr.env[key]; ok {
		return r
	}
	panic(internalError{fmt.Sprintf("get: no value for %T: %v", key, key.Name())})
}

// isUncatchable reports whether a recovered panic value must not be visible to the target.
func isUncatchable(r any) bool {
	switch r := r.(type) {
	case pathAbort, internalError:
		return true
	case targetPanic:
		return false
	case *runtime.TypeAssertionError:
		return true
	case runtime.Error:
		_ = r
		return false
	case string:
		return true
	}
	return true
}

func normalizePanic(r any) any {
	switch r := r.(type) {
	case pathAbort, internalError, targetPanic:
		return r
	case *runtime.TypeAssertionError:
		return internalError{"interpreter type assertion: " + r.Error() + "\n" + shortStack()}
	case runtime.Error:
		msg := r.Error()
		if strings.Contains(msg, "nil pointer dereference") || strings.Contains(msg, "index out of range") || strings.Contains(msg, "slice bounds out of range") || strings.Contains(msg, "nil map") || strings.Contains(msg, "divide by zero") {
			return targetPanic{runtimeErr(strings.TrimPrefix(msg, "runtime error: "))}
		}
		return internalError{"interpreter runtime error: " + msg + "\n" + shortStack()}
	case string:
		return internalError{r}
	}
	return internalError{fmt.Sprintf("unexpected panic %T: %v", r, r)}
}

func shortStack() string {
	buf := make([]byte, 4096)
	n := runtime.Stack(buf, false)
	return string(buf[:n])
}

// runDefer runs a deferred call d.
// It always returns normally, but may set or clear fr.panic.
func (fr *frame) runDefer(d *deferred) {
	var ok bool
	defer func() {
		if !ok {
			r := normalizePanic(recover())
			if isUncatchable(r) {
				panic(r)
			}
			// Deferred call created a new state of panic.
			fr.panicking = true
			fr.panic = r
		}
	}()
	call(fr.i, fr, d.instr.Pos(), d.fn, d.args)
	ok = true
}

// runDefers executes fr's deferred function calls in LIFO order.
func (fr *frame) runDefers() {
	for d := fr.defers; d != nil; d = d.tail {
		fr.runDefer(d)
	}
	fr.defers = nil
	if fr.panicking {
		panic(fr.panic) // new panic, or still panicking
	}
}

// lookupMethod returns the method set for type typ.
func lookupMethod(i *interpreter, typ types.Type, meth *types.Func) *ssa.Function {
	return i.prog.LookupMethod(typ, meth.Pkg(), meth.Name())
}

// visitInstr interprets a single ssa.Instruction within the activation
// record frame.  It returns a continuation value indicating where to
// read the next instruction from.
func visitInstr(fr *frame, instr ssa.Instruction) continuation {
	fr.curInstr = instr
	m := fr.m
	m.steps++
	if m.steps > m.maxSteps {
		m.abort(abortBound, fmt.Sprintf("more than %d SSA instructions on one path", m.maxSteps))
	}
	switch instr := instr.(type) {
	case *ssa.DebugRef:
		// no-op

	case *ssa.UnOp:
		fr.env[instr] = unop(fr, instr, fr.get(instr.X))

	case *ssa.BinOp:
		fr.env[instr] = binop(instr.Op, instr.X.Type(), fr.get(instr.X), fr.get(instr.Y))

	case *ssa.Call:
		fn, args := prepareCall(fr, &instr.Call)
		fr.env[instr] = call(fr.i, fr, instr.Pos(), fn, args)

	case *ssa.ChangeInterface:
		fr.env[instr] = fr.get(instr.X)

	case *ssa.ChangeType:
		fr.env[instr] = fr.get(instr.X) // (can't fail)

	case *ssa.Convert:
		fr.env[instr] = conv(instr.Type(), instr.X.Type(), fr.get(instr.X))

	case *ssa.SliceToArrayPointer:
		fr.env[instr] = sliceToArrayPointer(instr.Type(), instr.X.Type(), fr.get(instr.X))

	case *ssa.MakeInterface:
		fr.env[instr] = iface{t: instr.X.Type(), v: fr.get(instr.X)}

	case *ssa.Extract:
		fr.env[instr] = fr.get(instr.Tuple).(tuple)[instr.Index]

	case *ssa.Slice:
		fr.env[instr] = slice(fr, fr.get(instr.X), fr.get(instr.Low), fr.get(instr.High), fr.get(instr.Max))

	case *ssa.Return:
		switch len(instr.Results) {
		case 0:
		case 1:
			fr.result = fr.get(instr.Results[0])
		default:
			var res []value
			for _, r := range instr.Results {
				res = append(res, fr.get(r))
			}
			fr.result = tuple(res)
		}
		fr.block = nil
		return kReturn

	case *ssa.RunDefers:
		fr.runDefers()

	case *ssa.Panic:
		if m.panicSite == "" || true {
			m.panicSite = fr.fn.String()
		}
		panic(targetPanic{fr.get(instr.X)})

	case *ssa.Send:
		ch := fr.get(instr.Chan).(*channel)
		m.chanOp(fr.th, []waitCase{{ch: ch, send: true, val: copyVal(fr.get(instr.X))}}, false, false)

	case *ssa.Store:
		addr := fr.get(instr.Addr).(*value)
		if addr == nil {
			panic(targetPanic{runtimeErr("invalid memory address or nil pointer dereference")})
		}
		if fr.m.raceOn {
			fr.m.noteCell(fr, addr, true)
		}
		store(mustDeref(instr.Addr.Type()), addr, fr.get(instr.Val))

	case *ssa.If:
		succ := 1
		switch c := fr.get(instr.Cond).(type) {
		case bool:
			if c {
				succ = 0
			}
		case sym:
			if fr.decide(c.t) {
				succ = 0
			}
		default:
			panic(internalError{fmt.Sprintf("If on %T", c)})
		}
		fr.prevBlock, fr.block = fr.block, fr.block.Succs[succ]
		return kJump

	case *ssa.Jump:
		fr.prevBlock, fr.block = fr.block, fr.block.Succs[0]
		return kJump

	case *ssa.Defer:
		fn, args := prepareCall(fr, &instr.Call)
		defers := &fr.defers
		if into := fr.get(instr.DeferStack); into != nil {
			defers = into.(**deferred)
		}
		*defers = &deferred{
			fn:    fn,
			args:  args,
			instr: instr,
			tail:  *defers,
		}

	case *ssa.Go:
		fn, args := prepareCall(fr, &instr.Call)
		in := fr.i
		pos := instr.Pos()
		name := "go@" + fr.where()
		m.startThread(in, name, func(t *thread) {
			callOnThread(in, m, t, pos, fn, args)
		})

	case *ssa.MakeChan:
		fr.env[instr] = m.newChan(int(asInt64(fr.concrete(fr.get(instr.Size), "chan size"))))

	case *ssa.Alloc:
		var addr *value
		if instr.Heap {
			// new
			addr = new(value)
			fr.env[instr] = addr
		} else {
			// local
			addr = fr.env[instr].(*value)
		}
		*addr = zero(mustDeref(instr.Type()))

	case *ssa.MakeSlice:
		c := asInt64(fr.concrete(fr.get(instr.Cap), "makeslice cap"))
		l := asInt64(fr.concrete(fr.get(instr.Len), "makeslice len"))
		if l < 0 || c < l || c > 1<<24 {
			panic(targetPanic{runtimeErr("makeslice: len out of range")})
		}
		slice := make([]value, c)
		tElt := instr.Type().Underlying().(*types.Slice).Elem()
		for i := range slice {
			slice[i] = zero(tElt)
		}
		fr.env[instr] = slice[:l]

	case *ssa.MakeMap:
		fr.env[instr] = makeMap(instr.Type().Underlying().(*types.Map).Key())

	case *ssa.Range:
		fr.env[instr] = rangeIter(fr, fr.get(instr.X))

	case *ssa.Next:
		fr.env[instr] = fr.get(instr.Iter).(iter).next()

	case *ssa.FieldAddr:
		p := fr.get(instr.X).(*value)
		if p == nil {
			panic(targetPanic{runtimeErr("invalid memory address or nil pointer dereference")})
		}
		fr.env[instr] = &(*p).(structure)[instr.Field]

	case *ssa.Field:
		fr.env[instr] = fr.get(instr.X).(structure)[instr.Field]

	case *ssa.IndexAddr:
		x := fr.get(instr.X)
		idx := fr.get(instr.Index)
		switch x := x.(type) {
		case []value:
			i := asInt64(fr.concreteIndex(idx, int64(len(x)), "index"))
			fr.env[instr] = &x[i]
		case *value: // *array
			if x == nil {
				panic(targetPanic{runtimeErr("invalid memory address or nil pointer dereference")})
			}
			a := (*x).(array)
			i := asInt64(fr.concreteIndex(idx, int64(len(a)), "index"))
			fr.env[instr] = &a[i]
		default:
			panic(internalError{fmt.Sprintf("unexpected x type in IndexAddr: %T", x)})
		}

	case *ssa.Index:
		x := fr.get(instr.X)
		idx := fr.get(instr.Index)

		switch x := x.(type) {
		case array:
			i := asInt64(fr.concreteIndex(idx, int64(len(x)), "index"))
			fr.env[instr] = copyVal(x[i])
		case string, symstr:
			fr.env[instr] = indexString(fr, x, idx)
		default:
			panic(internalError{fmt.Sprintf("unexpected x type in Index: %T", x)})
		}

	case *ssa.Lookup:
		fr.env[instr] = lookup(fr, instr, fr.get(instr.X), fr.get(instr.Index))

	case *ssa.MapUpdate:
		mp := fr.get(instr.Map)
		key := fr.get(instr.Key)
		v := fr.get(instr.Value)
		switch mp := mp.(type) {
		case *omap:
			mp.insert(fr, copyVal(key), copyVal(v))
		default:
			panic(internalError{fmt.Sprintf("illegal map type: %T", mp)})
		}

	case *ssa.TypeAssert:
		fr.env[instr] = typeAssert(instr, fr.get(instr.X).(iface))

	case *ssa.MakeClosure:
		var bindings []value
		for _, binding := range instr.Bindings {
			bindings = append(bindings, fr.get(binding))
		}
		fr.env[instr] = &closure{instr.Fn.(*ssa.Function), bindings}

	case *ssa.Phi:
		panic(internalError{"unreachable: phi"}) // phis are processed at block entry

	case *ssa.Select:
		var cases []waitCase
		for _, state := range instr.States {
			c := waitCase{}
			if chv := fr.get(state.Chan); chv != nil {
				c.ch = chv.(*channel)
			}
			if state.Dir == types.SendOnly {
				c.send = true
				c.val = copyVal(fr.get(state.Send))
			}
			cases = append(cases, c)
		}
		chosen, recv, recvOk := m.chanOp(fr.th, cases, !instr.Blocking, true)
		r := tuple{chosen, recvOk}
		for i, st := range instr.States {
			if st.Dir == types.RecvOnly {
				var v value
				if i == chosen && recvOk {
					v = recv
				} else {
					v = zero(st.Chan.Type().Underlying().(*types.Chan).Elem())
				}
				r = append(r, v)
			}
		}
		fr.env[instr] = r

	default:
		panic(internalError{fmt.Sprintf("unexpected instruction: %T", instr)})
	}

	return kNext
}

// prepareCall determines the function value and argument values for a
// function call in a Call, Go or Defer instruction, performing
// interface method lookup if needed.
func prepareCall(fr *frame, call *ssa.CallCommon) (fn value, args []value) {
	v := fr.get(call.Value)
	if call.Method == nil {
		// Function call.
		fn = v
	} else {
		// Interface method invocation.
		recv := v.(iface)
		if recv.t == nil {
			panic(targetPanic{runtimeErr("invalid memory address or nil pointer dereference")})
		}
		if recv.t == rtypeNamed {
			fn = rtypeMethod(call.Method.Name())
		} else if f := lookupMethod(fr.i, recv.t, call.Method); f == nil {
			// Unreachable in well-typed programs.
			panic(internalError{fmt.Sprintf("method set for dynamic type %v does not contain %s", recv.t, call.Method)})
		} else {
			fn = f
		}
		args = append(args, recv.v)
	}
	for _, arg := range call.Args {
		args = append(args, fr.get(arg))
	}
	return
}

// callOnThread runs fn(args) as the body of interpreter thread t.
func callOnThread(i *interpreter, m *machine, t *thread, pos token.Pos, fn value, args []value) value {
	root := &frame{i: i, m: m, th: t}
	return call(i, root, pos, fn, args)
}

// call interprets a call to a function (function, builtin or closure)
// fn with arguments args, returning its result.
// callpos is the position of the callsite.
func call(i *interpreter, caller *frame, callpos token.Pos, fn value, args []value) value {
	switch fn := fn.(type) {
	case *ssa.Function:
		if fn == nil {
			panic(targetPanic{runtimeErr("invalid memory address or nil pointer dereference")}) // nil of func type
		}
		return callSSA(i, caller, callpos, fn, args, nil)
	case *closure:
		return callSSA(i, caller, callpos, fn.Fn, args, fn.Env)
	case *ssa.Builtin:
		return callBuiltin(caller, fn, args)
	case externalFn:
		return fn(caller, args)
	}
	panic(internalError{fmt.Sprintf("cannot call %T", fn)})
}

// callSSA interprets a call to function fn with arguments args,
// and lexical environment env, returning its result.
// callpos is the position of the callsite.
func callSSA(i *interpreter, caller *frame, callpos token.Pos, fn *ssa.Function, args []value, env []value) value {
	fr := &frame{
		i:      i,
		m:      caller.m,
		th:     caller.th,
		caller: caller, // for panic/recover
		fn:     fn,
		depth:  caller.depth + 1,
	}
	if fr.depth > 400 {
		fr.m.abort(abortBound, "call depth exceeds 400")
	}
	if i.trace {
		fmt.Printf("%*scall %s\n", fr.depth, "", fn)
	}
	if fn.Parent() == nil {
		name := fn.String()
		if ext := externals[name]; ext != nil {
			return ext(fr, args)
		}
		if fn.Synthetic == "package initializer" && i.initAllow != nil && !i.initAllow(fn.Pkg) {
			return nil
		}
		if fn.Pkg != nil && fn.Pkg.Pkg.Path() == "log/slog" {
			return slogStub(fn)
		}
		if len(fr.m.summarize) > 0 {
			if group, sf := summaryFor(name); sf != nil && fr.m.summarize[group] {
				if r, ok := sf(fr, args); ok {
					return r
				}
			}
		}
		if fn.Pkg != nil {
			pp := fn.Pkg.Pkg.Path()
			if pp == i.rtPath {
				if r, ok := callRT(fr, fn, args); ok {
					return r
				}
			}
			if strings.HasPrefix(pp, i.modulePath) && !strings.HasPrefix(pp, i.rtPath) {
				fr.m.noteFunc(name)
			}
		}
		if fn.Blocks == nil {
			panic(internalError{"no code for function: " + name})
		}
	} else if fn.Pkg != nil {
		pp := fn.Pkg.Pkg.Path()
		if strings.HasPrefix(pp, i.modulePath) && !strings.HasPrefix(pp, i.rtPath) {
			fr.m.noteFunc(fn.String())
		}
	}
	if fn.Blocks == nil {
		name := fn.String()
		if ext := externals[name]; ext != nil {
			return ext(fr, args)
		}
		// instantiated generic / method wrappers of external functions
		if o := fn.Origin(); o != nil {
			if ext := externals[o.String()]; ext != nil {
				return ext(fr, args)
			}
		}
		panic(internalError{"no code for function: " + name})
	}

	// generic function body?
	if fn.TypeParams().Len() > 0 && len(fn.TypeArgs()) == 0 {
		panic(internalError{"generic function body not instantiated: " + fn.String()})
	}
	// methods of instantiated generics, and generic functions matched by origin name
	if o := fn.Origin(); o != nil {
		if ext := externals[o.String()]; ext != nil {
			return ext(fr, args)
		}
	}

	fr.env = make(map[ssa.Value]value)
	fr.block = fn.Blocks[0]
	fr.locals = make([]value, len(fn.Locals))
	for i, l := range fn.Locals {
		fr.locals[i] = zero(mustDeref(l.Type()))
		fr.env[l] = &fr.locals[i]
	}
	for i, p := range fn.Params {
		fr.env[p] = args[i]
	}
	for i, fv := range fn.FreeVars {
		fr.env[fv] = env[i]
	}
	for fr.block != nil {
		runFrame(fr)
	}
	return fr.result
}

// runFrame executes SSA instructions starting at fr.block and
// continuing until a return, a panic, or a recovered panic.
func runFrame(fr *frame) {
	defer func() {
		if fr.block == nil {
			return // normal return
		}
		r := normalizePanic(recover())
		if isUncatchable(r) {
			panic(r)
		}
		if tp, ok := r.(targetPanic); ok && !fr.m.panicNoted(tp) {
			fr.m.notePanic(tp, fr)
		}
		fr.panicking = true
		fr.panic = r
		fr.runDefers()
		fr.block = fr.fn.Recover
	}()

	for {
		nonPhis := executePhis(fr)
		for _, instr := range nonPhis {
			if visitInstr(fr, instr) == kReturn {
				return
			}
			// Inv: kNext (continue) or kJump (last instr)
		}
	}
}

// executePhis executes the phi-nodes at the start of the current
// block and returns the non-phi instructions.
func executePhis(fr *frame) []ssa.Instruction {
	firstNonPhi := -1
	for i, instr := range fr.block.Instrs {
		if _, ok := instr.(*ssa.Phi); !ok {
			firstNonPhi = i
			break
		}
	}
	// Inv: 0 <= firstNonPhi; every block contains a non-phi.

	nonPhis := fr.block.Instrs[firstNonPhi:]
	if firstNonPhi > 0 {
		phis := fr.block.Instrs[:firstNonPhi]
		predIndex := slices.Index(fr.block.Preds, fr.prevBlock)
		fr.phitemps = fr.phitemps[:0]
		for _, phi := range phis {
			phi := phi.(*ssa.Phi)
			fr.phitemps = append(fr.phitemps, fr.get(phi.Edges[predIndex]))
		}
		for i, phi := range phis {
			fr.env[phi.(*ssa.Phi)] = fr.phitemps[i]
		}
	}
	return nonPhis
}

// doRecover implements the recover() built-in.
func doRecover(caller *frame) value {
	// recover() must be exactly one level beneath the deferred
	// function (two levels beneath the panicking function) to
	// have any effect.
	if caller != nil && !caller.panicking &&
		caller.caller != nil && caller.caller.panicking {
		caller.caller.panicking = false
		p := caller.caller.panic
		caller.caller.panic = nil

		switch p := p.(type) {
		case targetPanic:
			// The target program explicitly called panic().
			return p.v
		default:
			panic(internalError{fmt.Sprintf("unexpected panic type %T in target call to recover()", p)})
		}
	}
	return iface{}
}

// panic bookkeeping: remember the innermost function in which the current panic was raised.
func (m *machine) panicNoted(tp targetPanic) bool {
	return m.lastPanic != nil && sameValue(m.lastPanic, tp.v)
}

func (m *machine) notePanic(tp targetPanic, fr *frame) {
	m.lastPanic = tp.v
	m.panicSite = fr.fn.String()
	m.panicWhere = fr.where()
	for c := fr.caller; c != nil && c.fn != nil; c = c.caller {
		m.panicWhere += " < " + c.where()
		if len(m.panicWhere) > 600 {
			break
		}
	}
}

func sameValue(a, b value) bool {
	defer func() { recover() }()
	ai, ok1 := a.(iface)
	bi, ok2 := b.(iface)
	if ok1 && ok2 {
		if !sameType(ai.t, bi.t) {
			return false
		}
		switch av := ai.v.(type) {
		case string:
			bs, ok := bi.v.(string)
			return ok && av == bs
		case *value:
			bp, ok := bi.v.(*value)
			return ok && av == bp
		}
	}
	return false
}

// panicMessage renders a panic value for reports.
func panicMessage(v value) string {
	if it, ok := v.(iface); ok {
		switch x := it.v.(type) {
		case string:
			return x
		case *value:
			// error types with a msg/s string field
			if x != nil {
				if st, ok := (*x).(structure); ok {
					for _, f := range st {
						if s, ok := f.(string); ok {
							return s
						}
					}
				}
			}
		}
		return fmt.Sprintf("(%v) %s", it.t, toString(it.v))
	}
	return toString(v)
}

func sanitizeMsg(s string) string {
	var b strings.Builder
	prevHash := false
	for _, c := range s {
		if c >= '0' && c <= '9' {
			if !prevHash {
				b.WriteByte('#')
			}
			prevHash = true
			continue
		}
		prevHash = false
		if c == '\n' {
			break
		}
		b.WriteRune(c)
		if b.Len() >= 60 {
			break
		}
	}
	return b.String()
}

// slogStub: logging is inert. Arguments were already evaluated by the caller, so
// a panic inside a log argument is still found. Results are zero values, except
// that *Logger results are a non-nil dummy.
func slogStub(fn *ssa.Function) value {
	res := fn.Signature.Results()
	mk := func(t types.Type) value {
		if p, ok := t.Underlying().(*types.Pointer); ok {
			if n, ok := p.Elem().(*types.Named); ok && n.Obj().Name() == "Logger" {
				c := new(value)
				*c = structure{}
				return c
			}
		}
		return zero(t)
	}
	switch res.Len() {
	case 0:
		return nil
	case 1:
		return mk(res.At(0).Type())
	}
	t := make(tuple, res.Len())
	for i := range t {
		t[i] = mk(res.At(i).Type())
	}
	return t
}
