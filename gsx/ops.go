// Copyright 2013 The Go Authors. All rights reserved.
// Use of this source code is governed by a BSD-style
// license that can be found in the LICENSE file.

package main

import (
	"bytes"
	"fmt"
	"go/constant"
	"go/token"
	"go/types"
	"os"
	"strings"
	"unsafe"

	"golang.org/x/tools/go/ssa"
)

// Derived from golang.org/x/tools/go/ssa/interp/ops.go; extended with symbolic
// operands (sym, symstr), interpreter-level maps and channels.

// mustDeref returns the element type of a pointer type.
func mustDeref(t types.Type) types.Type {
	if p, ok := t.Underlying().(*types.Pointer); ok {
		return p.Elem()
	}
	panic(internalError{fmt.Sprintf("mustDeref: %v is not a pointer", t)})
}

// If the target program calls exit, the interpreter panics with this type.
type exitPanic int

// constValue returns the value of the constant with the
// dynamic type tag appropriate for c.Type().
func constValue(c *ssa.Const) value {
	if c.Value == nil {
		return zero(c.Type()) // typed zero
	}
	// c is not a type parameter so it's underlying type is basic.

	if t, ok := c.Type().Underlying().(*types.Basic); ok {
		// TODO(adonovan): eliminate untyped constants from SSA form.
		switch t.Kind() {
		case types.Bool, types.UntypedBool:
			return constant.BoolVal(c.Value)
		case types.Int, types.UntypedInt:
			// Assume sizeof(int) is same on host and target.
			return int(c.Int64())
		case types.Int8:
			return int8(c.Int64())
		case types.Int16:
			return int16(c.Int64())
		case types.Int32, types.UntypedRune:
			return int32(c.Int64())
		case types.Int64:
			return c.Int64()
		case types.Uint:
			// Assume sizeof(uint) is same on host and target.
			return uint(c.Uint64())
		case types.Uint8:
			return uint8(c.Uint64())
		case types.Uint16:
			return uint16(c.Uint64())
		case types.Uint32:
			return uint32(c.Uint64())
		case types.Uint64:
			return c.Uint64()
		case types.Uintptr:
			// Assume sizeof(uintptr) is same on host and target.
			return uintptr(c.Uint64())
		case types.Float32:
			return float32(c.Float64())
		case types.Float64, types.UntypedFloat:
			return c.Float64()
		case types.Complex64:
			return complex64(c.Complex128())
		case types.Complex128, types.UntypedComplex:
			return c.Complex128()
		case types.String, types.UntypedString:
			if c.Value.Kind() == constant.String {
				return constant.StringVal(c.Value)
			}
			return string(rune(c.Int64()))
		}
	}

	panic(fmt.Sprintf("constValue: %s", c))
}

// fitsInt returns true if x fits in type int according to sizes.
func fitsInt(x int64, sizes types.Sizes) bool {
	intSize := sizes.Sizeof(types.Typ[types.Int])
	if intSize < sizes.Sizeof(types.Typ[types.Int64]) {
		maxInt := int64(1)<<((intSize*8)-1) - 1
		minInt := -int64(1) << ((intSize * 8) - 1)
		return minInt <= x && x <= maxInt
	}
	return true
}

// asInt64 converts x, which must be an integer, to an int64.
//
// Callers that need a value directly usable as an int should combine this with fitsInt().
func asInt64(x value) int64 {
	switch x := x.(type) {
	case int:
		return int64(x)
	case int8:
		return int64(x)
	case int16:
		return int64(x)
	case int32:
		return int64(x)
	case int64:
		return x
	case uint:
		return int64(x)
	case uint8:
		return int64(x)
	case uint16:
		return int64(x)
	case uint32:
		return int64(x)
	case uint64:
		return int64(x)
	case uintptr:
		return int64(x)
	}
	panic(fmt.Sprintf("cannot convert %T to int64", x))
}

// asUint64 converts x, which must be an unsigned integer, to a uint64
// suitable for use as a bitwise shift count.
func asUint64(x value) uint64 {
	switch x := x.(type) {
	case uint:
		return uint64(x)
	case uint8:
		return uint64(x)
	case uint16:
		return uint64(x)
	case uint32:
		return uint64(x)
	case uint64:
		return x
	case uintptr:
		return uint64(x)
	}
	panic(fmt.Sprintf("cannot convert %T to uint64", x))
}

// asUnsigned returns the value of x, which must be an integer type, as its equivalent unsigned type,
// and returns true if x is non-negative.
func asUnsigned(x value) (value, bool) {
	switch x := x.(type) {
	case int:
		return uint(x), x >= 0
	case int8:
		return uint8(x), x >= 0
	case int16:
		return uint16(x), x >= 0
	case int32:
		return uint32(x), x >= 0
	case int64:
		return uint64(x), x >= 0
	case uint, uint8, uint32, uint64, uintptr:
		return x, true
	}
	panic(fmt.Sprintf("cannot convert %T to unsigned", x))
}

// zero returns a new "zero" value of the specified type.
func zero(t types.Type) value {
	switch t := t.(type) {
	case *types.Basic:
		if t.Kind() == types.UntypedNil {
			panic("untyped nil has no zero value")
		}
		if t.Info()&types.IsUntyped != 0 {
			// TODO(adonovan): make it an invariant that
			// this is unreachable.  Currently some
			// constants have 'untyped' types when they
			// should be defaulted by the typechecker.
			t = types.Default(t).(*types.Basic)
		}
		switch t.Kind() {
		case types.Bool:
			return false
		case types.Int:
			return int(0)
		case types.Int8:
			return int8(0)
		case types.Int16:
			return int16(0)
		case types.Int32:
			return int32(0)
		case types.Int64:
			return int64(0)
		case types.Uint:
			return uint(0)
		case types.Uint8:
			return uint8(0)
		case types.Uint16:
			return uint16(0)
		case types.Uint32:
			return uint32(0)
		case types.Uint64:
			return uint64(0)
		case types.Uintptr:
			return uintptr(0)
		case types.Float32:
			return float32(0)
		case types.Float64:
			return float64(0)
		case types.Complex64:
			return complex64(0)
		case types.Complex128:
			return complex128(0)
		case types.String:
			return ""
		case types.UnsafePointer:
			return unsafe.Pointer(nil)
		default:
			panic(fmt.Sprint("zero for unexpected type:", t))
		}
	case *types.Pointer:
		return (*value)(nil)
	case *types.Array:
		a := make(array, t.Len())
		for i := range a {
			a[i] = zero(t.Elem())
		}
		return a
	case *types.Named:
		return zero(t.Underlying())
	case *types.Alias:
		return zero(types.Unalias(t))
	case *types.Interface:
		return iface{} // nil type, methodset and value
	case *types.Slice:
		return []value(nil)
	case *types.Struct:
		s := make(structure, t.NumFields())
		for i := range s {
			s[i] = zero(t.Field(i).Type())
		}
		return s
	case *types.Tuple:
		if t.Len() == 1 {
			return zero(t.At(0).Type())
		}
		s := make(tuple, t.Len())
		for i := range s {
			s[i] = zero(t.At(i).Type())
		}
		return s
	case *types.Chan:
		return (*channel)(nil)
	case *types.Map:
		return (*omap)(nil)
	case *types.Signature:
		return (*ssa.Function)(nil)
	}
	panic(fmt.Sprint("zero: unexpected ", t))
}

// slice returns x[lo:hi:max].  Any of lo, hi and max may be nil.
func slice(fr *frame, x, lo, hi, max value) value {
	var Len, Cap int
	switch x := x.(type) {
	case string:
		Len = len(x)
		Cap = Len
	case symstr:
		Len = len(x)
		Cap = Len
	case []value:
		Len = len(x)
		Cap = cap(x)
	case *value: // *array
		if x == nil {
			panic(targetPanic{runtimeErr("invalid memory address or nil pointer dereference")})
		}
		a := (*x).(array)
		Len = len(a)
		Cap = cap(a)
	}

	l := int64(0)
	if lo != nil {
		l = asInt64(fr.concrete(lo, "slice.lo"))
	}

	h := int64(Len)
	if hi != nil {
		h = asInt64(fr.concrete(hi, "slice.hi"))
	}

	m := int64(Cap)
	if max != nil {
		m = asInt64(fr.concrete(max, "slice.max"))
	}
	if _, isStr := x.(string); isStr {
		if l < 0 || h < l || h > int64(Len) {
			panic(targetPanic{runtimeErr(fmt.Sprintf("slice bounds out of range [%d:%d] with length %d", l, h, Len))})
		}
	} else if _, isSS := x.(symstr); isSS {
		if l < 0 || h < l || h > int64(Len) {
			panic(targetPanic{runtimeErr(fmt.Sprintf("slice bounds out of range [%d:%d] with length %d", l, h, Len))})
		}
	} else if l < 0 || h < l || m < h || m > int64(Cap) {
		if h > int64(Cap) || m > int64(Cap) {
			panic(targetPanic{runtimeErr(fmt.Sprintf("slice bounds out of range [:%d] with capacity %d", h, Cap))})
		}
		panic(targetPanic{runtimeErr(fmt.Sprintf("slice bounds out of range [%d:%d]", l, h))})
	}

	switch x := x.(type) {
	case string:
		return x[l:h]
	case symstr:
		return normStr(x[l:h])
	case []value:
		return x[l:h:m]
	case *value: // *array
		a := (*x).(array)
		return []value(a)[l:h:m]
	}
	panic(internalError{fmt.Sprintf("slice: unexpected X type: %T", x)})
}

// lookup returns x[idx] where x is a map or string.
func lookup(fr *frame, instr *ssa.Lookup, x, idx value) value {
	switch x := x.(type) {
	case *omap:
		v, ok := x.lookup(fr, idx)
		if !ok {
			v = zero(instr.X.Type().Underlying().(*types.Map).Elem())
		} else {
			v = copyVal(v)
		}
		if instr.CommaOk {
			v = tuple{v, ok}
		}
		return v
	case string:
		return indexString(fr, x, idx)
	case symstr:
		return indexString(fr, x, idx)
	}
	panic(internalError{fmt.Sprintf("unexpected x type in Lookup: %T", x)})
}

func indexString(fr *frame, x value, idx value) value {
	i := asInt64(fr.concreteIndex(idx, int64(strLen(x)), "string index"))
	switch x := x.(type) {
	case string:
		return x[i]
	case symstr:
		return x[i]
	}
	panic(internalError{"indexString"})
}

func strLen(x value) int {
	switch x := x.(type) {
	case string:
		return len(x)
	case symstr:
		return len(x)
	}
	panic(internalError{fmt.Sprintf("strLen of %T", x)})
}

// binop implements all arithmetic and logical binary operators for
// numeric datatypes and strings.  Both operands must have identical
// dynamic type.
func binop(op token.Token, t types.Type, x, y value) value {
	if m := symOf(x, y); m != nil {
		return symBinop(m, op, t, x, y)
	}
	if _, ok := x.(symstr); ok {
		return strBinop(op, x, y)
	}
	if _, ok := y.(symstr); ok {
		return strBinop(op, x, y)
	}
	switch op {
	case token.QUO, token.REM:
		switch y.(type) {
		case float32, float64, complex64, complex128:
		default:
			if asInt64(y) == 0 {
				panic(targetPanic{runtimeErr("integer divide by zero")})
			}
		}
	}
	switch op {
	case token.ADD:
		switch x.(type) {
		case int:
			return x.(int) + y.(int)
		case int8:
			return x.(int8) + y.(int8)
		case int16:
			return x.(int16) + y.(int16)
		case int32:
			return x.(int32) + y.(int32)
		case int64:
			return x.(int64) + y.(int64)
		case uint:
			return x.(uint) + y.(uint)
		case uint8:
			return x.(uint8) + y.(uint8)
		case uint16:
			return x.(uint16) + y.(uint16)
		case uint32:
			return x.(uint32) + y.(uint32)
		case uint64:
			return x.(uint64) + y.(uint64)
		case uintptr:
			return x.(uintptr) + y.(uintptr)
		case float32:
			return x.(float32) + y.(float32)
		case float64:
			return x.(float64) + y.(float64)
		case complex64:
			return x.(complex64) + y.(complex64)
		case complex128:
			return x.(complex128) + y.(complex128)
		case string:
			return x.(string) + y.(string)
		}

	case token.SUB:
		switch x.(type) {
		case int:
			return x.(int) - y.(int)
		case int8:
			return x.(int8) - y.(int8)
		case int16:
			return x.(int16) - y.(int16)
		case int32:
			return x.(int32) - y.(int32)
		case int64:
			return x.(int64) - y.(int64)
		case uint:
			return x.(uint) - y.(uint)
		case uint8:
			return x.(uint8) - y.(uint8)
		case uint16:
			return x.(uint16) - y.(uint16)
		case uint32:
			return x.(uint32) - y.(uint32)
		case uint64:
			return x.(uint64) - y.(uint64)
		case uintptr:
			return x.(uintptr) - y.(uintptr)
		case float32:
			return x.(float32) - y.(float32)
		case float64:
			return x.(float64) - y.(float64)
		case complex64:
			return x.(complex64) - y.(complex64)
		case complex128:
			return x.(complex128) - y.(complex128)
		}

	case token.MUL:
		switch x.(type) {
		case int:
			return x.(int) * y.(int)
		case int8:
			return x.(int8) * y.(int8)
		case int16:
			return x.(int16) * y.(int16)
		case int32:
			return x.(int32) * y.(int32)
		case int64:
			return x.(int64) * y.(int64)
		case uint:
			return x.(uint) * y.(uint)
		case uint8:
			return x.(uint8) * y.(uint8)
		case uint16:
			return x.(uint16) * y.(uint16)
		case uint32:
			return x.(uint32) * y.(uint32)
		case uint64:
			return x.(uint64) * y.(uint64)
		case uintptr:
			return x.(uintptr) * y.(uintptr)
		case float32:
			return x.(float32) * y.(float32)
		case float64:
			return x.(float64) * y.(float64)
		case complex64:
			return x.(complex64) * y.(complex64)
		case complex128:
			return x.(complex128) * y.(complex128)
		}

	case token.QUO:
		switch x.(type) {
		case int:
			return x.(int) / y.(int)
		case int8:
			return x.(int8) / y.(int8)
		case int16:
			return x.(int16) / y.(int16)
		case int32:
			return x.(int32) / y.(int32)
		case int64:
			return x.(int64) / y.(int64)
		case uint:
			return x.(uint) / y.(uint)
		case uint8:
			return x.(uint8) / y.(uint8)
		case uint16:
			return x.(uint16) / y.(uint16)
		case uint32:
			return x.(uint32) / y.(uint32)
		case uint64:
			return x.(uint64) / y.(uint64)
		case uintptr:
			return x.(uintptr) / y.(uintptr)
		case float32:
			return x.(float32) / y.(float32)
		case float64:
			return x.(float64) / y.(float64)
		case complex64:
			return x.(complex64) / y.(complex64)
		case complex128:
			return x.(complex128) / y.(complex128)
		}

	case token.REM:
		switch x.(type) {
		case int:
			return x.(int) % y.(int)
		case int8:
			return x.(int8) % y.(int8)
		case int16:
			return x.(int16) % y.(int16)
		case int32:
			return x.(int32) % y.(int32)
		case int64:
			return x.(int64) % y.(int64)
		case uint:
			return x.(uint) % y.(uint)
		case uint8:
			return x.(uint8) % y.(uint8)
		case uint16:
			return x.(uint16) % y.(uint16)
		case uint32:
			return x.(uint32) % y.(uint32)
		case uint64:
			return x.(uint64) % y.(uint64)
		case uintptr:
			return x.(uintptr) % y.(uintptr)
		}

	case token.AND:
		switch x.(type) {
		case int:
			return x.(int) & y.(int)
		case int8:
			return x.(int8) & y.(int8)
		case int16:
			return x.(int16) & y.(int16)
		case int32:
			return x.(int32) & y.(int32)
		case int64:
			return x.(int64) & y.(int64)
		case uint:
			return x.(uint) & y.(uint)
		case uint8:
			return x.(uint8) & y.(uint8)
		case uint16:
			return x.(uint16) & y.(uint16)
		case uint32:
			return x.(uint32) & y.(uint32)
		case uint64:
			return x.(uint64) & y.(uint64)
		case uintptr:
			return x.(uintptr) & y.(uintptr)
		}

	case token.OR:
		switch x.(type) {
		case int:
			return x.(int) | y.(int)
		case int8:
			return x.(int8) | y.(int8)
		case int16:
			return x.(int16) | y.(int16)
		case int32:
			return x.(int32) | y.(int32)
		case int64:
			return x.(int64) | y.(int64)
		case uint:
			return x.(uint) | y.(uint)
		case uint8:
			return x.(uint8) | y.(uint8)
		case uint16:
			return x.(uint16) | y.(uint16)
		case uint32:
			return x.(uint32) | y.(uint32)
		case uint64:
			return x.(uint64) | y.(uint64)
		case uintptr:
			return x.(uintptr) | y.(uintptr)
		}

	case token.XOR:
		switch x.(type) {
		case int:
			return x.(int) ^ y.(int)
		case int8:
			return x.(int8) ^ y.(int8)
		case int16:
			return x.(int16) ^ y.(int16)
		case int32:
			return x.(int32) ^ y.(int32)
		case int64:
			return x.(int64) ^ y.(int64)
		case uint:
			return x.(uint) ^ y.(uint)
		case uint8:
			return x.(uint8) ^ y.(uint8)
		case uint16:
			return x.(uint16) ^ y.(uint16)
		case uint32:
			return x.(uint32) ^ y.(uint32)
		case uint64:
			return x.(uint64) ^ y.(uint64)
		case uintptr:
			return x.(uintptr) ^ y.(uintptr)
		}

	case token.AND_NOT:
		switch x.(type) {
		case int:
			return x.(int) &^ y.(int)
		case int8:
			return x.(int8) &^ y.(int8)
		case int16:
			return x.(int16) &^ y.(int16)
		case int32:
			return x.(int32) &^ y.(int32)
		case int64:
			return x.(int64) &^ y.(int64)
		case uint:
			return x.(uint) &^ y.(uint)
		case uint8:
			return x.(uint8) &^ y.(uint8)
		case uint16:
			return x.(uint16) &^ y.(uint16)
		case uint32:
			return x.(uint32) &^ y.(uint32)
		case uint64:
			return x.(uint64) &^ y.(uint64)
		case uintptr:
			return x.(uintptr) &^ y.(uintptr)
		}

	case token.SHL:
		u, ok := asUnsigned(y)
		if !ok {
			panic(targetPanic{runtimeErr("negative shift amount")})
		}
		y := asUint64(u)
		switch x.(type) {
		case int:
			return x.(int) << y
		case int8:
			return x.(int8) << y
		case int16:
			return x.(int16) << y
		case int32:
			return x.(int32) << y
		case int64:
			return x.(int64) << y
		case uint:
			return x.(uint) << y
		case uint8:
			return x.(uint8) << y
		case uint16:
			return x.(uint16) << y
		case uint32:
			return x.(uint32) << y
		case uint64:
			return x.(uint64) << y
		case uintptr:
			return x.(uintptr) << y
		}

	case token.SHR:
		u, ok := asUnsigned(y)
		if !ok {
			panic(targetPanic{runtimeErr("negative shift amount")})
		}
		y := asUint64(u)
		switch x.(type) {
		case int:
			return x.(int) >> y
		case int8:
			return x.(int8) >> y
		case int16:
			return x.(int16) >> y
		case int32:
			return x.(int32) >> y
		case int64:
			return x.(int64) >> y
		case uint:
			return x.(uint) >> y
		case uint8:
			return x.(uint8) >> y
		case uint16:
			return x.(uint16) >> y
		case uint32:
			return x.(uint32) >> y
		case uint64:
			return x.(uint64) >> y
		case uintptr:
			return x.(uintptr) >> y
		}

	case token.LSS:
		switch x.(type) {
		case int:
			return x.(int) < y.(int)
		case int8:
			return x.(int8) < y.(int8)
		case int16:
			return x.(int16) < y.(int16)
		case int32:
			return x.(int32) < y.(int32)
		case int64:
			return x.(int64) < y.(int64)
		case uint:
			return x.(uint) < y.(uint)
		case uint8:
			return x.(uint8) < y.(uint8)
		case uint16:
			return x.(uint16) < y.(uint16)
		case uint32:
			return x.(uint32) < y.(uint32)
		case uint64:
			return x.(uint64) < y.(uint64)
		case uintptr:
			return x.(uintptr) < y.(uintptr)
		case float32:
			return x.(float32) < y.(float32)
		case float64:
			return x.(float64) < y.(float64)
		case string:
			return x.(string) < y.(string)
		}

	case token.LEQ:
		switch x.(type) {
		case int:
			return x.(int) <= y.(int)
		case int8:
			return x.(int8) <= y.(int8)
		case int16:
			return x.(int16) <= y.(int16)
		case int32:
			return x.(int32) <= y.(int32)
		case int64:
			return x.(int64) <= y.(int64)
		case uint:
			return x.(uint) <= y.(uint)
		case uint8:
			return x.(uint8) <= y.(uint8)
		case uint16:
			return x.(uint16) <= y.(uint16)
		case uint32:
			return x.(uint32) <= y.(uint32)
		case uint64:
			return x.(uint64) <= y.(uint64)
		case uintptr:
			return x.(uintptr) <= y.(uintptr)
		case float32:
			return x.(float32) <= y.(float32)
		case float64:
			return x.(float64) <= y.(float64)
		case string:
			return x.(string) <= y.(string)
		}

	case token.EQL:
		return eqnil(t, x, y)

	case token.NEQ:
		return notV(eqnil(t, x, y))

	case token.GTR:
		switch x.(type) {
		case int:
			return x.(int) > y.(int)
		case int8:
			return x.(int8) > y.(int8)
		case int16:
			return x.(int16) > y.(int16)
		case int32:
			return x.(int32) > y.(int32)
		case int64:
			return x.(int64) > y.(int64)
		case uint:
			return x.(uint) > y.(uint)
		case uint8:
			return x.(uint8) > y.(uint8)
		case uint16:
			return x.(uint16) > y.(uint16)
		case uint32:
			return x.(uint32) > y.(uint32)
		case uint64:
			return x.(uint64) > y.(uint64)
		case uintptr:
			return x.(uintptr) > y.(uintptr)
		case float32:
			return x.(float32) > y.(float32)
		case float64:
			return x.(float64) > y.(float64)
		case string:
			return x.(string) > y.(string)
		}

	case token.GEQ:
		switch x.(type) {
		case int:
			return x.(int) >= y.(int)
		case int8:
			return x.(int8) >= y.(int8)
		case int16:
			return x.(int16) >= y.(int16)
		case int32:
			return x.(int32) >= y.(int32)
		case int64:
			return x.(int64) >= y.(int64)
		case uint:
			return x.(uint) >= y.(uint)
		case uint8:
			return x.(uint8) >= y.(uint8)
		case uint16:
			return x.(uint16) >= y.(uint16)
		case uint32:
			return x.(uint32) >= y.(uint32)
		case uint64:
			return x.(uint64) >= y.(uint64)
		case uintptr:
			return x.(uintptr) >= y.(uintptr)
		case float32:
			return x.(float32) >= y.(float32)
		case float64:
			return x.(float64) >= y.(float64)
		case string:
			return x.(string) >= y.(string)
		}
	}
	panic(internalError{fmt.Sprintf("invalid binary op: %T %s %T", x, op, y)})
}

// eqnil returns the comparison x == y using the equivalence relation
// appropriate for type t (a bool, or a sym Bool).
// If t is a reference type, at most one of x or y may be a nil value
// of that type.
func eqnil(t types.Type, x, y value) value {
	switch t.Underlying().(type) {
	case *types.Map, *types.Signature, *types.Slice:
		// Since these types don't support comparison,
		// one of the operands must be a literal nil.
		switch x := x.(type) {
		case *omap:
			return (x != nil) == (y.(*omap) != nil)
		case *ssa.Function:
			switch y := y.(type) {
			case *ssa.Function:
				return (x != nil) == (y != nil)
			case *closure:
				return x == nil && false
			}
		case *closure:
			return (x != nil) == (y.(*ssa.Function) != nil)
		case []value:
			return (x != nil) == (y.([]value) != nil)
		}
		panic(internalError{fmt.Sprintf("eqnil(%s): illegal dynamic type: %T", t, x)})
	}

	return equalsV(t, x, y)
}

func unop(fr *frame, instr *ssa.UnOp, x value) value {
	if sx, ok := x.(sym); ok {
		m := sx.m
		switch instr.Op {
		case token.SUB:
			return m.mkSym(m.tt.bvneg(sx.t), sx.kind)
		case token.XOR:
			return m.mkSym(m.tt.bvnot(sx.t), sx.kind)
		case token.NOT:
			return m.mkSym(m.tt.not(sx.t), types.Bool)
		}
		panic(internalError{fmt.Sprintf("invalid unary op %s on sym", instr.Op)})
	}
	switch instr.Op {
	case token.ARROW: // receive
		ch := x.(*channel)
		_, v, ok := fr.m.chanOp(fr.th, []waitCase{{ch: ch}}, false, false)
		if !ok || v == nil {
			if !ok {
				v = zero(instr.X.Type().Underlying().(*types.Chan).Elem())
			}
		}
		if instr.CommaOk {
			v = tuple{v, ok}
		}
		return v
	case token.SUB:
		switch x := x.(type) {
		case int:
			return -x
		case int8:
			return -x
		case int16:
			return -x
		case int32:
			return -x
		case int64:
			return -x
		case uint:
			return -x
		case uint8:
			return -x
		case uint16:
			return -x
		case uint32:
			return -x
		case uint64:
			return -x
		case uintptr:
			return -x
		case float32:
			return -x
		case float64:
			return -x
		case complex64:
			return -x
		case complex128:
			return -x
		}
	case token.MUL:
		p := x.(*value)
		if p == nil {
			panic(targetPanic{runtimeErr("invalid memory address or nil pointer dereference")})
		}
		if fr.m.raceOn {
			fr.m.noteCell(fr, p, false)
		}
		return load(mustDeref(instr.X.Type()), p)
	case token.NOT:
		return !x.(bool)
	case token.XOR:
		switch x := x.(type) {
		case int:
			return ^x
		case int8:
			return ^x
		case int16:
			return ^x
		case int32:
			return ^x
		case int64:
			return ^x
		case uint:
			return ^x
		case uint8:
			return ^x
		case uint16:
			return ^x
		case uint32:
			return ^x
		case uint64:
			return ^x
		case uintptr:
			return ^x
		}
	}
	panic(internalError{fmt.Sprintf("invalid unary op %s %T", instr.Op, x)})
}

// typeAssert checks whether dynamic type of itf is instr.AssertedType.
// It returns the extracted value on success, and panics on failure,
// unless instr.CommaOk, in which case it always returns a "value,ok" tuple.
func typeAssert(instr *ssa.TypeAssert, itf iface) value {
	var v value
	err := ""
	if itf.t == nil {
		err = fmt.Sprintf("interface conversion: interface is nil, not %s", instr.AssertedType)

	} else if idst, ok := instr.AssertedType.Underlying().(*types.Interface); ok {
		v = itf
		err = checkInterface(idst, itf)

	} else if types.Identical(itf.t, instr.AssertedType) {
		v = itf.v // extract value

	} else {
		err = fmt.Sprintf("interface conversion: interface is %s, not %s", itf.t, instr.AssertedType)
	}
	// Note: if instr.Underlying==true ever becomes reachable from interp check that
	// types.Identical(itf.t.Underlying(), instr.AssertedType)

	if err != "" {
		if !instr.CommaOk {
			panic(targetPanic{runtimeErr(err)})
		}
		return tuple{zero(instr.AssertedType), false}
	}
	if instr.CommaOk {
		return tuple{v, true}
	}
	return v
}

// This variable is no longer used but remains to prevent build breakage.
var CapturedOutput *bytes.Buffer

// callBuiltin interprets a call to builtin fn with arguments args,
// returning its result.
func callBuiltin(caller *frame, fn *ssa.Builtin, args []value) value {
	switch fn.Name() {
	case "append":
		if len(args) == 1 {
			return args[0]
		}
		switch s := args[1].(type) {
		case string:
			// append([]byte, ...string) []byte
			arg0 := args[0].([]value)
			for i := 0; i < len(s); i++ {
				arg0 = append(arg0, s[i])
			}
			return arg0
		case symstr:
			arg0 := args[0].([]value)
			for i := 0; i < len(s); i++ {
				arg0 = append(arg0, s[i])
			}
			return arg0
		}
		// append([]T, ...[]T) []T
		src := args[1].([]value)
		dst := args[0].([]value)
		for _, e := range src {
			dst = append(dst, copyVal(e))
		}
		return dst

	case "copy": // copy([]T, []T) int or copy([]byte, string) int
		src := args[1]
		switch s := src.(type) {
		case string:
			src = []value(strToSym(s))
		case symstr:
			src = []value(s)
		}
		dst := args[0].([]value)
		sv := src.([]value)
		n := len(dst)
		if len(sv) < n {
			n = len(sv)
		}
		if n > 0 && len(dst) > 0 && len(sv) > 0 {
			tmp := make([]value, n)
			for i := 0; i < n; i++ {
				tmp[i] = copyVal(sv[i])
			}
			copy(dst, tmp)
		}
		return n

	case "clear":
		switch x := args[0].(type) {
		case *omap:
			caller.m.noteMap(caller, x, true)
			x.clear()
		case []value:
			var tElt types.Type
			if sl, ok := fn.Type().(*types.Signature).Params().At(0).Type().Underlying().(*types.Slice); ok {
				tElt = sl.Elem()
			}
			for i := range x {
				if tElt != nil {
					x[i] = zero(tElt)
				}
			}
		}
		return nil

	case "close": // close(chan T)
		caller.m.closeChan(args[0].(*channel))
		return nil

	case "delete": // delete(map[K]value, K)
		args[0].(*omap).delete(caller, args[1])
		return nil

	case "print", "println": // print(any, ...)
		ln := fn.Name() == "println"
		var buf bytes.Buffer
		for i, arg := range args {
			if i > 0 && ln {
				buf.WriteRune(' ')
			}
			buf.WriteString(toString(arg))
		}
		if ln {
			buf.WriteRune('\n')
		}
		os.Stderr.Write(buf.Bytes())
		return nil

	case "len":
		switch x := args[0].(type) {
		case string:
			return len(x)
		case symstr:
			return len(x)
		case array:
			return len(x)
		case *value:
			return len((*x).(array))
		case []value:
			return len(x)
		case *omap:
			return x.len()
		case *channel:
			if x == nil {
				return 0
			}
			return len(x.buf)
		default:
			panic(internalError{fmt.Sprintf("len: illegal operand: %T", x)})
		}

	case "cap":
		switch x := args[0].(type) {
		case array:
			return cap(x)
		case *value:
			return cap((*x).(array))
		case []value:
			return cap(x)
		case *channel:
			if x == nil {
				return 0
			}
			return x.cap
		default:
			panic(internalError{fmt.Sprintf("cap: illegal operand: %T", x)})
		}

	case "min":
		return foldLeft(minV, args)
	case "max":
		return foldLeft(maxV, args)

	case "real":
		switch c := args[0].(type) {
		case complex64:
			return real(c)
		case complex128:
			return real(c)
		default:
			panic(fmt.Sprintf("real: illegal operand: %T", c))
		}

	case "imag":
		switch c := args[0].(type) {
		case complex64:
			return imag(c)
		case complex128:
			return imag(c)
		default:
			panic(fmt.Sprintf("imag: illegal operand: %T", c))
		}

	case "complex":
		switch f := args[0].(type) {
		case float32:
			return complex(f, args[1].(float32))
		case float64:
			return complex(f, args[1].(float64))
		default:
			panic(fmt.Sprintf("complex: illegal operand: %T", f))
		}

	case "panic":
		// ssa.Panic handles most cases; this is only for "go
		// panic" or "defer panic".
		panic(targetPanic{args[0]})

	case "recover":
		return doRecover(caller)

	case "ssa:wrapnilchk":
		recv := args[0]
		if recv.(*value) == nil {
			recvType := args[1]
			methodName := args[2]
			panic(targetPanic{runtimeErr(fmt.Sprintf("value method (%s).%s called using nil *%s pointer",
				recvType, methodName, recvType))})
		}
		return recv

	case "ssa:deferstack":
		return &caller.defers
	}

	panic("unknown built-in: " + fn.Name())
}

func rangeIter(fr *frame, x value) iter {
	switch x := x.(type) {
	case *omap:
		fr.m.noteMap(fr, x, false)
		order := x.live()
		if len(order) > 1 && fr.m.mapOrderApplies(fr) {
			// all permutations as a sequence of choices
			fr.m.schedDep = true
			perm := make([]int, 0, len(order))
			rest := append([]int(nil), order...)
			for len(rest) > 1 {
				k := fr.m.choose(len(rest), "maporder")
				perm = append(perm, rest[k])
				rest = append(rest[:k], rest[k+1:]...)
			}
			perm = append(perm, rest...)
			order = perm
		}
		return &omapIter{m: x, order: order}
	case string:
		return &stringIter{Reader: strings.NewReader(x)}
	case symstr:
		return &symstrIter{fr: fr, s: x}
	}
	panic(internalError{fmt.Sprintf("cannot range over %T", x)})
}

// widen widens a basic typed value x to the widest type of its
// category, one of:
//
//	bool, int64, uint64, float64, complex128, string.
//
// This is inefficient but reduces the size of the cross-product of
// cases we have to consider.
func widen(x value) value {
	switch y := x.(type) {
	case bool, int64, uint64, float64, complex128, string, unsafe.Pointer:
		return x
	case int:
		return int64(y)
	case int8:
		return int64(y)
	case int16:
		return int64(y)
	case int32:
		return int64(y)
	case uint:
		return uint64(y)
	case uint8:
		return uint64(y)
	case uint16:
		return uint64(y)
	case uint32:
		return uint64(y)
	case uintptr:
		return uint64(y)
	case float32:
		return float64(y)
	case complex64:
		return complex128(y)
	}
	panic(fmt.Sprintf("cannot widen %T", x))
}

// conv converts the value x of type t_src to type t_dst and returns
// the result.
// Possible cases are described with the ssa.Convert operator.
func conv(t_dst, t_src types.Type, x value) value {
	ut_src := t_src.Underlying()
	ut_dst := t_dst.Underlying()

	// Destination type is not an "untyped" type.
	if b, ok := ut_dst.(*types.Basic); ok && b.Info()&types.IsUntyped != 0 {
		panic("oops: conversion to 'untyped' type: " + b.String())
	}

	// Nor is it an interface type.
	if _, ok := ut_dst.(*types.Interface); ok {
		if _, ok := ut_src.(*types.Interface); ok {
			panic("oops: Convert should be ChangeInterface")
		} else {
			panic("oops: Convert should be MakeInterface")
		}
	}

	// Remaining conversions:
	//    + untyped string/number/bool constant to a specific
	//      representation.
	//    + conversions between non-complex numeric types.
	//    + conversions between complex numeric types.
	//    + integer/[]byte/[]rune -> string.
	//    + string -> []byte/[]rune.
	//
	// All are treated the same: first we extract the value to the
	// widest representation (int64, uint64, float64, complex128,
	// or string), then we convert it to the desired type.

	if sx, ok := x.(sym); ok {
		return symConv(sx, ut_dst, ut_src)
	}
	if ss, ok := x.(symstr); ok {
		switch ut_dst := ut_dst.(type) {
		case *types.Slice:
			if ut_dst.Elem().Underlying().(*types.Basic).Kind() == types.Byte {
				res := make([]value, len(ss))
				copy(res, ss)
				return res
			}
		case *types.Basic:
			if ut_dst.Kind() == types.String {
				return ss
			}
		}
		panic(internalError{fmt.Sprintf("unsupported conversion of symbolic string to %s", t_dst)})
	}

	switch ut_src := ut_src.(type) {
	case *types.Pointer:
		switch ut_dst := ut_dst.(type) {
		case *types.Basic:
			// *value to unsafe.Pointer?
			if ut_dst.Kind() == types.UnsafePointer {
				return unsafe.Pointer(x.(*value))
			}
		}

	case *types.Slice:
		// []byte or []rune -> string
		switch ut_src.Elem().Underlying().(*types.Basic).Kind() {
		case types.Byte:
			x := x.([]value)
			ss := make(symstr, len(x))
			copy(ss, x)
			return normStr(ss)

		case types.Rune:
			x := x.([]value)
			r := make([]rune, 0, len(x))
			for i := range x {
				r = append(r, x[i].(rune))
			}
			return string(r)
		}

	case *types.Basic:
		x = widen(x)

		// integer -> string?
		if ut_src.Info()&types.IsInteger != 0 {
			if ut_dst, ok := ut_dst.(*types.Basic); ok && ut_dst.Kind() == types.String {
				return fmt.Sprintf("%c", x)
			}
		}

		// string -> []rune, []byte or string?
		if s, ok := x.(string); ok {
			switch ut_dst := ut_dst.(type) {
			case *types.Slice:
				res := []value{} // Go: []byte("") and []rune("") are non-nil empty slices
				switch ut_dst.Elem().Underlying().(*types.Basic).Kind() {
				case types.Rune:
					for _, r := range []rune(s) {
						res = append(res, r)
					}
					return res
				case types.Byte:
					for _, b := range []byte(s) {
						res = append(res, b)
					}
					return res
				}
			case *types.Basic:
				if ut_dst.Kind() == types.String {
					return x.(string)
				}
			}
			break // fail: no other conversions for string
		}

		// unsafe.Pointer -> *value
		if ut_src.Kind() == types.UnsafePointer {
			// TODO(adonovan): this is wrong and cannot
			// really be fixed with the current design.
			//
			// return (*value)(x.(unsafe.Pointer))
			// creates a new pointer of a different
			// type but the underlying interface value
			// knows its "true" type and so cannot be
			// meaningfully used through the new pointer.
			//
			// To make this work, the interpreter needs to
			// simulate the memory layout of a real
			// compiled implementation.
			//
			// gsx: a *T that went through unsafe.Pointer and comes back as *T
			// (sync/atomic.Pointer[T], atomic.Load/StorePointer) is the same cell;
			// reinterpretation as another pointee type is not supported and would
			// show up as a dynamic type error of the interpreter, not silently.
			if _, isPtr := ut_dst.(*types.Pointer); isPtr {
				if up, ok := x.(unsafe.Pointer); ok {
					return (*value)(up)
				}
			}
			return zero(t_dst)
		}

		// Conversions between complex numeric types?
		if ut_src.Info()&types.IsComplex != 0 {
			switch ut_dst.(*types.Basic).Kind() {
			case types.Complex64:
				return complex64(x.(complex128))
			case types.Complex128:
				return x.(complex128)
			}
			break // fail: no other conversions for complex
		}

		// Conversions between non-complex numeric types?
		if ut_src.Info()&types.IsNumeric != 0 {
			kind := ut_dst.(*types.Basic).Kind()
			switch x := x.(type) {
			case int64: // signed integer -> numeric?
				switch kind {
				case types.Int:
					return int(x)
				case types.Int8:
					return int8(x)
				case types.Int16:
					return int16(x)
				case types.Int32:
					return int32(x)
				case types.Int64:
					return int64(x)
				case types.Uint:
					return uint(x)
				case types.Uint8:
					return uint8(x)
				case types.Uint16:
					return uint16(x)
				case types.Uint32:
					return uint32(x)
				case types.Uint64:
					return uint64(x)
				case types.Uintptr:
					return uintptr(x)
				case types.Float32:
					return float32(x)
				case types.Float64:
					return float64(x)
				}

			case uint64: // unsigned integer -> numeric?
				switch kind {
				case types.Int:
					return int(x)
				case types.Int8:
					return int8(x)
				case types.Int16:
					return int16(x)
				case types.Int32:
					return int32(x)
				case types.Int64:
					return int64(x)
				case types.Uint:
					return uint(x)
				case types.Uint8:
					return uint8(x)
				case types.Uint16:
					return uint16(x)
				case types.Uint32:
					return uint32(x)
				case types.Uint64:
					return uint64(x)
				case types.Uintptr:
					return uintptr(x)
				case types.Float32:
					return float32(x)
				case types.Float64:
					return float64(x)
				}

			case float64: // floating point -> numeric?
				switch kind {
				case types.Int:
					return int(x)
				case types.Int8:
					return int8(x)
				case types.Int16:
					return int16(x)
				case types.Int32:
					return int32(x)
				case types.Int64:
					return int64(x)
				case types.Uint:
					return uint(x)
				case types.Uint8:
					return uint8(x)
				case types.Uint16:
					return uint16(x)
				case types.Uint32:
					return uint32(x)
				case types.Uint64:
					return uint64(x)
				case types.Uintptr:
					return uintptr(x)
				case types.Float32:
					return float32(x)
				case types.Float64:
					return float64(x)
				}
			}
		}
	}

	panic(fmt.Sprintf("unsupported conversion: %s  -> %s, dynamic type %T", t_src, t_dst, x))
}

// sliceToArrayPointer converts the value x of type slice to type t_dst
// a pointer to array and returns the result.
func sliceToArrayPointer(t_dst, t_src types.Type, x value) value {
	if _, ok := t_src.Underlying().(*types.Slice); ok {
		if ptr, ok := t_dst.Underlying().(*types.Pointer); ok {
			if arr, ok := ptr.Elem().Underlying().(*types.Array); ok {
				x := x.([]value)
				if arr.Len() > int64(len(x)) {
					panic(targetPanic{runtimeErr("cannot convert slice to array pointer: array length is greater than slice length")})
				}
				if x == nil {
					return zero(t_dst)
				}
				v := value(array(x[:arr.Len()]))
				return &v
			}
		}
	}

	panic(fmt.Sprintf("unsupported conversion: %s  -> %s, dynamic type %T", t_src, t_dst, x))
}

// checkInterface checks that the method set of x implements the
// interface itype.
// On success it returns "", on failure, an error message.
func checkInterface(itype *types.Interface, x iface) string {
	if meth, _ := types.MissingMethod(x.t, itype, true); meth != nil {
		return fmt.Sprintf("interface conversion: %v is not %v: missing method %s",
			x.t, itype, meth.Name())
	}
	return "" // ok
}

func foldLeft(op func(value, value) value, args []value) value {
	x := args[0]
	for _, arg := range args[1:] {
		x = op(x, arg)
	}
	return x
}

func minV(x, y value) value {
	switch x := x.(type) {
	case float32:
		return fmin(x, y.(float32))
	case float64:
		return fmin(x, y.(float64))
	}

	// return (y < x) ? y : x
	c := binop(token.LSS, nil, y, x)
	if sc, ok := c.(sym); ok {
		m := sc.m
		return m.mkSym(m.tt.ite(sc.t, m.toTerm(y), m.toTerm(x)), valueKind(x))
	}
	if c.(bool) {
		return y
	}
	return x
}

func maxV(x, y value) value {
	switch x := x.(type) {
	case float32:
		return fmax(x, y.(float32))
	case float64:
		return fmax(x, y.(float64))
	}

	// return (y > x) ? y : x
	c := binop(token.GTR, nil, y, x)
	if sc, ok := c.(sym); ok {
		m := sc.m
		return m.mkSym(m.tt.ite(sc.t, m.toTerm(y), m.toTerm(x)), valueKind(x))
	}
	if c.(bool) {
		return y
	}
	return x
}

// copied from $GOROOT/src/runtime/minmax.go

type floaty interface{ ~float32 | ~float64 }

func fmin[F floaty](x, y F) F {
	if y != y || y < x {
		return y
	}
	if x != x || x < y || x != 0 {
		return x
	}
	// x and y are both ±0
	// if either is -0, return -0; else return +0
	return forbits(x, y)
}

func fmax[F floaty](x, y F) F {
	if y != y || y > x {
		return y
	}
	if x != x || x > y || x != 0 {
		return x
	}
	// x and y are both ±0
	// if both are -0, return -0; else return +0
	return fandbits(x, y)
}

func forbits[F floaty](x, y F) F {
	switch unsafe.Sizeof(x) {
	case 4:
		*(*uint32)(unsafe.Pointer(&x)) |= *(*uint32)(unsafe.Pointer(&y))
	case 8:
		*(*uint64)(unsafe.Pointer(&x)) |= *(*uint64)(unsafe.Pointer(&y))
	}
	return x
}

func fandbits[F floaty](x, y F) F {
	switch unsafe.Sizeof(x) {
	case 4:
		*(*uint32)(unsafe.Pointer(&x)) &= *(*uint32)(unsafe.Pointer(&y))
	case 8:
		*(*uint64)(unsafe.Pointer(&x)) &= *(*uint64)(unsafe.Pointer(&y))
	}
	return x
}

// mapOrderApplies reports whether ranging over a map in fr's function explores all orders.
func (m *machine) mapOrderApplies(fr *frame) bool {
	if m.mapOrderNondet {
		return true
	}
	if len(m.mapOrderFuncs) == 0 || fr.fn == nil {
		return false
	}
	name := fr.fn.String()
	for _, f := range m.mapOrderFuncs {
		if strings.Contains(name, f) {
			return true
		}
	}
	return false
}
