package main

// Intrinsics, part 2: fmt, errors.As, sync, sync/atomic, time, slog.

import (
	"fmt"
	"go/token"
	"go/types"
	"strings"

	"golang.org/x/tools/go/ssa"
)

func init() {
	for k, v := range map[string]externalFn{
		"fmt.Sprintf":  extSprintf,
		"fmt.Errorf":   extErrorf,
		"fmt.Sprint":   extSprint,
		"fmt.Sprintln": extSprint,
		"fmt.Fprintf":  extFprintf,
		"fmt.Appendf":  extAppendf,
		"fmt.Println":  noop2,
		"fmt.Printf":   noop2,
		"errors.As":    extErrorsAs,
		"(*errors.joinError).Error": extJoinErrorError,

		"(*sync.Mutex).Lock":      extMutexLock,
		"(*sync.Mutex).Unlock":    extMutexUnlock,
		"(*sync.Mutex).TryLock":   extMutexTryLock,
		"(*sync.RWMutex).Lock":    extMutexLock,
		"(*sync.RWMutex).Unlock":  extMutexUnlock,
		"(*sync.RWMutex).RLock":   extRLock,
		"(*sync.RWMutex).RUnlock": extRUnlock,
		"(*sync.Once).Do":         extOnceDo,
		"(*sync.WaitGroup).Add":   extWGAdd,
		"(*sync.WaitGroup).Done":  extWGDone,
		"(*sync.WaitGroup).Wait":  extWGWait,
		"(*sync.WaitGroup).Go":    extWGGo,
		"(*sync.Pool).Get":        extPoolGet,
		"(*sync.Pool).Put":        noop,

		"(*sync/atomic.Value).Load":           extAtomicValueLoad,
		"(*sync/atomic.Value).Store":          extAtomicValueStore,
		"sync/atomic.AddInt32":                extAtomicAdd,
		"sync/atomic.AddInt64":                extAtomicAdd,
		"sync/atomic.AddUint32":               extAtomicAdd,
		"sync/atomic.AddUint64":               extAtomicAdd,
		"sync/atomic.LoadInt32":               extAtomicLoad,
		"sync/atomic.LoadInt64":               extAtomicLoad,
		"sync/atomic.LoadUint32":              extAtomicLoad,
		"sync/atomic.LoadUint64":              extAtomicLoad,
		"sync/atomic.LoadPointer":             extAtomicLoad,
		"sync/atomic.StorePointer":            extAtomicStore,
		"sync/atomic.SwapPointer":             extAtomicSwap,
		"sync/atomic.CompareAndSwapPointer":   extAtomicCAS,
		"sync/atomic.StoreInt32":              extAtomicStore,
		"sync/atomic.StoreInt64":              extAtomicStore,
		"sync/atomic.StoreUint32":             extAtomicStore,
		"sync/atomic.StoreUint64":             extAtomicStore,
		"sync/atomic.CompareAndSwapInt32":     extAtomicCAS,
		"sync/atomic.CompareAndSwapInt64":     extAtomicCAS,
		"sync/atomic.CompareAndSwapUint32":    extAtomicCAS,
		"sync/atomic.CompareAndSwapUint64":    extAtomicCAS,
		"sync/atomic.SwapInt32":               extAtomicSwap,
		"sync/atomic.SwapInt64":               extAtomicSwap,
		"sync/atomic.SwapUint32":              extAtomicSwap,
		"sync/atomic.SwapUint64":              extAtomicSwap,

		"time.Now":             extTimeNow,
		"time.Since":           func(fr *frame, args []value) value { return int64(0) },
		"time.Until":           func(fr *frame, args []value) value { return int64(0) },
		"time.NewTimer":        extNewTimer,
		"time.After":           extTimeAfter,
		"(*time.Timer).Stop":   extTimerStop,
		"(*time.Timer).Reset":  extTimerReset,
		"time.Sleep":           extGosched,
		"time.AfterFunc":       extAfterFunc,
	} {
		externals[k] = v
	}
}

func noop2(fr *frame, args []value) value { return tuple{0, iface{}} }

// ---- fmt

func hasMethod(fr *frame, t types.Type, name string) *ssa.Function {
	if t == nil || t == rtypeNamed {
		return nil
	}
	ms := fr.i.prog.MethodSets.MethodSet(t)
	for i := 0; i < ms.Len(); i++ {
		sel := ms.At(i)
		if sel.Obj().Name() == name {
			sig := sel.Type().(*types.Signature)
			if sig.Params().Len() == 0 && sig.Results().Len() == 1 {
				if b, ok := sig.Results().At(0).Type().Underlying().(*types.Basic); ok && b.Kind() == types.String {
					return fr.i.prog.MethodValue(sel)
				}
			}
		}
	}
	return nil
}

// methodByName finds an exported method in t's method set (nil if absent).
func methodByName(fr *frame, t types.Type, name string) *ssa.Function {
	if t == nil || t == rtypeNamed {
		return nil
	}
	ms := fr.i.prog.MethodSets.MethodSet(t)
	for i := 0; i < ms.Len(); i++ {
		if sel := ms.At(i); sel.Obj().Name() == name {
			return fr.i.prog.MethodValue(sel)
		}
	}
	return nil
}

func bytesOf(v []value) ([]byte, bool) {
	b := make([]byte, len(v))
	for i, e := range v {
		c, ok := e.(uint8)
		if !ok {
			return nil, false
		}
		b[i] = c
	}
	return b, true
}

// fmtArg renders one operand.
func fmtArg(fr *frame, spec string, verb byte, arg value) string {
	it, isIface := arg.(iface)
	if !isIface {
		it = iface{t: nil, v: arg}
	}
	if isIface && it.t == nil {
		if verb == 'v' || verb == 's' {
			return "<nil>"
		}
		return "%!" + string(verb) + "(<nil>)"
	}
	if verb == 'T' {
		if it.t != nil {
			return it.t.String()
		}
		return "?"
	}
	if verb == 'v' || verb == 's' || verb == 'q' {
		if it.t != nil {
			if _, isPtr := it.v.(*value); !isPtr || it.v.(*value) != nil {
				for _, mname := range []string{"Error", "String"} {
					if f := hasMethod(fr, it.t, mname); f != nil {
						r := call(fr.i, fr, token.NoPos, f, []value{it.v})
						if s, ok := r.(string); ok {
							if verb == 'q' {
								return fmt.Sprintf("%q", s)
							}
							return s
						}
						return "<sym>"
					}
				}
			}
		}
	}
	switch v := it.v.(type) {
	case sym, symstr:
		return "<sym>"
	case bool, int, int8, int16, int32, int64, uint, uint8, uint16, uint32, uint64, uintptr, float32, float64, string:
		return fmt.Sprintf(spec, v)
	case []value:
		// []byte?
		isBytes := false
		if it.t != nil {
			if sl, ok := it.t.Underlying().(*types.Slice); ok {
				if b, ok := sl.Elem().Underlying().(*types.Basic); ok && b.Kind() == types.Uint8 {
					isBytes = true
				}
			}
		}
		if isBytes {
			if b, ok := bytesOf(v); ok {
				return fmt.Sprintf(spec, b)
			}
			return "<sym>"
		}
		var parts []string
		for _, e := range v {
			parts = append(parts, fmtArg(fr, "%v", 'v', e))
		}
		return "[" + strings.Join(parts, " ") + "]"
	case *value:
		if v == nil {
			return "<nil>"
		}
		return "0xc000000000"
	}
	return toString(it.v)
}

// formatMsg implements the subset of fmt verbs used by the executed code.
func formatMsg(fr *frame, format string, args []value) (string, []value) {
	var sb strings.Builder
	var wrapped []value
	ai := 0
	for i := 0; i < len(format); i++ {
		c := format[i]
		if c != '%' {
			sb.WriteByte(c)
			continue
		}
		j := i + 1
		for j < len(format) && strings.IndexByte("+-# 0123456789.", format[j]) >= 0 {
			j++
		}
		if j >= len(format) {
			sb.WriteString("%!(NOVERB)")
			break
		}
		verb := format[j]
		if verb == '%' {
			sb.WriteByte('%')
			i = j
			continue
		}
		spec := format[i : j+1]
		i = j
		if ai >= len(args) {
			sb.WriteString("%!" + string(verb) + "(MISSING)")
			continue
		}
		arg := args[ai]
		ai++
		if verb == 'w' {
			wrapped = append(wrapped, arg)
			spec = "%v"
			verb = 'v'
		}
		sb.WriteString(fmtArg(fr, spec, verb, arg))
	}
	return sb.String(), wrapped
}

func extSprintf(fr *frame, args []value) value {
	s, _ := formatMsg(fr, strArg(args[0]), args[1].([]value))
	return s
}

func extSprint(fr *frame, args []value) value {
	var parts []string
	for _, a := range args[0].([]value) {
		parts = append(parts, fmtArg(fr, "%v", 'v', a))
	}
	return strings.Join(parts, " ")
}

func extAppendf(fr *frame, args []value) value {
	s, _ := formatMsg(fr, strArg(args[1]), args[2].([]value))
	b := args[0].([]value)
	for i := 0; i < len(s); i++ {
		b = append(b, s[i])
	}
	return b
}

// extFprintf writes through the io.Writer's Write method.
func extFprintf(fr *frame, args []value) value {
	s, _ := formatMsg(fr, strArg(args[1]), args[2].([]value))
	w := args[0].(iface)
	wf := methodByName(fr, w.t, "Write")
	if wf == nil {
		panic(internalError{"fmt.Fprintf: writer without Write"})
	}
	buf := make([]value, len(s))
	for i := 0; i < len(s); i++ {
		buf[i] = s[i]
	}
	r := call(fr.i, fr, token.NoPos, wf, []value{w.v, buf})
	return r
}

func (in *interpreter) namedType(pkg, name string) types.Type {
	p := in.prog.ImportedPackage(pkg)
	if p == nil {
		panic(internalError{"package not loaded: " + pkg})
	}
	t := p.Type(name)
	if t == nil {
		panic(internalError{"type not found: " + pkg + "." + name})
	}
	return t.Object().Type()
}

func extErrorf(fr *frame, args []value) value {
	msg, wrapped := formatMsg(fr, strArg(args[0]), args[1].([]value))
	switch len(wrapped) {
	case 0:
		t := fr.i.namedType("errors", "errorString")
		p := new(value)
		*p = structure{msg}
		return iface{t: types.NewPointer(t), v: p}
	case 1:
		w, _ := wrapped[0].(iface)
		t := fr.i.namedType("fmt", "wrapError")
		p := new(value)
		*p = structure{msg, w}
		return iface{t: types.NewPointer(t), v: p}
	}
	t := fr.i.namedType("fmt", "wrapErrors")
	p := new(value)
	var errs []value
	for _, w := range wrapped {
		errs = append(errs, w)
	}
	*p = structure{msg, errs}
	return iface{t: types.NewPointer(t), v: p}
}

// ---- errors.As

func extErrorsAs(fr *frame, args []value) value {
	err, _ := args[0].(iface)
	target, _ := args[1].(iface)
	if target.t == nil {
		panic(targetPanic{iface{types.Typ[types.String], "errors: target cannot be nil"}})
	}
	pt, ok := target.t.Underlying().(*types.Pointer)
	tp, _ := target.v.(*value)
	if !ok || tp == nil {
		panic(targetPanic{iface{types.Typ[types.String], "errors: target must be a non-nil pointer"}})
	}
	T := pt.Elem()
	_, targetIsIface := T.Underlying().(*types.Interface)
	return errorsAs(fr, err, T, targetIsIface, tp, target, 0)
}

func errorsAs(fr *frame, err iface, T types.Type, targetIsIface bool, tp *value, target iface, depth int) bool {
	for err.t != nil {
		if depth > 50 {
			panic(internalError{"errors.As: chain too deep"})
		}
		depth++
		if types.AssignableTo(err.t, T) {
			if targetIsIface {
				*tp = err
			} else {
				store(T, tp, err.v)
			}
			return true
		}
		if f := methodByName(fr, err.t, "As"); f != nil {
			if r, ok := call(fr.i, fr, token.NoPos, f, []value{err.v, target}).(bool); ok && r {
				return true
			}
		}
		f := methodByName(fr, err.t, "Unwrap")
		if f == nil {
			return false
		}
		switch r := call(fr.i, fr, token.NoPos, f, []value{err.v}).(type) {
		case iface:
			err = r
		case []value:
			for _, e := range r {
				if ei, ok := e.(iface); ok && ei.t != nil {
					if errorsAs(fr, ei, T, targetIsIface, tp, target, depth) {
						return true
					}
				}
			}
			return false
		default:
			return false
		}
	}
	return false
}

// ---- sync

func (m *machine) mutexOf(p *value) *mutexState {
	ms := m.mutexes[p]
	if ms == nil {
		ms = &mutexState{}
		m.mutexes[p] = ms
	}
	return ms
}

func extMutexLock(fr *frame, args []value) value {
	ms := fr.m.mutexOf(args[0].(*value))
	fr.m.blockUntil(fr.th, func() bool { return !ms.locked && ms.readers == 0 })
	ms.locked = true
	fr.th.hold(ms, 2)
	return nil
}

func extMutexTryLock(fr *frame, args []value) value {
	ms := fr.m.mutexOf(args[0].(*value))
	if ms.locked || ms.readers > 0 {
		return false
	}
	ms.locked = true
	fr.th.hold(ms, 2)
	return true
}

func extMutexUnlock(fr *frame, args []value) value {
	ms := fr.m.mutexOf(args[0].(*value))
	if !ms.locked {
		panic(targetPanic{iface{types.Typ[types.String], "fatal error: sync: unlock of unlocked mutex"}})
	}
	ms.locked = false
	fr.th.release(ms)
	return nil
}

func extRLock(fr *frame, args []value) value {
	ms := fr.m.mutexOf(args[0].(*value))
	fr.m.blockUntil(fr.th, func() bool { return !ms.locked })
	ms.readers++
	fr.th.hold(ms, 1)
	return nil
}

func extRUnlock(fr *frame, args []value) value {
	ms := fr.m.mutexOf(args[0].(*value))
	if ms.readers <= 0 {
		panic(targetPanic{iface{types.Typ[types.String], "fatal error: sync: RUnlock of unlocked RWMutex"}})
	}
	ms.readers--
	fr.th.release(ms)
	return nil
}

func extOnceDo(fr *frame, args []value) value {
	p := args[0].(*value)
	os := fr.m.onces[p]
	if os == nil {
		os = &onceState{}
		fr.m.onces[p] = os
	}
	if os.done {
		return nil
	}
	os.done = true
	call(fr.i, fr, token.NoPos, args[1], nil)
	return nil
}

func (m *machine) wgOf(p *value) *wgState {
	w := m.wgs[p]
	if w == nil {
		w = &wgState{}
		m.wgs[p] = w
	}
	return w
}

func extWGAdd(fr *frame, args []value) value {
	w := fr.m.wgOf(args[0].(*value))
	w.n += int(asInt64(args[1]))
	if w.n < 0 {
		panic(targetPanic{iface{types.Typ[types.String], "sync: negative WaitGroup counter"}})
	}
	return nil
}

func extWGDone(fr *frame, args []value) value {
	w := fr.m.wgOf(args[0].(*value))
	w.n--
	if w.n < 0 {
		panic(targetPanic{iface{types.Typ[types.String], "sync: negative WaitGroup counter"}})
	}
	return nil
}

func extWGWait(fr *frame, args []value) value {
	w := fr.m.wgOf(args[0].(*value))
	fr.m.blockUntil(fr.th, func() bool { return w.n == 0 })
	return nil
}

func extWGGo(fr *frame, args []value) value {
	w := fr.m.wgOf(args[0].(*value))
	w.n++
	fn := args[1]
	in, m := fr.i, fr.m
	m.startThread(in, "wg.Go@"+fr.where(), func(t *thread) {
		callOnThread(in, m, t, token.NoPos, fn, nil)
		w.n--
	})
	return nil
}

func extPoolGet(fr *frame, args []value) value {
	// type Pool struct { noCopy; local; localSize; victim; victimSize; New func() any }
	p := (*args[0].(*value)).(structure)
	newFn := p[len(p)-1]
	switch f := newFn.(type) {
	case *ssa.Function:
		if f == nil {
			return iface{}
		}
	case nil:
		return iface{}
	}
	return call(fr.i, fr, token.NoPos, newFn, nil)
}

// ---- sync/atomic (one thread runs at a time, so plain operations are atomic)

func extAtomicValueLoad(fr *frame, args []value) value {
	s := (*args[0].(*value)).(structure)
	return s[0]
}

func extAtomicValueStore(fr *frame, args []value) value {
	s := (*args[0].(*value)).(structure)
	if it, ok := args[1].(iface); ok && it.t == nil {
		panic(targetPanic{iface{types.Typ[types.String], "sync/atomic: store of nil value into Value"}})
	}
	s[0] = args[1]
	return nil
}

func extAtomicAdd(fr *frame, args []value) value {
	p := args[0].(*value)
	fr.m.maybePreempt(fr.th)
	*p = binop(token.ADD, nil, *p, args[1])
	return *p
}

func extAtomicLoad(fr *frame, args []value) value {
	fr.m.maybePreempt(fr.th)
	return *args[0].(*value)
}

func extAtomicStore(fr *frame, args []value) value {
	fr.m.maybePreempt(fr.th)
	*args[0].(*value) = args[1]
	return nil
}

func extAtomicSwap(fr *frame, args []value) value {
	fr.m.maybePreempt(fr.th)
	p := args[0].(*value)
	old := *p
	*p = args[1]
	return old
}

func extAtomicCAS(fr *frame, args []value) value {
	fr.m.maybePreempt(fr.th)
	p := args[0].(*value)
	if fr.decideV(equalsV(nil, *p, args[1])) {
		*p = args[2]
		return true
	}
	return false
}

// ---- time

func extTimeNow(fr *frame, args []value) value {
	return zero(fr.i.namedType("time", "Time"))
}

func (m *machine) newTimerChan(fr *frame) *channel {
	ch := m.newChan(1)
	ch.mayFire = true
	ch.fireVal = zero(fr.i.namedType("time", "Time"))
	return ch
}

func extNewTimer(fr *frame, args []value) value {
	// type Timer struct { C <-chan Time; initTimer bool }
	ch := fr.m.newTimerChan(fr)
	st := zero(fr.i.namedType("time", "Timer")).(structure)
	st[0] = ch
	p := new(value)
	*p = st
	return p
}

func extTimeAfter(fr *frame, args []value) value {
	return fr.m.newTimerChan(fr)
}

// Stop follows the Go >= 1.23 timer contract (synchronous channel): after Stop no
// stale value is receivable; it reports true iff the timer had not fired yet.
func extTimerStop(fr *frame, args []value) value {
	st := (*args[0].(*value)).(structure)
	ch, _ := st[0].(*channel)
	if ch == nil {
		return false
	}
	was := !ch.stopped
	ch.stopped = true
	ch.buf = nil
	return was
}

func extTimerReset(fr *frame, args []value) value {
	st := (*args[0].(*value)).(structure)
	ch, _ := st[0].(*channel)
	if ch == nil {
		return false
	}
	was := !ch.stopped
	ch.stopped = false
	ch.buf = nil
	return was
}

// AfterFunc: the function may run at any later point: modelled as a thread that is runnable immediately.
func extAfterFunc(fr *frame, args []value) value {
	fn := args[1]
	in, m := fr.i, fr.m
	m.startThread(in, "time.AfterFunc@"+fr.where(), func(t *thread) {
		callOnThread(in, m, t, token.NoPos, fn, nil)
	})
	st := zero(fr.i.namedType("time", "Timer")).(structure)
	p := new(value)
	*p = st
	return p
}

// extJoinErrorError: (*errors.joinError).Error builds its result with unsafe.String; same text here.
func extJoinErrorError(fr *frame, args []value) value {
	st := (*args[0].(*value)).(structure)
	errs, _ := st[0].([]value)
	var parts []string
	for _, e := range errs {
		parts = append(parts, fmtArg(fr, "%v", 'v', e))
	}
	return strings.Join(parts, "\n")
}
