// Copyright 2013 The Go Authors. All rights reserved.
// Use of this source code is governed by a BSD-style
// license that can be found in the LICENSE file.
//
// Derived from golang.org/x/tools/go/ssa/interp (value.go, map.go); the value
// model was extended with symbolic scalars, insertion-ordered maps and
// interpreter-level channels.

package main

// Values
//
// All interpreter values are "boxed" in the empty interface, value.
// The range of possible dynamic types within value are:
//
// - bool
// - numbers (all built-in int/float/complex types are distinguished)
// - sym --- a symbolic scalar (bit-vector or Bool term) of a basic kind
// - string
// - symstr --- a string some of whose bytes are symbolic
// - *omap --- maps (insertion ordered)
// - *channel
// - []value --- slices
// - iface --- interfaces.
// - structure --- structs.  Fields are ordered and accessed by numeric indices.
// - array --- arrays.
// - *value --- pointers.  Careful: *value is a distinct type from *array etc.
// - *ssa.Function \
//   *ssa.Builtin   } --- functions.  A nil 'func' is always of type *ssa.Function.
//   *closure      /
// - tuple --- as returned by Return, Next, "value,ok" modes, etc.
// - iter --- iterators from 'range' over map or string.
// - bad --- a poison pill for locals that have gone out of scope.
// - rtype -- reflect.Type token
// - **deferred -- the address of a frame's defer stack for a Defer._Stack.

import (
	"bytes"
	"fmt"
	"go/types"
	"io"
	"strings"
	"unsafe"

	"golang.org/x/tools/go/ssa"
	"golang.org/x/tools/go/types/typeutil"
)

type value any

type tuple []value

type array []value

type iface struct {
	t types.Type // never an "untyped" type
	v value
}

type structure []value

// sym is a symbolic scalar. kind is the Go basic kind (Bool, Int, Uint8, ...).
type sym struct {
	t    *term
	kind types.BasicKind
	m    *machine
}

// symstr is a string with (some) symbolic bytes. Each element is uint8 or sym(Uint8).
type symstr []value

// For map, array, *array, slice, string or channel.
type iter interface {
	// next returns a Tuple (key, value, ok).
	next() tuple
}

type closure struct {
	Fn  *ssa.Function
	Env []value
}

type bad struct{}

type rtype struct {
	t types.Type
}

// Hash functions and equivalence relation:

func hashString(s string) int {
	var h uint32
	for i := 0; i < len(s); i++ {
		h ^= uint32(s[i])
		h *= 16777619
	}
	return int(h)
}

var hasher = typeutil.MakeHasher()

func hashType(t types.Type) int {
	return int(hasher.Hash(t))
}

// nil-tolerant variant of types.Identical.
func sameType(x, y types.Type) bool {
	if x == nil {
		return y == nil
	}
	return y != nil && types.Identical(x, y)
}

func kindWidth(k types.BasicKind) int {
	switch k {
	case types.Bool, types.UntypedBool:
		return 0
	case types.Int8, types.Uint8:
		return 8
	case types.Int16, types.Uint16:
		return 16
	case types.Int32, types.Uint32, types.UntypedRune:
		return 32
	case types.Int, types.Int64, types.Uint, types.Uint64, types.Uintptr, types.UntypedInt:
		return 64
	}
	panic(internalError{fmt.Sprintf("kindWidth: unsupported kind %v", k)})
}

func kindSigned(k types.BasicKind) bool {
	switch k {
	case types.Int, types.Int8, types.Int16, types.Int32, types.Int64, types.UntypedInt, types.UntypedRune:
		return true
	}
	return false
}

func valueKind(x value) types.BasicKind {
	switch x := x.(type) {
	case sym:
		return x.kind
	case bool:
		return types.Bool
	case int:
		return types.Int
	case int8:
		return types.Int8
	case int16:
		return types.Int16
	case int32:
		return types.Int32
	case int64:
		return types.Int64
	case uint:
		return types.Uint
	case uint8:
		return types.Uint8
	case uint16:
		return types.Uint16
	case uint32:
		return types.Uint32
	case uint64:
		return types.Uint64
	case uintptr:
		return types.Uintptr
	}
	panic(internalError{fmt.Sprintf("valueKind: not an integer/bool scalar: %T", x)})
}

// concreteOfKind boxes v as the Go type of the given basic kind.
func concreteOfKind(k types.BasicKind, v uint64) value {
	switch k {
	case types.Bool, types.UntypedBool:
		return v != 0
	case types.Int, types.UntypedInt:
		return int(v)
	case types.Int8:
		return int8(v)
	case types.Int16:
		return int16(v)
	case types.Int32, types.UntypedRune:
		return int32(v)
	case types.Int64:
		return int64(v)
	case types.Uint:
		return uint(v)
	case types.Uint8:
		return uint8(v)
	case types.Uint16:
		return uint16(v)
	case types.Uint32:
		return uint32(v)
	case types.Uint64:
		return v
	case types.Uintptr:
		return uintptr(v)
	}
	panic(internalError{fmt.Sprintf("concreteOfKind: unsupported kind %v", k)})
}

// toTerm lifts a concrete or symbolic scalar to a term.
func (m *machine) toTerm(x value) *term {
	switch x := x.(type) {
	case sym:
		return x.t
	case bool:
		return m.tt.boolc(x)
	}
	k := valueKind(x)
	return m.tt.bv(kindWidth(k), uint64(asInt64(x)))
}

// mkSym wraps a term as a value, collapsing constants to concrete values.
func (m *machine) mkSym(t *term, k types.BasicKind) value {
	if t.isConst() && t.w <= 64 {
		return concreteOfKind(k, t.cv)
	}
	if k == types.UntypedBool {
		k = types.Bool
	}
	return sym{t: t, kind: k, m: m}
}

func symOf(xs ...value) *machine {
	for _, x := range xs {
		if s, ok := x.(sym); ok {
			return s.m
		}
	}
	return nil
}

// hasSym reports whether v (deeply, by value — not through pointers) contains a symbolic scalar.
func hasSym(v value) bool {
	switch v := v.(type) {
	case sym:
		return true
	case symstr:
		return true
	case structure:
		for _, e := range v {
			if hasSym(e) {
				return true
			}
		}
	case array:
		for _, e := range v {
			if hasSym(e) {
				return true
			}
		}
	case iface:
		return hasSym(v.v)
	}
	return false
}

// equalsV returns x == y under Go's equivalence for type t as a value:
// a bool when decidable concretely, otherwise a sym Bool.
func equalsV(t types.Type, x, y value) value {
	if m := symOf(x, y); m != nil {
		return m.mkSym(m.tt.cmp("=", m.toTerm(x), m.toTerm(y)), types.Bool)
	}
	switch x := x.(type) {
	case bool:
		return x == y.(bool)
	case int:
		return x == y.(int)
	case int8:
		return x == y.(int8)
	case int16:
		return x == y.(int16)
	case int32:
		return x == y.(int32)
	case int64:
		return x == y.(int64)
	case uint:
		return x == y.(uint)
	case uint8:
		return x == y.(uint8)
	case uint16:
		return x == y.(uint16)
	case uint32:
		return x == y.(uint32)
	case uint64:
		return x == y.(uint64)
	case uintptr:
		return x == y.(uintptr)
	case float32:
		return x == y.(float32)
	case float64:
		return x == y.(float64)
	case complex64:
		return x == y.(complex64)
	case complex128:
		return x == y.(complex128)
	case string:
		switch y := y.(type) {
		case string:
			return x == y
		case symstr:
			return symstrEq(strToSym(x), y)
		}
	case symstr:
		switch y := y.(type) {
		case string:
			return symstrEq(x, strToSym(y))
		case symstr:
			return symstrEq(x, y)
		}
	case *value:
		return x == y.(*value)
	case *channel:
		return x == y.(*channel)
	case unsafe.Pointer:
		return x == y.(unsafe.Pointer)
	case structure:
		ys := y.(structure)
		tStruct := t.Underlying().(*types.Struct)
		var acc value = true
		for i, n := 0, tStruct.NumFields(); i < n; i++ {
			if f := tStruct.Field(i); f.Name() != "_" {
				acc = andV(acc, equalsV(f.Type(), x[i], ys[i]))
				if b, ok := acc.(bool); ok && !b {
					return false
				}
			}
		}
		return acc
	case array:
		ys := y.(array)
		tElt := t.Underlying().(*types.Array).Elem()
		var acc value = true
		for i, xi := range x {
			acc = andV(acc, equalsV(tElt, xi, ys[i]))
			if b, ok := acc.(bool); ok && !b {
				return false
			}
		}
		return acc
	case iface:
		yi := y.(iface)
		if !sameType(x.t, yi.t) {
			return false
		}
		if x.t == nil {
			return true
		}
		return equalsV(x.t, x.v, yi.v)
	case rtype:
		return types.Identical(x.t, y.(rtype).t)
	case *ssa.Function, *closure:
		// only reachable via interface comparison of func values: runtime panic in Go
		panic(targetPanic{runtimeErr("comparing uncomparable type " + t.String())})
	}
	panic(targetPanic{runtimeErr(fmt.Sprintf("comparing uncomparable type %s", t))})
}

func andV(a, b value) value {
	if ab, ok := a.(bool); ok {
		if !ab {
			return false
		}
		return b
	}
	if bb, ok := b.(bool); ok {
		if !bb {
			return false
		}
		return a
	}
	m := symOf(a, b)
	return m.mkSym(m.tt.and(a.(sym).t, b.(sym).t), types.Bool)
}

func orV(a, b value) value {
	if ab, ok := a.(bool); ok {
		if ab {
			return true
		}
		return b
	}
	if bb, ok := b.(bool); ok {
		if bb {
			return true
		}
		return a
	}
	m := symOf(a, b)
	return m.mkSym(m.tt.or(a.(sym).t, b.(sym).t), types.Bool)
}

func notV(a value) value {
	if ab, ok := a.(bool); ok {
		return !ab
	}
	s := a.(sym)
	return s.m.mkSym(s.m.tt.not(s.t), types.Bool)
}

func strToSym(s string) symstr {
	r := make(symstr, len(s))
	for i := 0; i < len(s); i++ {
		r[i] = s[i]
	}
	return r
}

// normStr collapses a symstr without symbolic bytes to a native string.
func normStr(s symstr) value {
	b := make([]byte, len(s))
	for i, e := range s {
		c, ok := e.(uint8)
		if !ok {
			return s
		}
		b[i] = c
	}
	return string(b)
}

func symstrEq(a, b symstr) value {
	if len(a) != len(b) {
		return false
	}
	var acc value = true
	for i := range a {
		acc = andV(acc, equalsV(nil, a[i], b[i]))
		if bb, ok := acc.(bool); ok && !bb {
			return false
		}
	}
	return acc
}

// hash returns an integer hash of a fully concrete x such that equals(x, y) => hash(x) == hash(y).
func hash(outer, t types.Type, x value) int {
	switch x := x.(type) {
	case bool:
		if x {
			return 1
		}
		return 0
	case int:
		return x
	case int8:
		return int(x)
	case int16:
		return int(x)
	case int32:
		return int(x)
	case int64:
		return int(x)
	case uint:
		return int(x)
	case uint8:
		return int(x)
	case uint16:
		return int(x)
	case uint32:
		return int(x)
	case uint64:
		return int(x)
	case uintptr:
		return int(x)
	case float32:
		return int(x)
	case float64:
		return int(x)
	case complex64:
		return int(real(x))
	case complex128:
		return int(real(x))
	case string:
		return hashString(x)
	case *value:
		return int(uintptr(unsafe.Pointer(x)))
	case *channel:
		return int(uintptr(unsafe.Pointer(x)))
	case structure:
		tStruct := t.Underlying().(*types.Struct)
		h := 0
		for i, n := 0, tStruct.NumFields(); i < n; i++ {
			if f := tStruct.Field(i); f.Name() != "_" {
				h = h*31 + hash(outer, f.Type(), x[i])
			}
		}
		return h
	case array:
		h := 0
		tElt := t.Underlying().(*types.Array).Elem()
		for _, xi := range x {
			h = h*31 + hash(outer, tElt, xi)
		}
		return h
	case iface:
		if x.t == nil {
			return 0
		}
		return hashType(x.t)*8581 + hash(outer, x.t, x.v)
	case rtype:
		return hashType(x.t)
	}
	panic(targetPanic{runtimeErr(fmt.Sprintf("hash of unhashable type %v", outer))})
}

// ---- insertion-ordered map

type mapEntry struct {
	key     value
	val     value
	deleted bool
}

type omap struct {
	keyType types.Type
	entries []mapEntry
	index   map[int][]int // hash -> entry indices (concrete keys only)
	symKeys []int         // entry indices whose key has symbolic parts
	length  int
}

func makeMap(kt types.Type) *omap {
	return &omap{keyType: kt, index: map[int][]int{}}
}

// find returns the entry index for key k or -1. fr may be used to decide symbolic equalities.
func (m *omap) find(fr *frame, k value) int {
	if m == nil {
		return -1
	}
	if !hasSym(k) {
		h := hash(m.keyType, m.keyType, k)
		for _, idx := range m.index[h] {
			e := &m.entries[idx]
			if !e.deleted {
				if b, ok := equalsV(m.keyType, k, e.key).(bool); ok && b {
					return idx
				}
			}
		}
		// compare against symbolic keys
		for _, idx := range m.symKeys {
			e := &m.entries[idx]
			if !e.deleted && fr.decideV(equalsV(m.keyType, k, e.key)) {
				return idx
			}
		}
		return -1
	}
	for idx := range m.entries {
		e := &m.entries[idx]
		if !e.deleted && fr.decideV(equalsV(m.keyType, k, e.key)) {
			return idx
		}
	}
	return -1
}

func (m *omap) lookup(fr *frame, k value) (value, bool) {
	if fr != nil && fr.m != nil && fr.m.raceOn {
		fr.m.noteMap(fr, m, false)
	}
	idx := m.find(fr, k)
	if idx < 0 {
		return nil, false
	}
	return m.entries[idx].val, true
}

func (m *omap) insert(fr *frame, k, v value) {
	if fr != nil && fr.m != nil && fr.m.raceOn {
		fr.m.noteMap(fr, m, true)
	}
	if m == nil {
		panic(targetPanic{runtimeErr("assignment to entry in nil map")})
	}
	if idx := m.find(fr, k); idx >= 0 {
		m.entries[idx].val = v
		return
	}
	idx := len(m.entries)
	m.entries = append(m.entries, mapEntry{key: k, val: v})
	if hasSym(k) {
		m.symKeys = append(m.symKeys, idx)
	} else {
		h := hash(m.keyType, m.keyType, k)
		m.index[h] = append(m.index[h], idx)
	}
	m.length++
}

func (m *omap) delete(fr *frame, k value) {
	if fr != nil && fr.m != nil && fr.m.raceOn {
		fr.m.noteMap(fr, m, true)
	}
	if m == nil {
		return
	}
	if idx := m.find(fr, k); idx >= 0 {
		m.entries[idx].deleted = true
		m.entries[idx].val = nil
		m.length--
	}
}

func (m *omap) clear() {
	if m == nil {
		return
	}
	m.entries = nil
	m.index = map[int][]int{}
	m.symKeys = nil
	m.length = 0
}

func (m *omap) len() int {
	if m == nil {
		return 0
	}
	return m.length
}

// live returns the indices of live entries in insertion order.
func (m *omap) live() []int {
	if m == nil {
		return nil
	}
	var r []int
	for i := range m.entries {
		if !m.entries[i].deleted {
			r = append(r, i)
		}
	}
	return r
}

type omapIter struct {
	m     *omap
	order []int
	pos   int
}

func (it *omapIter) next() tuple {
	for it.pos < len(it.order) {
		idx := it.order[it.pos]
		it.pos++
		if idx < len(it.m.entries) && !it.m.entries[idx].deleted {
			e := it.m.entries[idx]
			return tuple{true, e.key, e.val}
		}
	}
	return tuple{false, nil, nil}
}

// load returns the value of type T in *addr.
func load(T types.Type, addr *value) value {
	switch T := T.Underlying().(type) {
	case *types.Struct:
		v := (*addr).(structure)
		a := make(structure, len(v))
		for i := range a {
			a[i] = load(T.Field(i).Type(), &v[i])
		}
		return a
	case *types.Array:
		v := (*addr).(array)
		a := make(array, len(v))
		for i := range a {
			a[i] = load(T.Elem(), &v[i])
		}
		return a
	default:
		return *addr
	}
}

// store stores value v of type T into *addr.
func store(T types.Type, addr *value, v value) {
	switch T := T.Underlying().(type) {
	case *types.Struct:
		lhs := (*addr).(structure)
		rhs := v.(structure)
		for i := range lhs {
			store(T.Field(i).Type(), &lhs[i], rhs[i])
		}
	case *types.Array:
		lhs := (*addr).(array)
		rhs := v.(array)
		for i := range lhs {
			store(T.Elem(), &lhs[i], rhs[i])
		}
	default:
		*addr = v
	}
}

// copyVal makes an unaliased copy of a value (structs/arrays are mutable aggregates).
func copyVal(v value) value {
	switch v := v.(type) {
	case structure:
		a := make(structure, len(v))
		for i := range v {
			a[i] = copyVal(v[i])
		}
		return a
	case array:
		a := make(array, len(v))
		for i := range v {
			a[i] = copyVal(v[i])
		}
		return a
	}
	return v
}

// Prints in the style of built-in println.
func writeValue(buf *bytes.Buffer, v value) {
	switch v := v.(type) {
	case nil, bool, int, int8, int16, int32, int64, uint, uint8, uint16, uint32, uint64, uintptr, float32, float64, complex64, complex128, string:
		fmt.Fprintf(buf, "%v", v)

	case sym:
		buf.WriteString("<sym ")
		buf.WriteString(v.t.String())
		buf.WriteString(">")

	case symstr:
		buf.WriteString("<symstr len ")
		fmt.Fprintf(buf, "%d>", len(v))

	case *omap:
		buf.WriteString("map[")
		sep := ""
		for _, idx := range v.live() {
			e := v.entries[idx]
			buf.WriteString(sep)
			sep = " "
			writeValue(buf, e.key)
			buf.WriteString(":")
			writeValue(buf, e.val)
		}
		buf.WriteString("]")

	case *channel:
		fmt.Fprintf(buf, "%p", v) // (an address)

	case *value:
		if v == nil {
			buf.WriteString("<nil>")
		} else {
			fmt.Fprintf(buf, "%p", v)
		}

	case iface:
		fmt.Fprintf(buf, "(%s, ", v.t)
		writeValue(buf, v.v)
		buf.WriteString(")")

	case structure:
		buf.WriteString("{")
		for i, e := range v {
			if i > 0 {
				buf.WriteString(" ")
			}
			writeValue(buf, e)
		}
		buf.WriteString("}")

	case array:
		buf.WriteString("[")
		for i, e := range v {
			if i > 0 {
				buf.WriteString(" ")
			}
			writeValue(buf, e)
		}
		buf.WriteString("]")

	case []value:
		buf.WriteString("[")
		for i, e := range v {
			if i > 0 {
				buf.WriteString(" ")
			}
			writeValue(buf, e)
		}
		buf.WriteString("]")

	case *ssa.Function, *ssa.Builtin, *closure:
		fmt.Fprintf(buf, "%p", v) // (an address)

	case rtype:
		buf.WriteString(v.t.String())

	case tuple:
		buf.WriteString("(")
		for i, e := range v {
			if i > 0 {
				buf.WriteString(", ")
			}
			writeValue(buf, e)
		}
		buf.WriteString(")")

	default:
		fmt.Fprintf(buf, "<%T>", v)
	}
}

func toString(v value) string {
	var b bytes.Buffer
	writeValue(&b, v)
	return b.String()
}

// ------------------------------------------------------------------------
// Iterators

type stringIter struct {
	*strings.Reader
	i int
}

func (it *stringIter) next() tuple {
	okv := make(tuple, 3)
	ch, n, err := it.ReadRune()
	ok := err != io.EOF
	okv[0] = ok
	if ok {
		okv[1] = it.i
		okv[2] = ch
	}
	it.i += n
	return okv
}

// symstrIter ranges over a symstr byte-wise; bytes are assumed ASCII (the
// executor adds that as a path assumption via decide when a byte is symbolic).
type symstrIter struct {
	fr *frame
	s  symstr
	i  int
}

func (it *symstrIter) next() tuple {
	if it.i >= len(it.s) {
		return tuple{false, nil, nil}
	}
	b := it.s[it.i]
	idx := it.i
	it.i++
	if sb, ok := b.(sym); ok {
		m := sb.m
		// multi-byte runes in symbolic strings are outside the model: restrict to ASCII
		if !it.fr.decide(m.tt.cmp("bvult", sb.t, m.tt.bv(8, 0x80))) {
			panic(pathAbort{kind: abortUnsupported, msg: "range over symbolic string with non-ASCII byte"})
		}
		return tuple{true, idx, m.mkSym(m.tt.zext(sb.t, 32), types.Int32)}
	}
	return tuple{true, idx, int32(b.(uint8))}
}
