package main

// Intrinsics for C14 (wire codec) and C20 (libp2p topic validator).
//
// encoding/json is reflection driven and is not executed. It is replaced by its
// CONTRACT on the intermediate json* structs of package tmjson:
//
//   * Marshal(v) succeeds and yields an opaque, non-empty byte string ("token") that
//     stands for the JSON text of v (a snapshot: later mutation of v is not seen);
//   * Unmarshal(token of a value of type T, *T) stores a copy of that value and returns
//     nil: Marshal-then-Unmarshal is the identity on the intermediate structs, nil and
//     empty slices preserved (as encoding/json does for []byte, slices of structs and
//     json.RawMessage with omitempty);
//   * Unmarshal(concrete bytes that are not valid JSON, _) returns an error and leaves
//     the target untouched (decided by running the real json.Valid on the bytes).
//
// Everything else (valid JSON text that is not a token, symbolic bytes, a token of a
// different type) is outside the model and ends the path as "unsupported".
// The native replay of every path runs the real encoding/json, which validates the
// contract on the witnesses.

import (
	"encoding/json"
	"fmt"
	"go/types"
)

func init() {
	externals["encoding/json.Marshal"] = extJSONMarshal
	externals["encoding/json.Unmarshal"] = extJSONUnmarshal
	// compiler intrinsic without a Go body (used by crypto/subtle.ConstantTimeCompare,
	// i.e. by ed25519.PublicKey.Equal): b ? 1 : 0
	externals["crypto/internal/constanttime.boolToUint8"] = func(fr *frame, args []value) value {
		switch b := args[0].(type) {
		case bool:
			if b {
				return uint8(1)
			}
			return uint8(0)
		case sym:
			m := b.m
			return m.mkSym(m.tt.ite(b.t, m.tt.bv(8, 1), m.tt.bv(8, 0)), types.Uint8)
		}
		panic(internalError{"constanttime.boolToUint8: not a bool"})
	}
}

// jsonTok is the single element of a token byte slice.
type jsonTok struct {
	t types.Type
	v value
}

// jsonSnapshot copies the parts of v that encoding/json would serialise.
func jsonSnapshot(v value) value {
	switch v := v.(type) {
	case structure:
		a := make(structure, len(v))
		for i := range v {
			a[i] = jsonSnapshot(v[i])
		}
		return a
	case array:
		a := make(array, len(v))
		for i := range v {
			a[i] = jsonSnapshot(v[i])
		}
		return a
	case []value:
		if v == nil {
			return []value(nil)
		}
		a := make([]value, len(v))
		for i := range v {
			a[i] = jsonSnapshot(v[i])
		}
		return a
	case jsonTok:
		return v
	case bool, int, int8, int16, int32, int64, uint, uint8, uint16, uint32, uint64, uintptr, string, sym, symstr:
		return v
	}
	panic(pathAbort{kind: abortUnsupported, msg: fmt.Sprintf("encoding/json contract: value of kind %T is outside the modelled intermediate structs", v)})
}

func extJSONMarshal(fr *frame, args []value) value {
	it, _ := args[0].(iface)
	if it.t == nil {
		panic(pathAbort{kind: abortUnsupported, msg: "encoding/json.Marshal(nil) not modelled"})
	}
	tok := jsonTok{t: it.t, v: jsonSnapshot(it.v)}
	return tuple{[]value{tok}, iface{}}
}

func extJSONUnmarshal(fr *frame, args []value) value {
	data, _ := args[0].([]value)
	target, _ := args[1].(iface)
	if len(data) == 1 {
		if tok, ok := data[0].(jsonTok); ok {
			pt, isPtr := target.t.Underlying().(*types.Pointer)
			tp, _ := target.v.(*value)
			if !isPtr || tp == nil || !types.Identical(pt.Elem(), tok.t) {
				panic(pathAbort{kind: abortUnsupported, msg: fmt.Sprintf("encoding/json.Unmarshal: token of %s into %s is outside the contract", tok.t, target.t)})
			}
			store(pt.Elem(), tp, jsonSnapshot(tok.v))
			return iface{}
		}
	}
	b, ok := bytesOf(data)
	if !ok {
		panic(pathAbort{kind: abortUnsupported, msg: "encoding/json.Unmarshal of symbolic bytes is outside the contract"})
	}
	if json.Valid(b) {
		panic(pathAbort{kind: abortUnsupported, msg: "encoding/json.Unmarshal of concrete valid JSON text is outside the contract"})
	}
	t := fr.i.namedType("encoding/json", "SyntaxError")
	p := new(value)
	*p = structure{"invalid JSON (contract)", int64(0)}
	return iface{t: types.NewPointer(t), v: p}
}
