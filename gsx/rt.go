package main

// Interception of the harness runtime (package verifrt).

import (
	"fmt"
	"go/token"
	"go/types"
	"strings"

	"golang.org/x/tools/go/ssa"
)

func strArg(v value) string {
	s, ok := v.(string)
	if !ok {
		panic(internalError{fmt.Sprintf("verifrt: name/label argument must be a concrete string, got %T", v)})
	}
	return s
}

func u64Term(m *machine, v value) *term {
	t := m.toTerm(v)
	if t.w == 0 {
		return m.tt.ite(t, m.tt.bv(64, 1), m.tt.bv(64, 0))
	}
	if t.w < 64 {
		return m.tt.zext(t, 64)
	}
	return t
}

func boolTerm(m *machine, v value) *term {
	switch v := v.(type) {
	case bool:
		return m.tt.boolc(v)
	case sym:
		if v.t.w != 0 {
			panic(internalError{"verifrt: expected bool"})
		}
		return v.t
	}
	panic(internalError{fmt.Sprintf("verifrt: expected bool, got %T", v)})
}

// callRT handles the primitives of verifrt; ok=false means "execute the SSA body".
func callRT(fr *frame, fn *ssa.Function, args []value) (value, bool) {
	m := fr.m
	switch fn.Name() {
	case "Symbolic":
		return true, true
	case "PrintStack":
		return nil, true
	case "MustReturn":
		return mustReturn(fr, strArg(args[0]), args[1]), true
	case "Thorough":
		return fr.i.thorough, true
	case "U64":
		return m.freshVar(strArg(args[0]), types.Uint64), true
	case "U32":
		return m.freshVar(strArg(args[0]), types.Uint32), true
	case "U16":
		return m.freshVar(strArg(args[0]), types.Uint16), true
	case "U8":
		return m.freshVar(strArg(args[0]), types.Uint8), true
	case "I64":
		return m.freshVar(strArg(args[0]), types.Int64), true
	case "Int":
		return m.freshVar(strArg(args[0]), types.Int), true
	case "Bool":
		return m.freshVar(strArg(args[0]), types.Bool), true
	case "Choose":
		n := int(asInt64(args[1]))
		if n <= 0 {
			panic(internalError{"verifrt.Choose: n must be positive"})
		}
		v := m.choose(n, "Choose:"+strArg(args[0]))
		m.choices = append(m.choices, choiceRec{Name: strArg(args[0]), N: n, V: v})
		return v, true
	case "UFBool", "UFU64", "UFU8":
		name := strArg(args[0])
		var ts []*term
		for _, a := range args[1].([]value) {
			ts = append(ts, u64Term(m, a))
		}
		switch fn.Name() {
		case "UFBool":
			return m.mkSym(m.tt.app(name, 0, ts), types.Bool), true
		case "UFU8":
			return m.mkSym(m.tt.app(name, 8, ts), types.Uint8), true
		}
		return m.mkSym(m.tt.app(name, 64, ts), types.Uint64), true
	case "Assume":
		m.assume(boolTerm(m, args[0]))
		return nil, true
	case "Assert":
		m.assert(args[0], strArg(args[1]))
		return nil, true
	case "Fail":
		m.assert(false, strArg(args[0]))
		return nil, true
	case "Reach":
		m.ensureFeasible()
		m.reach = append(m.reach, strArg(args[0]))
		return nil, true
	case "Observe":
		m.obs = append(m.obs, observation{label: strArg(args[0]), vals: append([]value(nil), args[1].([]value)...)})
		return nil, true
	case "ObserveBytes":
		b, _ := args[1].([]value)
		m.obs = append(m.obs, observation{label: strArg(args[0]), vals: append([]value(nil), b...), bytes: true})
		return nil, true
	case "Ite64", "IteInt":
		c := boolTerm(m, args[0])
		k := types.Uint64
		if fn.Name() == "IteInt" {
			k = types.Int
		}
		return m.mkSym(m.tt.ite(c, m.toTerm(args[1]), m.toTerm(args[2])), types.BasicKind(k)), true
	case "And":
		return m.mkSym(m.tt.and(boolTerm(m, args[0]), boolTerm(m, args[1])), types.Bool), true
	case "Or":
		return m.mkSym(m.tt.or(boolTerm(m, args[0]), boolTerm(m, args[1])), types.Bool), true
	case "Not":
		return m.mkSym(m.tt.not(boolTerm(m, args[0])), types.Bool), true
	case "Implies":
		return m.mkSym(m.tt.implies(boolTerm(m, args[0]), boolTerm(m, args[1])), types.Bool), true
	case "Iff":
		return m.mkSym(m.tt.cmp("=", boolTerm(m, args[0]), boolTerm(m, args[1])), types.Bool), true
	case "B2U":
		return m.mkSym(u64Term(m, args[0]), types.Uint64), true
	case "MapOrderNondet":
		m.mapOrderNondet = args[0].(bool)
		return nil, true
	case "Summarize":
		m.summarize[strArg(args[0])] = true
		return nil, true
	case "MapOrderFuncs":
		m.mapOrderFuncs = nil
		for _, f := range strings.Split(strArg(args[0]), ",") {
			if f != "" {
				m.mapOrderFuncs = append(m.mapOrderFuncs, f)
			}
		}
		return nil, true
	case "LocksetRace":
		m.raceOn = args[0].(bool)
		return nil, true
	case "SchedNondet":
		m.schedNondet = args[0].(bool)
		m.preemptBudget = int(asInt64(args[1]))
		return nil, true
	case "Logger":
		p := new(value)
		*p = structure{}
		return p, true
	case "PanicString":
		return panicMessage(args[0]), true
	case "load", "nextName", "ufLookup", "RunReplay":
		panic(internalError{"verifrt." + fn.Name() + " must not be reached under gsx"})
	}
	return nil, false
}

// mustReturn runs f with a tightened budget; exceeding it (in any thread) is the violation
// "does not return" (converted where the path is finished, see startThread).
func mustReturn(fr *frame, label string, f value) (returned bool) {
	m := fr.m
	saveDecs, saveSteps, saveLabel := m.maxDecs, m.maxSteps, m.wedgeLabel
	if lim := len(m.decs) + 400; lim < m.maxDecs {
		m.maxDecs = lim
	}
	if lim := m.steps + 400_000; lim < m.maxSteps {
		m.maxSteps = lim
	}
	m.wedgeLabel = label
	call(fr.i, fr, token.NoPos, f, nil)
	m.maxDecs, m.maxSteps, m.wedgeLabel = saveDecs, saveSteps, saveLabel
	return true
}
