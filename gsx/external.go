package main

// Intrinsics: functions that are not executed from their SSA because they
// are external (assembly, runtime, cgo), use unsafe/reflect, or are
// deliberately replaced by a model (DESIGN.md §2.5). Every entry here is
// part of the trusted base.

import (
	"fmt"
	"go/token"
	"go/types"
	"math/bits"
	"strings"
)

type externalFn func(fr *frame, args []value) value

// Key strings are from Function.String().
var externals = make(map[string]externalFn)

func noop(fr *frame, args []value) value { return nil }

func init() {
	for k, v := range map[string]externalFn{
		// --- math/bits
		"math/bits.OnesCount":       extOnesCount(64, types.Int),
		"math/bits.OnesCount64":     extOnesCount(64, types.Int),
		"math/bits.OnesCount32":     extOnesCount(32, types.Int),
		"math/bits.OnesCount16":     extOnesCount(16, types.Int),
		"math/bits.OnesCount8":      extOnesCount(8, types.Int),
		"math/bits.TrailingZeros":   extTrailingZeros(64),
		"math/bits.TrailingZeros64": extTrailingZeros(64),
		"math/bits.TrailingZeros32": extTrailingZeros(32),
		"math/bits.TrailingZeros16": extTrailingZeros(16),
		"math/bits.TrailingZeros8":  extTrailingZeros(8),
		"math/bits.LeadingZeros":    extLeadingZeros(64),
		"math/bits.LeadingZeros64":  extLeadingZeros(64),
		"math/bits.LeadingZeros32":  extLeadingZeros(32),
		"math/bits.Len":             extLen(64),
		"math/bits.Len64":           extLen(64),
		"math/bits.Len32":           extLen(32),
		"math/bits.Len16":           extLen(16),
		"math/bits.Len8":            extLen(8),
		"math/bits.Mul64":           extMul64,
		"math/bits.Add64":           extAdd64,
		"math/bits.Sub64":           extSub64,

		// --- bytes / bytealg / strings
		"bytes.Equal":                         extBytesEqual,
		"bytes.Compare":                       extBytesCompare,
		"bytes.IndexByte":                     extIndexByte,
		"internal/bytealg.IndexByte":          extIndexByte,
		"internal/bytealg.IndexByteString":    extIndexByte,
		"internal/bytealg.Equal":              extBytesEqual,
		"internal/bytealg.Compare":            extBytesCompare,
		"internal/bytealg.CompareString":      extBytesCompare,
		"internal/bytealg.CountString":        extCount,
		"internal/bytealg.Count":              extCount,
		"internal/bytealg.MakeNoZero":         extMakeNoZero,
		"internal/stringslite.Index":          extStringIndex,
		"strings.Index":                       extStringIndex,
		"strings.Compare":                     extBytesCompare,
		"internal/bytealg.IndexString":        extStringIndex,
		"internal/bytealg.LastIndexByteString": extLastIndexByte,
		"internal/bytealg.LastIndexByte":      extLastIndexByte,
		"(*strings.Builder).String":           extBuilderString,
		"(*strings.Builder).copyCheck":        noop,

		"maps.clone": func(fr *frame, args []value) value {
			it := args[0].(iface)
			m, _ := it.v.(*omap)
			if m == nil {
				return it
			}
			c := makeMap(m.keyType)
			for _, idx := range m.live() {
				e := m.entries[idx]
				c.insert(fr, copyVal(e.key), copyVal(e.val))
			}
			return iface{t: it.t, v: c}
		},
		"sort.Slice":       extSortSlice,
		"sort.SliceStable": extSortSlice,
		// --- runtime / misc
		"runtime.SetFinalizer": noop,
		"runtime.KeepAlive":    noop,
		"runtime.Gosched":      extGosched,
		"runtime.GC":           noop,
		"runtime.GOMAXPROCS":   func(fr *frame, args []value) value { return 1 },
		"runtime.NumCPU":       func(fr *frame, args []value) value { return 1 },
		"runtime/trace.IsEnabled": func(fr *frame, args []value) value { return false },
		"runtime/trace.StartRegion": extTraceStartRegion,
		"(*runtime/trace.Region).End": noop,
		"runtime/trace.WithRegion": func(fr *frame, args []value) value {
			return call(fr.i, fr, token.NoPos, args[2], nil)
		},
		"runtime/trace.NewTask": func(fr *frame, args []value) value {
			p := new(value)
			*p = structure{}
			return tuple{args[0], p}
		},
		"(*runtime/trace.Task).End": noop,
		"runtime/trace.Log":         noop,
		"runtime/trace.Logf":        noop,
		"os.Getenv":                 func(fr *frame, args []value) value { return "" },
		"reflect.TypeOf": func(fr *frame, args []value) value {
			it := args[0].(iface)
			if it.t == nil {
				return iface{}
			}
			return iface{t: rtypeNamed, v: rtype{it.t}}
		},
		"internal/reflectlite.TypeOf": func(fr *frame, args []value) value {
			it := args[0].(iface)
			if it.t == nil {
				return iface{}
			}
			return iface{t: rtypeNamed, v: rtype{it.t}}
		},
	} {
		externals[k] = v
	}
}

// rtypeNamed is the dynamic type of values returned by reflect.TypeOf.
var rtypeNamed = types.NewNamed(types.NewTypeName(token.NoPos, types.NewPackage("reflect", "reflect"), "rtype", nil), types.NewStruct(nil, nil), nil)

func extGosched(fr *frame, args []value) value {
	fr.m.yield(fr.th)
	return nil
}

func extTraceStartRegion(fr *frame, args []value) value {
	p := new(value)
	*p = structure{}
	return p
}

func extOnesCount(w int, rk types.BasicKind) externalFn {
	return func(fr *frame, args []value) value {
		if s, ok := args[0].(sym); ok {
			m := s.m
			return m.mkSym(m.tt.popcount(s.t, 64), rk)
		}
		return bits.OnesCount64(uint64(asInt64(args[0])) & mask(w))
	}
}

func extTrailingZeros(w int) externalFn {
	return func(fr *frame, args []value) value {
		if s, ok := args[0].(sym); ok {
			m := s.m
			// ite chain: first set bit from the bottom
			r := m.tt.bv(64, uint64(w))
			for i := w - 1; i >= 0; i-- {
				bit := m.tt.cmp("=", m.tt.extract(s.t, i, i), m.tt.bv(1, 1))
				r = m.tt.ite(bit, m.tt.bv(64, uint64(i)), r)
			}
			return m.mkSym(r, types.Int)
		}
		v := uint64(asInt64(args[0])) & mask(w)
		if v == 0 {
			return w
		}
		return bits.TrailingZeros64(v)
	}
}

func symLen(m *machine, t *term, w int) *term {
	r := m.tt.bv(64, 0)
	for i := 0; i < w; i++ {
		bit := m.tt.cmp("=", m.tt.extract(t, i, i), m.tt.bv(1, 1))
		r = m.tt.ite(bit, m.tt.bv(64, uint64(i+1)), r)
	}
	return r
}

func extLen(w int) externalFn {
	return func(fr *frame, args []value) value {
		if s, ok := args[0].(sym); ok {
			return s.m.mkSym(symLen(s.m, s.t, w), types.Int)
		}
		return bits.Len64(uint64(asInt64(args[0])) & mask(w))
	}
}

func extLeadingZeros(w int) externalFn {
	return func(fr *frame, args []value) value {
		if s, ok := args[0].(sym); ok {
			m := s.m
			return m.mkSym(m.tt.bin("bvsub", m.tt.bv(64, uint64(w)), symLen(m, s.t, w)), types.Int)
		}
		return w - bits.Len64(uint64(asInt64(args[0]))&mask(w))
	}
}

func extMul64(fr *frame, args []value) value {
	if m := symOf(args[0], args[1]); m != nil {
		x := m.tt.zext(m.toTerm(args[0]), 128)
		y := m.tt.zext(m.toTerm(args[1]), 128)
		p := m.tt.bin("bvmul", x, y)
		return tuple{m.mkSym(m.tt.extract(p, 127, 64), types.Uint64), m.mkSym(m.tt.extract(p, 63, 0), types.Uint64)}
	}
	hi, lo := bits.Mul64(args[0].(uint64), args[1].(uint64))
	return tuple{hi, lo}
}

func extAdd64(fr *frame, args []value) value {
	if m := symOf(args[0], args[1], args[2]); m != nil {
		x := m.tt.zext(m.toTerm(args[0]), 65)
		y := m.tt.zext(m.toTerm(args[1]), 65)
		c := m.tt.zext(m.tt.extract(m.toTerm(args[2]), 0, 0), 65)
		s := m.tt.bin("bvadd", m.tt.bin("bvadd", x, y), c)
		return tuple{m.mkSym(m.tt.extract(s, 63, 0), types.Uint64), m.mkSym(m.tt.zext(m.tt.extract(s, 64, 64), 64), types.Uint64)}
	}
	s, c := bits.Add64(args[0].(uint64), args[1].(uint64), args[2].(uint64)&1)
	return tuple{s, c}
}

func extSub64(fr *frame, args []value) value {
	if m := symOf(args[0], args[1], args[2]); m != nil {
		x := m.tt.zext(m.toTerm(args[0]), 65)
		y := m.tt.zext(m.toTerm(args[1]), 65)
		c := m.tt.zext(m.tt.extract(m.toTerm(args[2]), 0, 0), 65)
		s := m.tt.bin("bvsub", m.tt.bin("bvsub", x, y), c)
		return tuple{m.mkSym(m.tt.extract(s, 63, 0), types.Uint64), m.mkSym(m.tt.zext(m.tt.extract(s, 64, 64), 64), types.Uint64)}
	}
	d, b := bits.Sub64(args[0].(uint64), args[1].(uint64), args[2].(uint64)&1)
	return tuple{d, b}
}

// byteSeq views a []byte or string value as a sequence of byte values.
func byteSeq(v value) []value {
	switch v := v.(type) {
	case []value:
		return v
	case string:
		return []value(strToSym(v))
	case symstr:
		return []value(v)
	case nil:
		return nil
	}
	panic(internalError{fmt.Sprintf("byteSeq of %T", v)})
}

func extBytesEqual(fr *frame, args []value) value {
	return symstrEq(symstr(byteSeq(args[0])), symstr(byteSeq(args[1])))
}

// extBytesCompare returns -1/0/+1; symbolic bytes fork through decide.
func extBytesCompare(fr *frame, args []value) value {
	a, b := byteSeq(args[0]), byteSeq(args[1])
	n := len(a)
	if len(b) < n {
		n = len(b)
	}
	for i := 0; i < n; i++ {
		if fr.decideV(binop(token.LSS, types.Typ[types.Uint8], a[i], b[i])) {
			return -1
		}
		if fr.decideV(binop(token.GTR, types.Typ[types.Uint8], a[i], b[i])) {
			return 1
		}
	}
	switch {
	case len(a) < len(b):
		return -1
	case len(a) > len(b):
		return 1
	}
	return 0
}

func extIndexByte(fr *frame, args []value) value {
	s := byteSeq(args[0])
	for i, b := range s {
		if fr.decideV(equalsV(nil, b, args[1])) {
			return i
		}
	}
	return -1
}

func extLastIndexByte(fr *frame, args []value) value {
	s := byteSeq(args[0])
	for i := len(s) - 1; i >= 0; i-- {
		if fr.decideV(equalsV(nil, s[i], args[1])) {
			return i
		}
	}
	return -1
}

func extCount(fr *frame, args []value) value {
	s := byteSeq(args[0])
	n := 0
	for _, b := range s {
		if fr.decideV(equalsV(nil, b, args[1])) {
			n++
		}
	}
	return n
}

func extStringIndex(fr *frame, args []value) value {
	a, ok1 := args[0].(string)
	b, ok2 := args[1].(string)
	if ok1 && ok2 {
		return strings.Index(a, b)
	}
	if bs, ok := args[0].([]value); ok {
		// bytealg.Index([]byte, []byte)
		x := normStr(symstr(bs))
		y := normStr(symstr(byteSeq(args[1])))
		if xs, ok := x.(string); ok {
			if ys, ok := y.(string); ok {
				return strings.Index(xs, ys)
			}
		}
	}
	panic(internalError{"strings.Index on symbolic strings"})
}

func extMakeNoZero(fr *frame, args []value) value {
	n := asInt64(args[0])
	s := make([]value, n)
	for i := range s {
		s[i] = uint8(0)
	}
	return s
}

func extBuilderString(fr *frame, args []value) value {
	// type Builder struct { addr *Builder; buf []byte }
	b := (*args[0].(*value)).(structure)
	buf, _ := b[1].([]value)
	ss := make(symstr, len(buf))
	copy(ss, buf)
	return normStr(ss)
}

// rtypeMethod implements the few reflect.Type methods the executed code needs.
func rtypeMethod(name string) externalFn {
	switch name {
	case "Elem":
		return func(fr *frame, args []value) value {
			t := args[0].(rtype).t
			if e, ok := t.Underlying().(interface{ Elem() types.Type }); ok {
				return iface{t: rtypeNamed, v: rtype{e.Elem()}}
			}
			panic(internalError{"reflect: Elem of " + t.String()})
		}
	case "String":
		return func(fr *frame, args []value) value { return args[0].(rtype).t.String() }
	case "Name":
		return func(fr *frame, args []value) value {
			if n, ok := args[0].(rtype).t.(*types.Named); ok {
				return n.Obj().Name()
			}
			return ""
		}
	case "Comparable":
		return func(fr *frame, args []value) value { return types.Comparable(args[0].(rtype).t) }
	case "Kind":
		return func(fr *frame, args []value) value { return uint(reflectKind(args[0].(rtype).t)) }
	case "Implements":
		return func(fr *frame, args []value) value {
			it, ok := args[1].(iface).v.(rtype).t.Underlying().(*types.Interface)
			if !ok {
				panic(internalError{"reflect: Implements of non-interface"})
			}
			return types.Implements(args[0].(rtype).t, it)
		}
	case "AssignableTo":
		return func(fr *frame, args []value) value {
			return types.AssignableTo(args[0].(rtype).t, args[1].(iface).v.(rtype).t)
		}
	}
	panic(internalError{"reflect.Type method not modelled: " + name})
}

func reflectKind(t types.Type) int {
	switch t := t.Underlying().(type) {
	case *types.Basic:
		switch t.Kind() {
		case types.Bool:
			return 1
		case types.Int:
			return 2
		case types.Int8:
			return 3
		case types.Int16:
			return 4
		case types.Int32:
			return 5
		case types.Int64:
			return 6
		case types.Uint:
			return 7
		case types.Uint8:
			return 8
		case types.Uint16:
			return 9
		case types.Uint32:
			return 10
		case types.Uint64:
			return 11
		case types.Uintptr:
			return 12
		case types.Float32:
			return 13
		case types.Float64:
			return 14
		case types.String:
			return 24
		case types.UnsafePointer:
			return 26
		}
	case *types.Array:
		return 17
	case *types.Chan:
		return 18
	case *types.Signature:
		return 19
	case *types.Interface:
		return 20
	case *types.Map:
		return 21
	case *types.Pointer:
		return 22
	case *types.Slice:
		return 23
	case *types.Struct:
		return 25
	}
	return 0
}

// extSortSlice: stable insertion sort driven by the real less closure
// (symbolic comparisons fork through decide).
func extSortSlice(fr *frame, args []value) value {
	it := args[0].(iface)
	xs, ok := it.v.([]value)
	if !ok {
		panic(internalError{"sort.Slice of non-slice"})
	}
	less := args[1]
	lt := func(i, j int) bool {
		return fr.decideV(call(fr.i, fr, token.NoPos, less, []value{i, j}))
	}
	for i := 1; i < len(xs); i++ {
		for j := i; j > 0 && lt(j, j-1); j-- {
			xs[j], xs[j-1] = xs[j-1], xs[j]
		}
	}
	return nil
}
