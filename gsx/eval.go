package main

// Concrete evaluation of terms under a model (used to skip solver queries whose
// answer is witnessed by the last model of the path condition, and to evaluate
// observations). Values wider than 64 bits use math/big.

import (
	"math/big"
)

type evalCtx struct {
	vars map[string]uint64 // variable name -> value
	memo map[*term]*big.Int
	ok   bool
}

var bigOne = big.NewInt(1)

func bigMask(w int) *big.Int {
	m := new(big.Int).Lsh(bigOne, uint(w))
	return m.Sub(m, bigOne)
}

func toSigned(v *big.Int, w int) *big.Int {
	if v.Bit(w-1) == 1 {
		return new(big.Int).Sub(v, new(big.Int).Lsh(bigOne, uint(w)))
	}
	return new(big.Int).Set(v)
}

func fromSigned(v *big.Int, w int) *big.Int {
	r := new(big.Int).And(v, bigMask(w))
	return r
}

// eval returns the value of t (Bool: 0/1) or nil if t contains something the
// model does not determine (uninterpreted applications, unknown variables).
func (e *evalCtx) eval(t *term) *big.Int {
	if v, ok := e.memo[t]; ok {
		return v
	}
	v := e.eval1(t)
	e.memo[t] = v
	return v
}

func boolBig(b bool) *big.Int {
	if b {
		return big.NewInt(1)
	}
	return big.NewInt(0)
}

func (e *evalCtx) eval1(t *term) *big.Int {
	switch t.op {
	case "const":
		return new(big.Int).SetUint64(t.cv)
	case "var":
		v, ok := e.vars[t.name]
		if !ok {
			return nil
		}
		r := new(big.Int).SetUint64(v)
		if t.w > 0 && t.w < 64 {
			r.And(r, bigMask(t.w))
		}
		if t.w == 0 && v != 0 {
			return big.NewInt(1)
		}
		return r
	case "app":
		return nil
	}
	args := make([]*big.Int, len(t.args))
	for i, a := range t.args {
		args[i] = e.eval(a)
		if args[i] == nil {
			// short-circuit forms could still be decided, but keep it simple
			return nil
		}
	}
	w := t.w
	aw := 0
	if len(t.args) > 0 {
		aw = t.args[0].w
	}
	switch t.op {
	case "not":
		return boolBig(args[0].Sign() == 0)
	case "and":
		return boolBig(args[0].Sign() != 0 && args[1].Sign() != 0)
	case "or":
		return boolBig(args[0].Sign() != 0 || args[1].Sign() != 0)
	case "=":
		return boolBig(args[0].Cmp(args[1]) == 0)
	case "ite":
		if args[0].Sign() != 0 {
			return args[1]
		}
		return args[2]
	case "bvult":
		return boolBig(args[0].Cmp(args[1]) < 0)
	case "bvule":
		return boolBig(args[0].Cmp(args[1]) <= 0)
	case "bvugt":
		return boolBig(args[0].Cmp(args[1]) > 0)
	case "bvuge":
		return boolBig(args[0].Cmp(args[1]) >= 0)
	case "bvslt":
		return boolBig(toSigned(args[0], aw).Cmp(toSigned(args[1], aw)) < 0)
	case "bvsle":
		return boolBig(toSigned(args[0], aw).Cmp(toSigned(args[1], aw)) <= 0)
	case "bvsgt":
		return boolBig(toSigned(args[0], aw).Cmp(toSigned(args[1], aw)) > 0)
	case "bvsge":
		return boolBig(toSigned(args[0], aw).Cmp(toSigned(args[1], aw)) >= 0)
	case "bvadd":
		return new(big.Int).And(new(big.Int).Add(args[0], args[1]), bigMask(w))
	case "bvsub":
		return fromSigned(new(big.Int).Sub(args[0], args[1]), w)
	case "bvmul":
		return new(big.Int).And(new(big.Int).Mul(args[0], args[1]), bigMask(w))
	case "bvand":
		return new(big.Int).And(args[0], args[1])
	case "bvor":
		return new(big.Int).Or(args[0], args[1])
	case "bvxor":
		return new(big.Int).Xor(args[0], args[1])
	case "bvnot":
		return new(big.Int).Xor(args[0], bigMask(w))
	case "bvneg":
		return fromSigned(new(big.Int).Neg(args[0]), w)
	case "bvudiv":
		if args[1].Sign() == 0 {
			return bigMask(w) // SMT-LIB: all ones
		}
		return new(big.Int).Quo(args[0], args[1])
	case "bvurem":
		if args[1].Sign() == 0 {
			return args[0]
		}
		return new(big.Int).Rem(args[0], args[1])
	case "bvsdiv":
		if args[1].Sign() == 0 {
			if toSigned(args[0], w).Sign() < 0 {
				return big.NewInt(1)
			}
			return bigMask(w)
		}
		return fromSigned(new(big.Int).Quo(toSigned(args[0], w), toSigned(args[1], w)), w)
	case "bvsrem":
		if args[1].Sign() == 0 {
			return args[0]
		}
		return fromSigned(new(big.Int).Rem(toSigned(args[0], w), toSigned(args[1], w)), w)
	case "bvshl":
		if args[1].Cmp(big.NewInt(int64(w))) >= 0 {
			return big.NewInt(0)
		}
		return new(big.Int).And(new(big.Int).Lsh(args[0], uint(args[1].Uint64())), bigMask(w))
	case "bvlshr":
		if args[1].Cmp(big.NewInt(int64(w))) >= 0 {
			return big.NewInt(0)
		}
		return new(big.Int).Rsh(args[0], uint(args[1].Uint64()))
	case "bvashr":
		sh := uint(w)
		if args[1].Cmp(big.NewInt(int64(w))) < 0 {
			sh = uint(args[1].Uint64())
		}
		return fromSigned(new(big.Int).Rsh(toSigned(args[0], w), sh), w)
	case "zero_extend":
		return args[0]
	case "sign_extend":
		return fromSigned(toSigned(args[0], aw), w)
	case "extract":
		r := new(big.Int).Rsh(args[0], uint(t.p2))
		return r.And(r, bigMask(t.p1-t.p2+1))
	case "concat":
		r := new(big.Int).Lsh(args[0], uint(t.args[1].w))
		return r.Or(r, args[1])
	}
	return nil
}
