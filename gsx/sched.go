package main

// Cooperative threads (one running at a time, baton passing), interpreter
// level channels, select, mutexes.

import (
	"fmt"
)

type thread struct {
	id      int
	m       *machine
	resume  chan struct{}
	done    bool
	blocked bool
	// channel wait
	cases []waitCase
	woken bool
	wIdx  int
	wVal  value
	wOk   bool
	// predicate wait
	pred    func() bool
	name    string
	wClosed bool
	// timerFires (kept on thread 0): how often a may-fire timer channel delivered on this path
	timerFires int
	// held: mutexes this thread holds (2 = exclusive, 1 = shared), for the lockset check
	held map[*mutexState]int
}

func (t *thread) hold(ms *mutexState, mode int) {
	if t.held == nil {
		t.held = map[*mutexState]int{}
	}
	t.held[ms] = mode
}

func (t *thread) release(ms *mutexState) { delete(t.held, ms) }

// mapState is the Eraser state of one map object (lockset check, see noteMap).
type mapState struct {
	owner    int                 // first accessing thread
	shared   bool                // a second thread has accessed it
	modified bool                // written since the candidate set was (re)started
	cand     map[*mutexState]int // candidate locks: held at every counted access (2 = exclusively at every access)
	lastSite string
}

func intersectLocks(cand, held map[*mutexState]int, write bool) map[*mutexState]int {
	out := map[*mutexState]int{}
	for k, v := range cand {
		hv, ok := held[k]
		if !ok {
			continue
		}
		if write && hv < 2 {
			continue // a write is protected by an exclusively held lock only
		}
		if hv < v {
			v = hv
		}
		out[k] = v
	}
	return out
}

// noteMap implements the Eraser lockset discipline for Go maps while verifrt.LocksetRace is
// on. Every map object accessed by spawned goroutines keeps a candidate set: the locks held
// at every access so far (a lock held only for reading does not protect a write). When two
// different goroutines have accessed the object, it has been written, and the candidate set is
// empty, no lock protects it: violation "data-race". As in Eraser, an object that its first
// goroutine touched without any lock (initialisation before it is published, e.g. a map
// literal later handed to a store) starts a fresh candidate set at the first access by another
// goroutine; an object whose first goroutine always held a lock (a store's own map) does not
// get that allowance, so a single unlocked access by the second goroutine is reported. The
// cooperative scheduler never interleaves inside a map operation, so an access made without a
// lock would otherwise be invisible. Accesses by the harness thread (id 0) are ordered by
// go/join and are not counted.
func (m *machine) noteMap(fr *frame, mp *omap, write bool) {
	if mp == nil {
		return
	}
	m.noteObj(fr, mp, write, "data-race:map-accessed-by-two-goroutines-without-a-common-lock")
}

// noteCell: the same discipline for memory cells reached through pointers (struct fields,
// escaping variables): loads and stores of spawned goroutines while the check is on.
func (m *machine) noteCell(fr *frame, p *value, write bool) {
	if p == nil {
		return
	}
	m.noteObj(fr, p, write, "data-race:memory-accessed-by-two-goroutines-without-a-common-lock")
}

func (m *machine) noteObj(fr *frame, mp any, write bool, label string) {
	if !m.raceOn || fr == nil || fr.th == nil || fr.th.id == 0 || m.raceSeen {
		return
	}
	held := fr.th.held
	site := ""
	if fr.fn != nil {
		site = fr.fn.String()
	}
	if m.mapAcc == nil {
		m.mapAcc = map[any]*mapState{}
	}
	st := m.mapAcc[mp]
	if st == nil {
		st = &mapState{owner: fr.th.id, cand: map[*mutexState]int{}, modified: write, lastSite: site}
		for k, v := range held {
			if write && v < 2 {
				continue
			}
			st.cand[k] = v
		}
		m.mapAcc[mp] = st
		return
	}
	if !st.shared && fr.th.id != st.owner {
		st.shared = true
		if len(st.cand) == 0 {
			// initialised without locks by its first goroutine: start over (Eraser)
			st.modified = false
			st.cand = map[*mutexState]int{}
			for k, v := range held {
				st.cand[k] = v
			}
		}
	}
	st.cand = intersectLocks(st.cand, held, write)
	if write {
		st.modified = true
	}
	if st.shared && st.modified && len(st.cand) == 0 {
		m.raceSeen = true
		m.recordViolation(label, "race",
			map[string]string{"earlier": st.lastSite, "now": site})
		return
	}
	st.lastSite = site
}

type waitCase struct {
	ch   *channel
	send bool
	val  value
}

type channel struct {
	cap     int
	buf     []value
	closed  bool
	mayFire bool // timer channel: a receive may always succeed ("time passes")
	fireVal value
	stopped bool
	id      int
}

type mutexState struct {
	locked  bool
	readers int
}
type onceState struct{ done bool }
type wgState struct{ n int }

func (m *machine) newThread(name string) *thread {
	t := &thread{id: m.nextTid, m: m, resume: make(chan struct{}, 1), name: name}
	m.nextTid++
	m.threads = append(m.threads, t)
	return t
}

// park blocks the calling (real) goroutine until its thread gets the baton.
func (t *thread) park() {
	select {
	case <-t.resume:
		if t.m.aborted {
			panic(pathAbort{kind: abortEnd})
		}
	case <-t.m.abortCh:
		panic(pathAbort{kind: abortEnd})
	}
}

func (t *thread) runnable() bool {
	if t.done {
		return false
	}
	if !t.blocked {
		return true
	}
	if t.cases != nil {
		if t.woken {
			return true
		}
		// a may-fire timer case keeps a blocked select alive: with nondeterministic
		// scheduling "the timer fires now" is a scheduling alternative at every point
		// (picking the thread fires the timer, see wakeByTimer); deterministically the
		// timer only fires when nobody else can run (fallback in switchAway)
		if t.m.schedNondet && len(armedTimerCases(t.cases)) > 0 {
			return true
		}
		return false
	}
	if t.pred != nil {
		return t.pred()
	}
	return false
}

// switchAway hands the baton to another runnable thread. The caller must have
// marked itself blocked (or done). Returns when the caller is resumed.
func (m *machine) switchAway(self *thread) {
	next := m.pickNext(self)
	if next == nil {
		// nobody can run. Timer fallback: a thread blocked in a select with a may-fire case
		for _, t := range m.threads {
			if t.done || !t.blocked || t.cases == nil || t.woken {
				continue
			}
			if len(armedTimerCases(t.cases)) > 0 {
				next = t
				break
			}
		}
	}
	if next == nil {
		m.reportDeadlock()
	}
	m.wakeByTimer(next)
	if next == self {
		return
	}
	m.cur = next
	next.resume <- struct{}{}
	if self != nil && !self.done {
		self.park()
	}
}

// armedTimerCases lists the receive cases on running (may-fire) timer channels.
func armedTimerCases(cases []waitCase) []int {
	var r []int
	for i, c := range cases {
		if !c.send && c.ch != nil && c.ch.mayFire && !c.ch.stopped && !c.ch.closed && len(c.ch.buf) == 0 {
			r = append(r, i)
		}
	}
	return r
}

// wakeByTimer: t was picked to run while blocked in a select that nothing has
// woken yet: one of its running timers fires now.
func (m *machine) wakeByTimer(t *thread) {
	if t == nil || t.done || !t.blocked || t.cases == nil || t.woken {
		return
	}
	armed := armedTimerCases(t.cases)
	if len(armed) == 0 {
		return
	}
	k := 0
	if len(armed) > 1 && m.schedNondet {
		m.schedDep = true
		k = m.choose(len(armed), "timer")
	}
	i := armed[k]
	ch := t.cases[i].ch
	t.woken, t.wIdx, t.wVal, t.wOk = true, i, ch.fireVal, true
	ch.stopped = true
	m.threads[0].timerFires++
}

// othersRunnable reports whether a thread other than self could run now.
func (m *machine) othersRunnable(self *thread) bool {
	for _, t := range m.threads {
		if t != self && t.runnable() {
			return true
		}
	}
	return false
}

func (m *machine) pickNext(self *thread) *thread {
	var cands []*thread
	var selfTimer *thread
	for _, t := range m.threads {
		if t.runnable() {
			if t == self && t.blocked && t.cases != nil && !t.woken {
				// self has just decided to block with a running timer: "fires at once"
				// was the other alternative of that decision (chanOp), do not repeat it
				selfTimer = t
				continue
			}
			cands = append(cands, t)
		}
	}
	if len(cands) == 0 && selfTimer != nil {
		return selfTimer
	}
	if len(cands) == 0 {
		return nil
	}
	if len(cands) == 1 {
		return cands[0]
	}
	if m.schedNondet {
		m.schedDep = true
		k := m.choose(len(cands), "sched")
		return cands[k]
	}
	// deterministic: next higher id after self, round robin
	sid := -1
	if self != nil {
		sid = self.id
	}
	for _, t := range cands {
		if t.id > sid {
			return t
		}
	}
	return cands[0]
}

func (m *machine) reportDeadlock() {
	desc := ""
	for _, t := range m.threads {
		if !t.done {
			desc += fmt.Sprintf("[thread %d %s blocked]", t.id, t.name)
		}
	}
	if m.wedgeLabel != "" {
		// every thread blocked inside a MustReturn region: the region does not return
		m.recordViolation(m.wedgeLabel, "wedge", map[string]string{"threads": desc})
		m.abort(abortViolation, m.wedgeLabel)
	}
	m.recordViolation("deadlock", "deadlock", map[string]string{"threads": desc})
	m.abort(abortDeadlock, "all threads blocked: "+desc)
}

// yield is a scheduling point where the current thread stays runnable (preemption).
func (m *machine) yield(self *thread) {
	if len(m.threads) <= 1 {
		return
	}
	// deterministic mode: round robin starting after self, so the others run until they block
	// and the baton comes back; nondeterministic mode: any runnable thread (a choice)
	var next *thread
	if m.schedNondet {
		next = m.pickNext(nil)
	} else {
		next = m.pickNext(self)
	}
	if next == nil || next == self {
		return
	}
	m.wakeByTimer(next)
	m.cur = next
	next.resume <- struct{}{}
	self.park()
}

// maybePreempt: before a visible operation, optionally switch to another thread.
func (m *machine) maybePreempt(self *thread) {
	if m.preemptBudget <= 0 || !m.schedNondet {
		return
	}
	var others []*thread
	for _, t := range m.threads {
		if t != self && t.runnable() {
			others = append(others, t)
		}
	}
	if len(others) == 0 {
		return
	}
	k := m.choose(len(others)+1, "preempt")
	if k == 0 {
		return
	}
	m.schedDep = true
	m.preemptBudget--
	next := others[k-1]
	m.wakeByTimer(next)
	m.cur = next
	next.resume <- struct{}{}
	self.park()
}

// startThread runs body on a new interpreter thread (a parked goroutine).
func (m *machine) startThread(in *interpreter, name string, body func(t *thread)) *thread {
	t := m.newThread(name)
	go func() {
		defer func() {
			r := recover()
			t.done = true
			if r == nil {
				return
			}
			r = normalizePanic(r)
			if pa, ok := r.(pathAbort); ok {
				if pa.kind == abortEnd && m.aborted {
					return
				}
				if pa.kind == abortBound && m.wedgeLabel != "" && !m.aborted {
					// budget exhausted inside a MustReturn region: "does not return"
					func() {
						defer func() {
							if rr := recover(); rr != nil {
								if pa2, ok := rr.(pathAbort); ok {
									pa = pa2
								}
							}
						}()
						m.maxDecs += 50
						m.recordViolation(m.wedgeLabel, "wedge", map[string]string{"budget": pa.msg})
						pa = pathAbort{kind: abortViolation, msg: m.wedgeLabel}
					}()
				}
				m.finish(pa)
				return
			}
			m.finishPanic(r, t)
		}()
		t.park()
		body(t)
		t.done = true
		if t.id == 0 {
			m.finish(pathAbort{kind: abortEnd})
			return
		}
		m.switchAway(t)
	}()
	return t
}

// finish ends the path (called from any thread).
func (m *machine) finish(pa pathAbort) {
	if m.aborted {
		return
	}
	m.aborted = true
	m.status = pa.kind
	m.statusMsg = pa.msg
	close(m.abortCh)
	m.doneCh <- struct{}{}
}

func (m *machine) finishPanic(r any, t *thread) {
	if m.aborted {
		return
	}
	switch r := r.(type) {
	case internalError:
		m.finish(pathAbort{kind: abortUnsupported, msg: r.msg})
	case targetPanic:
		func() {
			defer func() {
				if rr := recover(); rr != nil {
					if pa, ok := rr.(pathAbort); ok {
						m.finish(pa)
						return
					}
					m.finish(pathAbort{kind: abortUnsupported, msg: fmt.Sprint(rr)})
				}
			}()
			msg := panicMessage(r.v)
			m.recordViolation("panic:"+m.panicSite+":"+sanitizeMsg(msg), "panic", map[string]string{"message": msg, "thread": t.name})
			m.finish(pathAbort{kind: abortViolation, msg: "uncaught panic: " + msg + " in " + m.panicSite + " @ " + m.panicWhere})
		}()
	default:
		m.finish(pathAbort{kind: abortUnsupported, msg: fmt.Sprintf("interpreter panic: %v", r)})
	}
}

// ---- channel operations

func (m *machine) newChan(cap int) *channel {
	m.chanSeq++
	return &channel{cap: cap, id: m.chanSeq}
}

// blockedOn finds the first thread blocked on ch in direction send/recv.
func (m *machine) blockedOn(ch *channel, send bool, self *thread) (*thread, int) {
	for _, t := range m.threads {
		if t == self || t.done || !t.blocked || t.woken || t.cases == nil {
			continue
		}
		for i, c := range t.cases {
			if c.ch == ch && c.send == send {
				return t, i
			}
		}
	}
	return nil, -1
}

func (m *machine) caseReady(c waitCase, self *thread) bool {
	ch := c.ch
	if ch == nil {
		return false
	}
	if c.send {
		if ch.closed {
			return true // will panic
		}
		if len(ch.buf) < ch.cap {
			return true
		}
		t, _ := m.blockedOn(ch, false, self)
		return t != nil
	}
	if len(ch.buf) > 0 || ch.closed {
		return true
	}
	if ch.mayFire && !ch.stopped {
		return true
	}
	t, _ := m.blockedOn(ch, true, self)
	return t != nil
}

// execCase performs a ready case.
func (m *machine) execCase(c waitCase, self *thread) (value, bool) {
	ch := c.ch
	if c.send {
		if ch.closed {
			panic(targetPanic{runtimeErr("send on closed channel")})
		}
		if t, i := m.blockedOn(ch, false, self); t != nil && len(ch.buf) == 0 {
			t.woken, t.wIdx, t.wVal, t.wOk = true, i, c.val, true
			return nil, true
		}
		ch.buf = append(ch.buf, c.val)
		return nil, true
	}
	if len(ch.buf) > 0 {
		v := ch.buf[0]
		ch.buf = ch.buf[1:]
		// a blocked sender can now move its value into the buffer
		if t, i := m.blockedOn(ch, true, self); t != nil {
			ch.buf = append(ch.buf, t.cases[i].val)
			t.woken, t.wIdx = true, i
		}
		return v, true
	}
	if t, i := m.blockedOn(ch, true, self); t != nil {
		v := t.cases[i].val
		t.woken, t.wIdx = true, i
		return v, true
	}
	if ch.closed {
		return nil, false
	}
	if ch.mayFire && !ch.stopped {
		ch.stopped = true
		m.threads[0].timerFires++
		return ch.fireVal, true
	}
	panic(internalError{"execCase: case not ready"})
}

// chanOp implements send/recv/select. Returns chosen index (-1 = default), received value, ok.
func (m *machine) chanOp(self *thread, cases []waitCase, hasDefault bool, isSelect bool) (int, value, bool) {
	m.maybePreempt(self)
	var ready []int
	for i, c := range cases {
		if m.caseReady(c, self) {
			ready = append(ready, i)
		}
	}
	if len(ready) > 0 {
		n := len(ready)
		// "may fire": when every ready case is a running timer, the timers not having
		// fired yet is an alternative too (take default / block); only worth a choice
		// when the select has a default or somebody else can act meanwhile
		if m.schedNondet && len(armedTimerCases(cases)) == len(ready) && (hasDefault || m.othersRunnable(self)) {
			n++
		}
		k := 0
		if n > 1 {
			m.schedDep = true
			k = m.choose(n, "select")
		}
		if k < len(ready) {
			idx := ready[k]
			v, ok := m.execCase(cases[idx], self)
			return idx, v, ok
		}
	}
	if hasDefault {
		return -1, nil, false
	}
	// block
	self.blocked = true
	self.cases = cases
	if self.cases == nil {
		self.cases = []waitCase{}
	}
	self.woken = false
	m.switchAway(self)
	// resumed
	self.blocked = false
	idx, v, ok := self.wIdx, self.wVal, self.wOk
	wasWoken := self.woken
	self.cases = nil
	self.woken = false
	self.wVal = nil
	if !wasWoken {
		panic(internalError{"thread resumed from channel wait without wake-up"})
	}
	c := cases[idx]
	if c.send {
		if c.ch.closed && !ok && self.wClosed {
			self.wClosed = false
			panic(targetPanic{runtimeErr("send on closed channel")})
		}
		return idx, nil, true
	}
	return idx, v, ok
}

func (m *machine) closeChan(ch *channel) {
	if ch == nil {
		panic(targetPanic{runtimeErr("close of nil channel")})
	}
	if ch.closed {
		panic(targetPanic{runtimeErr("close of closed channel")})
	}
	ch.closed = true
	// wake all blocked receivers (zero value, ok=false) and senders (panic)
	for _, t := range m.threads {
		if t.done || !t.blocked || t.woken || t.cases == nil {
			continue
		}
		for i, c := range t.cases {
			if c.ch == ch {
				t.woken, t.wIdx, t.wVal, t.wOk = true, i, nil, false
				if c.send {
					t.wClosed = true
				}
				break
			}
		}
	}
}

// blockUntil blocks the current thread until pred holds.
func (m *machine) blockUntil(self *thread, pred func() bool) {
	m.maybePreempt(self)
	if pred() {
		return
	}
	self.blocked = true
	self.pred = pred
	m.switchAway(self)
	self.blocked = false
	self.pred = nil
}
