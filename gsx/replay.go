package main

// Native replay: the same harness sources are compiled into the package
// under test with `go test -overlay` and driven by a replay file.

import (
	"bytes"
	"encoding/json"
	"fmt"
	"os"
	"os/exec"
	"path/filepath"
	"strings"
	"time"
)

type nativeBuild struct {
	tmp    string
	bins   map[string]string // repo-relative pkg dir -> test binary
	errs   map[string]string
	buildS float64
}

func (nb *nativeBuild) cleanup() {
	if nb != nil && nb.tmp != "" {
		os.RemoveAll(nb.tmp)
	}
}

// buildNative compiles one test binary per harness package directory.
func buildNative(repo string, ld *loaded, tags string) (*nativeBuild, error) {
	return buildNativeOpt(repo, ld, tags, false)
}

// buildNativeOpt: race = build the replay binaries with the Go race detector (confirmation of
// lockset violations: the stress loop of the harness runs until the detector reports).
func buildNativeOpt(repo string, ld *loaded, tags string, race bool) (*nativeBuild, error) {
	t0 := time.Now()
	tmp, err := os.MkdirTemp("", "gsx-replay-")
	if err != nil {
		return nil, err
	}
	nb := &nativeBuild{tmp: tmp, bins: map[string]string{}, errs: map[string]string{}}
	for i, dir := range ld.harnessPkgDirs {
		sp := ld.pkgs[i]
		var names []string
		for _, h := range ld.harnesses {
			if h.Pkg == sp {
				names = append(names, h.Name())
			}
		}
		var src strings.Builder
		fmt.Fprintf(&src, "package %s\n\nimport (\n\t\"testing\"\n\tverifrt \"%s\"\n)\n\n", sp.Pkg.Name(), ld.rtPath)
		src.WriteString("func TestVHReplay(t *testing.T) {\n\tverifrt.RunReplay(map[string]func(){\n")
		for _, n := range names {
			fmt.Fprintf(&src, "\t\t%q: %s,\n", n, n)
		}
		src.WriteString("\t})\n}\n")
		gen := filepath.Join(tmp, fmt.Sprintf("replay_%d_test.go", i))
		if err := os.WriteFile(gen, []byte(src.String()), 0o644); err != nil {
			return nb, err
		}
		ov := map[string]string{}
		for virt, real := range ld.overlay {
			ov[virt] = real
		}
		ov[filepath.Join(repo, dir, "zz_vhreplay_test.go")] = gen
		ovb, _ := json.Marshal(map[string]any{"Replace": ov})
		ovPath := filepath.Join(tmp, fmt.Sprintf("overlay_%d.json", i))
		os.WriteFile(ovPath, ovb, 0o644)
		bin := filepath.Join(tmp, fmt.Sprintf("replay_%d.test", i))
		args := []string{"test", "-c", "-vet=off", "-overlay", ovPath, "-o", bin}
		if race {
			args = append(args, "-race")
		}
		// never let the build touch the repository's go.mod / go.sum (a harness importing an
		// indirect dependency would otherwise get it rewritten under -mod=mod): work on copies
		if mf := privateModfile(repo, tmp); mf != "" {
			args = append(args, "-modfile="+mf)
		}
		if tags != "" {
			args = append(args, "-tags="+tags)
		}
		args = append(args, "./"+dir)
		cmd := exec.Command("go", args...)
		cmd.Dir = repo
		cmd.Env = nativeEnv()
		var outb bytes.Buffer
		cmd.Stdout = &outb
		cmd.Stderr = &outb
		if err := cmd.Run(); err != nil {
			nb.errs[dir] = outb.String()
			return nb, fmt.Errorf("native build of %s failed: %v\n%s", dir, err, clip(outb.String(), 4000))
		}
		nb.bins[dir] = bin
	}
	nb.buildS = time.Since(t0).Seconds()
	return nb, nil
}

// nativeEnv is the environment of the repository's own toolchain (go.mod's go
// directive selects the cached go1.25 toolchain, which needs GOTOOLCHAIN=auto
// and a non-"off" GOSUMDB).
func nativeEnv() []string {
	var env []string
	for _, e := range os.Environ() {
		if strings.HasPrefix(e, "GOTOOLCHAIN=") || strings.HasPrefix(e, "GOSUMDB=") || strings.HasPrefix(e, "GOFLAGS=") || strings.HasPrefix(e, "GOPROXY=") {
			continue
		}
		env = append(env, e)
	}
	return append(env, "GOFLAGS=-mod=mod", "GOPROXY=off")
}

type nativeRun struct {
	Failed   []string
	Reach    []string
	Obs      []string
	Panic    string
	Done     string
	Raw      string
	TimedOut bool
}

func runNative(bin string, replayPath string, harness string, timeout time.Duration) (*nativeRun, error) {
	cmd := exec.Command(bin, "-test.run", "^TestVHReplay$", "-test.v", "-test.timeout", "120s")
	cmd.Env = append(os.Environ(), "VERIF_REPLAY="+replayPath, "VERIF_HARNESS="+harness, "VERIF_TIER="+*flagTier)
	cmd.Dir = filepath.Dir(bin)
	var outb bytes.Buffer
	cmd.Stdout = &outb
	cmd.Stderr = &outb
	done := make(chan error, 1)
	if err := cmd.Start(); err != nil {
		return nil, err
	}
	go func() { done <- cmd.Wait() }()
	nr := &nativeRun{}
	select {
	case <-done:
	case <-time.After(timeout):
		cmd.Process.Kill()
		<-done
		nr.TimedOut = true
	}
	nr.Raw = outb.String()
	for _, line := range strings.Split(nr.Raw, "\n") {
		line = strings.TrimSpace(line)
		switch {
		case strings.HasPrefix(line, "VERIF-ASSERT-FAILED "):
			nr.Failed = append(nr.Failed, strings.TrimPrefix(line, "VERIF-ASSERT-FAILED "))
		case strings.HasPrefix(line, "VERIF-REACH "):
			nr.Reach = append(nr.Reach, strings.TrimPrefix(line, "VERIF-REACH "))
		case strings.HasPrefix(line, "VERIF-OBS "):
			nr.Obs = append(nr.Obs, strings.TrimPrefix(line, "VERIF-OBS "))
		case strings.HasPrefix(line, "VERIF-PANIC "):
			nr.Panic = strings.TrimPrefix(line, "VERIF-PANIC ")
		case strings.HasPrefix(line, "VERIF-DONE "):
			nr.Done = strings.TrimPrefix(line, "VERIF-DONE ")
		case strings.HasPrefix(line, "panic: ") && nr.Panic == "":
			nr.Panic = strings.TrimPrefix(line, "panic: ")
		case strings.HasPrefix(line, "fatal error: ") && nr.Panic == "":
			nr.Panic = line
		}
	}
	return nr, nil
}

// labelHead returns the part of a violation label that must match natively.
func labelHead(l string) string {
	// labels produced by NoPanic are "<label>:<sanitised message>"; uncaught panics "panic:<site>:<msg>"
	if strings.HasPrefix(l, "panic:") {
		return "panic"
	}
	if i := strings.Index(l, ":"); i >= 0 {
		return l[:i]
	}
	return l
}

// reproduced decides whether a native run shows the violation.
func reproduced(v *violation, nr *nativeRun) bool {
	switch v.Kind {
	case "race":
		return strings.Contains(nr.Raw, "WARNING: DATA RACE")
	case "panic":
		return nr.Panic != ""
	case "wedge":
		for _, f := range nr.Failed {
			if f == v.Label {
				return true
			}
		}
		return nr.TimedOut
	case "deadlock":
		return nr.TimedOut || strings.Contains(nr.Raw, "all goroutines are asleep") || strings.Contains(nr.Raw, "test timed out")
	}
	for _, f := range nr.Failed {
		if strings.TrimSpace(f) == strings.TrimSpace(v.Label) {
			return true
		}
		// NoPanic labels are "<base>:<sanitised panic message>": the message may render
		// symbolic values differently, so compare the base only
		if i := strings.Index(v.Label, "-panics:"); i >= 0 && strings.HasPrefix(f, v.Label[:i+8]) {
			return true
		}
	}
	return false
}

func replayFile(prop, harnessDir, rtDir, path string) int {
	b, err := os.ReadFile(path)
	if err != nil {
		fmt.Fprintln(os.Stderr, err)
		return 2
	}
	var v violation
	if err := json.Unmarshal(b, &v); err != nil || v.Replay == nil {
		fmt.Fprintln(os.Stderr, "not a violation file:", path)
		return 2
	}
	var cfg config
	if cb, err := os.ReadFile(filepath.Join(harnessDir, "config.json")); err == nil {
		json.Unmarshal(cb, &cfg)
	}
	setModReplace(cfg)
	tags := "math_big_pure_go"
	if cfg.Tags != "" {
		tags += "," + cfg.Tags
	}
	ld, err := loadProgram(*flagRepo, harnessDir, rtDir, tags, cfg.Shared)
	if err != nil {
		fmt.Fprintln(os.Stderr, "LOAD FAILED:", err)
		return 2
	}
	nb, err := buildNative(*flagRepo, ld, cfg.Tags)
	defer nb.cleanup()
	if err != nil {
		fmt.Fprintln(os.Stderr, err)
		return 2
	}
	rp := filepath.Join(nb.tmp, "replay.json")
	rb, _ := json.Marshal(v.Replay)
	os.WriteFile(rp, rb, 0o644)
	bin := ""
	for i, dir := range ld.harnessPkgDirs {
		for _, h := range ld.harnesses {
			if h.Pkg == ld.pkgs[i] && h.Name() == v.Replay.Harness {
				bin = nb.bins[dir]
			}
		}
	}
	if bin == "" {
		fmt.Fprintln(os.Stderr, "harness not found:", v.Replay.Harness)
		return 2
	}
	nr, err := runNative(bin, rp, v.Replay.Harness, 150*time.Second)
	if err != nil {
		fmt.Fprintln(os.Stderr, err)
		return 2
	}
	fmt.Print(nr.Raw)
	if reproduced(&v, nr) {
		fmt.Printf("VIOLATION property=%s replay=%s\n", prop, path)
		return 1
	}
	fmt.Println("not reproduced")
	return 0
}
