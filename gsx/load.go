package main

import (
	"fmt"
	"go/types"
	"os"
	"path/filepath"
	"sort"
	"strings"

	"golang.org/x/tools/go/packages"
	"golang.org/x/tools/go/ssa"
	"golang.org/x/tools/go/ssa/ssautil"
)

type loaded struct {
	prog       *ssa.Program
	pkgs       []*ssa.Package
	harnesses  []*ssa.Function
	modulePath string
	rtPath     string
	overlay    map[string]string // virtual path -> real path
	harnessPkgDirs []string // repo-relative dirs holding harness files
}

// collectOverlay maps files under harnessDir (laid out by repo-relative package
// path) and the verifrt package onto paths inside the repo.
func collectOverlay(repo, harnessDir, rtDir string, shared []string) (map[string]string, []string, error) {
	ov := map[string]string{}
	dirs := map[string]bool{}
	walk := func(root string, isHarness bool) error {
		return filepath.Walk(root, func(p string, info os.FileInfo, err error) error {
			if err != nil {
				return err
			}
			if info.IsDir() || !strings.HasSuffix(p, ".go") {
				return nil
			}
			rel, _ := filepath.Rel(root, p)
			ov[filepath.Join(repo, rel)] = p
			if isHarness {
				dirs[filepath.Dir(rel)] = true
			}
			return nil
		})
	}
	if err := walk(harnessDir, true); err != nil {
		return nil, nil, err
	}
	// shared kits: harness/_shared/<name>/<repo-relative path>/*.go
	for _, sh := range shared {
		if err := walk(filepath.Join(filepath.Dir(harnessDir), "_shared", sh), false); err != nil {
			return nil, nil, err
		}
	}
	// rtDir/verifrt/*.go -> internal/verifrt ; rtDir/<sub>/*.go -> internal/verifrt/<sub>
	subs, err := os.ReadDir(rtDir)
	if err != nil {
		return nil, nil, err
	}
	for _, sd := range subs {
		if !sd.IsDir() {
			continue
		}
		ents, err := os.ReadDir(filepath.Join(rtDir, sd.Name()))
		if err != nil {
			return nil, nil, err
		}
		for _, e := range ents {
			if !strings.HasSuffix(e.Name(), ".go") {
				continue
			}
			dst := filepath.Join(repo, "internal", "verifrt", sd.Name(), e.Name())
			if sd.Name() == "verifrt" {
				dst = filepath.Join(repo, "internal", "verifrt", e.Name())
			}
			ov[dst] = filepath.Join(rtDir, sd.Name(), e.Name())
		}
	}
	var ds []string
	for d := range dirs {
		ds = append(ds, d)
	}
	sort.Strings(ds)
	return ov, ds, nil
}

func loadProgram(repo, harnessDir, rtDir string, tags string, shared []string) (*loaded, error) {
	ov, dirs, err := collectOverlay(repo, harnessDir, rtDir, shared)
	if err != nil {
		return nil, err
	}
	if len(dirs) == 0 {
		return nil, fmt.Errorf("no harness files under %s", harnessDir)
	}
	overlay := map[string][]byte{}
	for virt, real := range ov {
		b, err := os.ReadFile(real)
		if err != nil {
			return nil, err
		}
		overlay[virt] = b
	}
	// go/packages looks `go` up in the process PATH: put go1.26.8 first while loading.
	origPath := os.Getenv("PATH")
	os.Setenv("PATH", "/opt/veriftools/go1.26.8/bin:"+origPath)
	defer os.Setenv("PATH", origPath)
	env := os.Environ()
	env = append(env, "GOTOOLCHAIN=local", "GOFLAGS=-mod=mod", "GOPROXY=off", "GOSUMDB=off")
	buildFlags := []string{"-tags=" + tags}
	if len(modReplace) > 0 {
		mtmp, err := os.MkdirTemp("", "gsx-mod-")
		if err != nil {
			return nil, err
		}
		defer os.RemoveAll(mtmp)
		if mf := privateModfile(repo, mtmp); mf != "" {
			buildFlags = append(buildFlags, "-modfile="+mf)
		}
	}
	cfg := &packages.Config{
		Mode:       packages.LoadAllSyntax | packages.NeedModule,
		Dir:        repo,
		Env:        env,
		Overlay:    overlay,
		BuildFlags: buildFlags,
	}
	var patterns []string
	for _, d := range dirs {
		patterns = append(patterns, "./"+d)
	}
	initial, err := packages.Load(cfg, patterns...)
	if err != nil {
		return nil, err
	}
	nerr := 0
	packages.Visit(initial, nil, func(p *packages.Package) {
		for _, e := range p.Errors {
			// errors in dependencies with cgo disabled are tolerated only outside the module
			if nerr < 20 {
				fmt.Fprintf(os.Stderr, "load error: %s: %v\n", p.PkgPath, e)
			}
			nerr++
		}
	})
	if nerr > 0 {
		return nil, fmt.Errorf("%d package load errors (harness does not compile against the current tree?)", nerr)
	}
	prog, pkgs := ssautil.AllPackages(initial, ssa.InstantiateGenerics|ssa.SanityCheckFunctions&0)
	prog.Build()

	ld := &loaded{prog: prog, overlay: ov, harnessPkgDirs: dirs}
	if len(initial) > 0 && initial[0].Module != nil {
		ld.modulePath = initial[0].Module.Path
	}
	ld.rtPath = ld.modulePath + "/internal/verifrt"
	ld.harnessPkgDirs = nil
	for i, p := range initial {
		sp := pkgs[i]
		if sp == nil {
			return nil, fmt.Errorf("no SSA for %s", p.PkgPath)
		}
		ld.pkgs = append(ld.pkgs, sp)
		// keep dirs aligned with pkgs (packages.Load does not preserve pattern order)
		ld.harnessPkgDirs = append(ld.harnessPkgDirs, strings.TrimPrefix(strings.TrimPrefix(p.PkgPath, ld.modulePath), "/"))
		var names []string
		for name, mem := range sp.Members {
			if f, ok := mem.(*ssa.Function); ok && strings.HasPrefix(name, "VH_") {
				if f.Signature.Params().Len() == 0 && f.Signature.Results().Len() == 0 {
					names = append(names, name)
				}
			}
		}
		sort.Strings(names)
		for _, n := range names {
			ld.harnesses = append(ld.harnesses, sp.Func(n))
		}
	}
	if rp := prog.ImportedPackage("runtime"); rp != nil {
		if tn := rp.Type("errorString"); tn != nil {
			theRuntimeErrorString = tn.Object().Type()
		}
	}
	_ = types.Typ
	return ld, nil
}
