package main

import (
	"fmt"
	"go/token"
	"os"
	"sort"
	"strings"
	"sync"
	"time"

	"golang.org/x/tools/go/ssa"
)

type budgets struct {
	MaxSteps     int `json:"max_ssa_instructions_per_path"`
	MaxDecisions int `json:"max_decisions_per_path"`
	MaxPaths     int `json:"max_paths_per_harness"`
	QueryMs      int `json:"solver_timeout_ms_per_query"`
	WallS        int `json:"wall_budget_s_per_harness"`
}

type worker struct {
	id          int
	in          *interpreter
	solver      *solver
	ufDeclared  map[string]bool
	lastUnknown string
	inQueryPush bool
	ex          *explorer
	epoch       int
}

func (w *worker) alreadyViolated(h, label string) bool {
	w.ex.mu.Lock()
	defer w.ex.mu.Unlock()
	_, ok := w.ex.res.Violations[label]
	return ok
}

type oblSample struct {
	Harness string `json:"harness"`
	Label   string `json:"label"`
	PC      []string `json:"path_condition"`
	Goal    string `json:"goal"`
	Verdict string `json:"verdict"`
}

func (w *worker) addSample(m *machine, label string, goal *term) {
	ex := w.ex
	ex.mu.Lock()
	defer ex.mu.Unlock()
	if ex.sampleLabels[label] >= 1 || len(ex.res.Samples) >= 12 {
		return
	}
	ex.sampleLabels[label]++
	s := oblSample{Harness: m.harness, Label: label, Goal: "(not " + clip(goal.String(), 600) + ")", Verdict: "unsat"}
	for i, c := range m.pc {
		if i >= 6 {
			s.PC = append(s.PC, fmt.Sprintf("… %d more conjuncts", len(m.pc)-i))
			break
		}
		s.PC = append(s.PC, clip(c.String(), 300))
	}
	ex.res.Samples = append(ex.res.Samples, s)
}

func clip(s string, n int) string {
	if len(s) > n {
		return s[:n] + "…"
	}
	return s
}

type harnessResult struct {
	Harness      string                `json:"harness"`
	Paths        int                   `json:"paths"`
	PathsOK      int                   `json:"paths_completed"`
	Infeasible   int                   `json:"paths_pruned_infeasible"`
	Bound        int                   `json:"paths_bound_exceeded"`
	Unsupported  int                   `json:"paths_unsupported"`
	Inconclusive int                   `json:"paths_inconclusive"`
	Deadlocks    int                   `json:"paths_deadlock"`
	Decisions    int                   `json:"decisions"`
	Queries      int                   `json:"solver_queries"`
	Obligations  int                   `json:"obligations"`
	OblSymbolic  int                   `json:"obligations_solver_decided"`
	Steps        int64                 `json:"ssa_instructions"`
	Reach        map[string]int        `json:"reach"`
	Violations   map[string]*violation `json:"-"`
	ViolCount    map[string]int        `json:"violation_paths"`
	Problems     []string              `json:"problems,omitempty"`
	Samples      []oblSample           `json:"-"`
	Funcs        map[string]bool       `json:"-"`
	Summaries    map[string]bool       `json:"-"`
	WallS        float64               `json:"wall_s"`
	SolverS      float64               `json:"solver_s"`
	Truncated    bool                  `json:"truncated_by_budget"`
	witnesses    []*witness
	witnessCap   int
	witnessAsked int
}

type explorer struct {
	mu           sync.Mutex
	cond         *sync.Cond
	work         [][]int
	active       int
	stop         bool
	res          *harnessResult
	sampleLabels map[string]int
	b            budgets
	fn           *ssa.Function
	deadline     time.Time
}

func newInterpreter(ld *loaded) *interpreter {
	in := &interpreter{
		prog:       ld.prog,
		globals:    make(map[*ssa.Global]*value),
		sizes:      nil,
		modulePath: ld.modulePath,
		rtPath:     ld.rtPath,
	}
	in.initAllow = func(p *ssa.Package) bool {
		pp := p.Pkg.Path()
		if strings.HasPrefix(pp, ld.modulePath) {
			return true
		}
		return initAllowStd[pp]
	}
	return in
}

var initAllowStd = map[string]bool{
	"errors": true, "io": true, "bytes": true, "strings": true, "strconv": true,
	"unicode/utf8": true, "sort": true, "slices": true, "maps": true, "encoding/binary": true,
	"math/bits": true, "math/big": true, "encoding/hex": true, "context": true, "cmp": true,
	"iter": true, "math": true, "encoding/base64": true, "io/fs": true,
	"github.com/bits-and-blooms/bitset": true,
	"github.com/libp2p/go-libp2p-pubsub": false,
}

func newMachine(w *worker, harness string, prefix []int, b budgets) *machine {
	return &machine{
		w: w, in: w.in, tt: newTermTable(), harness: harness, prefix: prefix,
		maxSteps: b.MaxSteps, maxDecs: b.MaxDecisions,
		varSeq:  map[string]int{},
		abortCh: make(chan struct{}), doneCh: make(chan struct{}, 4),
		mutexes: map[*value]*mutexState{}, onces: map[*value]*onceState{}, wgs: map[*value]*wgState{},
		funcs: map[string]bool{},
		summarize: map[string]bool{}, sumCache: map[string]value{}, sumUsed: map[string]bool{},
	}
}

// runPath executes fn once with the given decision prefix.
func (w *worker) runPath(fn *ssa.Function, prefix []int, b budgets) *machine {
	w.epoch++
	w.ufDeclared = map[string]bool{}
	w.inQueryPush = false
	if w.solver != nil {
		w.solver.reset(w.id*1_000_000_000 + w.epoch)
	}
	m := newMachine(w, fn.Name(), prefix, b)
	t0 := m.startThread(w.in, "main", func(t *thread) {
		callOnThread(w.in, m, t, token.NoPos, fn, nil)
		m.ensureFeasible()
		if w.ex != nil && w.ex.wantWitness() {
			m.wit = m.makeWitness()
		}
	})
	m.cur = t0
	t0.resume <- struct{}{}
	<-m.doneCh
	return m
}

// runInit executes the package initialisers concretely.
func (w *worker) runInit(pkgs []*ssa.Package) error {
	for _, p := range pkgs {
		initFn := p.Func("init")
		if initFn == nil {
			continue
		}
		m := w.runPath(initFn, nil, budgets{MaxSteps: 200_000_000, MaxDecisions: 10})
		if m.status != abortEnd {
			return fmt.Errorf("package init of %s failed: %s (%d)", p.Pkg.Path(), m.statusMsg, m.status)
		}
	}
	return nil
}

func (ex *explorer) run(workers []*worker) {
	var wg sync.WaitGroup
	for _, w := range workers {
		w.ex = ex
		wg.Add(1)
		go func(w *worker) {
			defer wg.Done()
			for {
				ex.mu.Lock()
				for len(ex.work) == 0 && ex.active > 0 && !ex.stop {
					ex.cond.Wait()
				}
				if ex.stop || (len(ex.work) == 0 && ex.active == 0) {
					ex.mu.Unlock()
					ex.cond.Broadcast()
					return
				}
				prefix := ex.work[len(ex.work)-1]
				ex.work = ex.work[:len(ex.work)-1]
				ex.active++
				ex.mu.Unlock()

				q0, e0 := w.solver.queries, w.solver.elapsed
				m := w.runPath(ex.fn, prefix, ex.b)

				ex.mu.Lock()
				ex.active--
				ex.absorb(m, w.solver.queries-q0, w.solver.elapsed-e0)
				if !ex.stop {
					ex.work = append(ex.work, m.alts...)
				}
				if ex.res.Paths >= ex.b.MaxPaths || time.Now().After(ex.deadline) {
					if len(ex.work) > 0 {
						ex.res.Truncated = true
					}
					ex.stop = true
				}
				ex.mu.Unlock()
				ex.cond.Broadcast()
			}
		}(w)
	}
	wg.Wait()
}

func (ex *explorer) absorb(m *machine, queries int, solverTime time.Duration) {
	r := ex.res
	r.Paths++
	r.Decisions += len(m.decs)
	r.Queries += queries
	r.SolverS += solverTime.Seconds()
	r.Obligations += m.nObl
	r.OblSymbolic += m.nOblSym
	r.Steps += int64(m.steps)
	for f := range m.funcs {
		r.Funcs[f] = true
	}
	for f := range m.sumUsed {
		r.Summaries[f] = true
	}
	problem := func(kind string) {
		msg := kind + ": " + m.statusMsg + fmt.Sprintf(" [prefix %v]", m.curPrefix())
		if len(r.Problems) < 10 {
			for _, p := range r.Problems {
				if p == msg {
					return
				}
			}
			r.Problems = append(r.Problems, msg)
		}
	}
	switch m.status {
	case abortEnd:
		r.PathsOK++
		if m.wit != nil && len(r.witnesses) < r.witnessCap {
			r.witnesses = append(r.witnesses, m.wit)
		}
	case abortInfeasible:
		r.Infeasible++
	case abortBound:
		r.Bound++
		problem("bound-exceeded")
	case abortUnsupported:
		r.Unsupported++
		problem("unsupported")
	case abortInconclusive:
		r.Inconclusive++
		problem("inconclusive")
	case abortDeadlock:
		r.Deadlocks++
	case abortViolation:
		r.PathsOK++
	}
	if m.status == abortEnd || m.status == abortViolation || m.status == abortDeadlock {
		for _, l := range m.reach {
			r.Reach[l]++
		}
	}
	for i := range m.viols {
		v := m.viols[i]
		r.ViolCount[v.Label]++
		if _, ok := r.Violations[v.Label]; !ok {
			vv := v
			r.Violations[v.Label] = &vv
		}
	}
}

func (ex *explorer) wantWitness() bool {
	ex.mu.Lock()
	defer ex.mu.Unlock()
	if ex.res == nil || ex.res.witnessAsked >= ex.res.witnessCap {
		return false
	}
	ex.res.witnessAsked++
	return true
}

func exploreHarness(fn *ssa.Function, workers []*worker, b budgets, witnessCap int) *harnessResult {
	res := &harnessResult{witnessCap: witnessCap, Harness: fn.Name(), Reach: map[string]int{}, Violations: map[string]*violation{}, ViolCount: map[string]int{}, Funcs: map[string]bool{}, Summaries: map[string]bool{}}
	ex := &explorer{res: res, sampleLabels: map[string]int{}, b: b, fn: fn}
	ex.cond = sync.NewCond(&ex.mu)
	ex.work = [][]int{nil}
	ex.deadline = time.Now().Add(time.Duration(b.WallS) * time.Second)
	t0 := time.Now()
	ex.run(workers)
	res.WallS = time.Since(t0).Seconds()
	return res
}

func sortedLabels(m map[string]int) []string {
	var r []string
	for k := range m {
		r = append(r, k)
	}
	sort.Strings(r)
	return r
}

func logf(format string, args ...any) {
	fmt.Fprintf(os.Stderr, format+"\n", args...)
}
