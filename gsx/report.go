package main

import (
	"encoding/json"
	"fmt"
	"os"
	"path/filepath"
	"sort"
	"strings"
	"time"
)

type witness struct {
	Harness string       `json:"harness"`
	Replay  *replayInput `json:"replay"`
	Reach   []string     `json:"reach"`
	Obs     []string     `json:"obs"`
}

// makeWitness extracts a model of the finished path's condition together with
// the expected labels and observations (translator validation input).
func (m *machine) makeWitness() *witness {
	if m.schedDep {
		return nil
	}
	if r := m.query(nil); r != resSat {
		return nil
	}
	rp, err := m.extractModel()
	if err != nil {
		return nil
	}
	w := &witness{Harness: m.harness, Replay: rp, Reach: append([]string(nil), m.reach...)}
	var sb strings.Builder
	var refs []string
	for _, o := range m.obs {
		for _, v := range o.vals {
			if s, ok := v.(sym); ok {
				refs = append(refs, s.t.ref(&sb, m.w.solver.epoch))
			}
		}
	}
	vals := map[string]uint64{}
	if len(refs) > 0 {
		m.w.solver.send(sb.String())
		vals, err = m.w.solver.getValues(refs)
		if err != nil {
			return nil
		}
	}
	var dummy strings.Builder
	for _, o := range m.obs {
		var line strings.Builder
		line.WriteString(o.label)
		if o.bytes {
			line.WriteString(" ")
		}
		for _, v := range o.vals {
			var x uint64
			if s, ok := v.(sym); ok {
				x = vals[s.t.ref(&dummy, m.w.solver.epoch)]
				if s.t.w == 0 && x != 0 {
					x = 1
				}
			} else if bv, ok := v.(bool); ok {
				if bv {
					x = 1
				}
			} else {
				x = uint64(asInt64(v))
				if k := valueKind(v); kindWidth(k) < 64 && !o.bytes {
					// native Observe takes uint64 arguments: conversions happened in the harness
				}
			}
			if o.bytes {
				fmt.Fprintf(&line, "%02x", x&0xff)
			} else {
				fmt.Fprintf(&line, " %x", x)
			}
		}
		if o.bytes {
			line.WriteString(".")
		}
		w.Obs = append(w.Obs, line.String())
	}
	return w
}

type report struct {
	PropertyID  string         `json:"property_id"`
	Tier        string         `json:"tier"`
	Seed        int64          `json:"seed"`
	Level       string         `json:"level"`
	Coverage    map[string]any `json:"coverage"`
	Assumptions []string       `json:"assumptions"`
	WallS       float64        `json:"wall_s"`
	Violations  int            `json:"violations"`

	exit        int
	summary     string
	stdoutLines []string
}

func writeEvidence(path string, rep *report) {
	rep.Coverage["wall_s_total"] = rep.WallS
	b, _ := json.MarshalIndent(rep, "", " ")
	os.WriteFile(path, append(b, '\n'), 0o644)
}

func writeEvidenceFailure(path, prop, tier string, seed int64, cfg config, msg string, wall float64) {
	rep := &report{PropertyID: prop, Tier: tier, Seed: seed, Level: cfg.Level, WallS: wall,
		Coverage: map[string]any{"machinery_failure": msg, "evaluations": 0, "distinct_nontrivial": 0}}
	b, _ := json.MarshalIndent(rep, "", " ")
	os.WriteFile(path, append(b, '\n'), 0o644)
}

func matchKnown(known []knownFinding, prop, harness, label string) *knownFinding {
	for i := range known {
		k := &known[i]
		if k.Property != prop {
			continue
		}
		if k.Harness != "" && k.Harness != harness {
			continue
		}
		if label == k.Label || strings.HasPrefix(label, k.Label) {
			return k
		}
	}
	return nil
}

func buildReport(prop, tier string, seed int64, cfg config, b budgets, ld *loaded, results []*harnessResult,
	reachDecl map[string][]string, known []knownFinding, outDir, harnessDir, rtDir string, nw int, loadS float64) *report {

	rep := &report{PropertyID: prop, Tier: tier, Seed: seed, Level: cfg.Level, Coverage: map[string]any{}}
	rep.Assumptions = append(rep.Assumptions, cfg.Assumptions...)
	cov := rep.Coverage

	states, transitions, queries, obl, oblSym := 0, 0, 0, 0, 0
	var solverS float64
	funcs := map[string]bool{}
	summaries := map[string]bool{}
	var samples []any
	var problems []string
	inconclusive, unsupported, bound := 0, 0, 0
	truncated := false
	var vacuous []string
	var perHarness []any
	type pendingViol struct {
		h *harnessResult
		v *violation
	}
	var pend []pendingViol
	for _, r := range results {
		states += r.PathsOK
		transitions += r.Decisions
		queries += r.Queries
		obl += r.Obligations
		oblSym += r.OblSymbolic
		solverS += r.SolverS
		inconclusive += r.Inconclusive
		unsupported += r.Unsupported
		bound += r.Bound
		truncated = truncated || r.Truncated
		for f := range r.Funcs {
			funcs[f] = true
		}
		for f := range r.Summaries {
			summaries[f] = true
		}
		for _, s := range r.Samples {
			samples = append(samples, s)
		}
		for _, p := range r.Problems {
			problems = append(problems, r.Harness+": "+clip(p, 600))
		}
		for _, l := range reachDecl[r.Harness] {
			if r.Reach[l] == 0 {
				vacuous = append(vacuous, r.Harness+":"+l)
			}
		}
		perHarness = append(perHarness, r)
		var labels []string
		for l := range r.Violations {
			labels = append(labels, l)
		}
		sort.Strings(labels)
		for _, l := range labels {
			pend = append(pend, pendingViol{r, r.Violations[l]})
		}
	}
	if len(samples) == 0 {
		for _, r := range results {
			samples = append(samples, map[string]any{"harness": r.Harness, "paths": r.Paths, "reach": r.Reach})
		}
	}

	// ---- native: violations replay + witnesses
	var nb *nativeBuild
	var nativeErr error
	needNative := !*flagNoNative && (len(pend) > 0 || !cfg.NoWitness)
	if needNative {
		nb, nativeErr = buildNative(*flagRepo, ld, cfg.Tags)
		defer nb.cleanup()
		if nativeErr != nil {
			problems = append(problems, "native build failed: "+clip(nativeErr.Error(), 2000))
		}
	}
	var nbRace *nativeBuild
	defer func() { nbRace.cleanup() }()
	binFor := func(harness string) string {
		if nb == nil {
			return ""
		}
		for i, dir := range ld.harnessPkgDirs {
			for _, h := range ld.harnesses {
				if h.Pkg == ld.pkgs[i] && h.Name() == harness {
					return nb.bins[dir]
				}
			}
		}
		return ""
	}

	validated, witnessMismatch := 0, 0
	if nb != nil && nativeErr == nil && !cfg.NoWitness {
		for _, r := range results {
			for wi, w := range r.witnesses {
				p := filepath.Join(nb.tmp, fmt.Sprintf("wit-%s-%d.json", r.Harness, wi))
				wb, _ := json.Marshal(w.Replay)
				os.WriteFile(p, wb, 0o644)
				nr, err := runNative(binFor(r.Harness), p, r.Harness, 150*time.Second)
				if err != nil {
					problems = append(problems, "witness run failed: "+err.Error())
					witnessMismatch++
					continue
				}
				ok := nr.Done == "ok" && len(nr.Failed) == 0 && strings.Join(nr.Reach, "|") == strings.Join(w.Reach, "|") && strings.Join(nr.Obs, "|") == strings.Join(w.Obs, "|")
				if ok {
					validated++
				} else {
					witnessMismatch++
					keep := filepath.Join(outDir, fmt.Sprintf("witness-mismatch-%s-%d.json", r.Harness, wi))
					os.WriteFile(keep, wb, 0o644)
					problems = append(problems, fmt.Sprintf("translator validation mismatch in %s (%s): native done=%q failed=%v reach=%v obs=%v / symbolic reach=%v obs=%v",
						r.Harness, keep, nr.Done, nr.Failed, nr.Reach, nr.Obs, w.Reach, w.Obs))
				}
			}
		}
	}

	newViol, knownHit, unreproduced := 0, 0, 0
	var violOut []any
	knownPrinted := map[string]bool{}
	for _, pv := range pend {
		v := pv.v
		file := filepath.Join(outDir, fmt.Sprintf("%s-%s-%08x.json", tier, pv.h.Harness, hashStr(v.Label)))
		vb, _ := json.MarshalIndent(v, "", " ")
		os.WriteFile(file, vb, 0o644)
		status := "unreplayed"
		if nb != nil && nativeErr == nil && v.Replay != nil {
			p := filepath.Join(nb.tmp, fmt.Sprintf("viol-%08x.json", hashStr(pv.h.Harness+v.Label)))
			rb, _ := json.Marshal(v.Replay)
			os.WriteFile(p, rb, 0o644)
			tries := 1
			if v.Schedule {
				tries = 20
			}
			status = "not-reproduced"
			for t := 0; t < tries; t++ {
				bin := binFor(pv.h.Harness)
				if v.Kind == "race" {
					// confirmation by the Go race detector: the same harness, built with -race
					if nbRace == nil {
						var rerr error
						nbRace, rerr = buildNativeOpt(*flagRepo, ld, cfg.Tags, true)
						if rerr != nil {
							status = "replay-error: race build failed: " + clip(rerr.Error(), 500)
							break
						}
					}
					for i, dir := range ld.harnessPkgDirs {
						for _, h := range ld.harnesses {
							if h.Pkg == ld.pkgs[i] && h.Name() == pv.h.Harness {
								bin = nbRace.bins[dir]
							}
						}
					}
				}
				nr, err := runNative(bin, p, pv.h.Harness, 150*time.Second)
				if err != nil {
					status = "replay-error: " + err.Error()
					break
				}
				if reproduced(v, nr) {
					status = "reproduced"
					break
				}
				if t == tries-1 {
					os.WriteFile(file+".native.txt", []byte(nr.Raw), 0o644)
				}
			}
		}
		kf := matchKnown(known, prop, pv.h.Harness, v.Label)
		entry := map[string]any{"harness": pv.h.Harness, "label": v.Label, "kind": v.Kind, "paths": pv.h.ViolCount[v.Label], "replay_file": file, "native": status}
		if v.Replay != nil {
			entry["inputs"] = v.Replay.Vars
		}
		switch {
		case status != "reproduced":
			unreproduced++
			entry["disposition"] = "unreproduced (machinery problem or schedule-dependent)"
			problems = append(problems, fmt.Sprintf("violation %s/%s not reproduced natively (%s); see %s", pv.h.Harness, v.Label, status, file))
		case kf != nil:
			knownHit++
			entry["disposition"] = "known finding " + kf.ID
			key := kf.ID + kf.What
			if !knownPrinted[key] {
				knownPrinted[key] = true
				rep.stdoutLines = append(rep.stdoutLines, fmt.Sprintf("KNOWN-FINDING: property=%s %s [%s %s]", prop, kf.What, pv.h.Harness, v.Label))
			}
		default:
			newViol++
			entry["disposition"] = "VIOLATION"
			rep.stdoutLines = append(rep.stdoutLines, fmt.Sprintf("VIOLATION property=%s replay=%s", prop, file))
			logf("violation: harness=%s label=%s inputs=%v", pv.h.Harness, v.Label, entry["inputs"])
		}
		violOut = append(violOut, entry)
	}
	rep.Violations = newViol

	if states < 1 {
		states = 0
	}
	cov["states"] = states
	cov["transitions"] = transitions
	cov["traces_validated_against_impl"] = validated
	cov["samples"] = samples
	cov["solver_queries"] = queries
	cov["solver_time_s"] = solverS
	cov["obligations"] = obl
	cov["obligations_solver_decided"] = oblSym
	cov["harnesses"] = perHarness
	cov["functions_encoded"] = sortedKeys(funcs)
	cov["bounds"] = cfg.Bounds
	cov["budgets"] = b
	cov["stubs"] = append(append([]string(nil), cfg.Stubs...), sortedKeys(summaries)...)
	cov["workers"] = nw
	cov["load_s"] = loadS
	if cfg.Solver == "cvc5" {
		cov["solver"] = "portfolio: cvc5 1.0 (--incremental --solve-bv-as-int=sum) primary, z3 4.8.12 (-in, qfbv/qfufbv tactic) on unknown"
	} else {
		cov["solver"] = "portfolio: z3 4.8.12 (-in; incremental core then qfbv/qfufbv tactic) primary, cvc5 1.0 (--solve-bv-as-int=sum) on unknown"
	}
	cov["problems"] = problems
	cov["vacuous_labels"] = vacuous
	cov["violations_detail"] = violOut
	cov["known_findings_hit"] = knownHit
	cov["exhaustive"] = !truncated && inconclusive == 0 && unsupported == 0 && bound == 0
	cov["rule"] = "one state = one completed symbolic path (an equivalence class of inputs fixed by its branch decisions); transitions = branch/choice decisions; an obligation is an Assert discharged by z3 as unsat of PC∧¬goal"
	cov["evaluations"] = states
	cov["distinct_nontrivial"] = states
	if cfg.Level == "proof" {
		cov["discharged"] = obl
		if newViol > 0 || knownHit > 0 || inconclusive > 0 {
			cov["discharged"] = 0
		}
		cov["checker_cmd"] = "./check " + prop + " " + tier
		cov["trusted_base"] = cfg.TrustedBase
	}
	if cfg.Explanation != "" {
		cov["explanation"] = cfg.Explanation
	}
	if nb != nil {
		cov["native_build_s"] = nb.buildS
	}

	switch {
	case newViol > 0:
		rep.exit, rep.summary = 1, fmt.Sprintf("%d new violation(s)", newViol)
	case nativeErr != nil || unsupported > 0 || len(vacuous) > 0 || witnessMismatch > 0 || (unreproduced > 0 && !*flagNoNative):
		rep.exit, rep.summary = 2, fmt.Sprintf("machinery problem: unsupported=%d vacuous=%v witnessMismatch=%d unreproduced=%d nativeErr=%v", unsupported, vacuous, witnessMismatch, unreproduced, nativeErr != nil)
	case inconclusive > 0 || bound > 0 || truncated:
		rep.exit, rep.summary = 3, fmt.Sprintf("inconclusive: solver-unknown paths=%d bound-exceeded paths=%d truncated=%v", inconclusive, bound, truncated)
	case *flagNoNative && len(pend) > 0:
		rep.exit, rep.summary = 2, "violations found but native replay disabled"
	default:
		rep.exit, rep.summary = 0, fmt.Sprintf("all %d obligations discharged on %d paths; %d known finding(s)", obl, states, knownHit)
	}
	for _, p := range problems {
		logf("problem: %s", clip(p, 3000))
	}
	return rep
}
