package main

// Intrinsics for C19 (gtxbuf).
//
// errors.As: the version in intrinsics2.go calls prog.LookupMethod(t, nil, "As") which
// panics ("has no method As") for an error type without that method. This override
// (init order: intrinsics2.go < intrinsics_c19.go) looks methods up through the method
// set instead; behaviour is otherwise identical.

import (
	"go/token"
	"go/types"

	"golang.org/x/tools/go/ssa"
)

func init() {
	externals["errors.As"] = extErrorsAsC19
}

func lookupMethodOpt(fr *frame, t types.Type, name string) *ssa.Function {
	if t == nil {
		return nil
	}
	sel := fr.i.prog.MethodSets.MethodSet(t).Lookup(nil, name)
	if sel == nil {
		return nil
	}
	return fr.i.prog.MethodValue(sel)
}

func extErrorsAsC19(fr *frame, args []value) value {
	err, _ := args[0].(iface)
	target, _ := args[1].(iface)
	if target.t == nil {
		panic(targetPanic{iface{types.Typ[types.String], "errors: target cannot be nil"}})
	}
	pt, ok := target.t.Underlying().(*types.Pointer)
	tp, _ := target.v.(*value)
	if !ok || tp == nil {
		panic(targetPanic{iface{types.Typ[types.String], "errors: target must be a non-nil pointer"}})
	}
	T := pt.Elem()
	_, targetIsIface := T.Underlying().(*types.Interface)
	return errorsAsC19(fr, err, T, targetIsIface, tp, target, 0)
}

func errorsAsC19(fr *frame, err iface, T types.Type, targetIsIface bool, tp *value, target iface, depth int) bool {
	for err.t != nil {
		if depth > 50 {
			panic(internalError{"errors.As: chain too deep"})
		}
		depth++
		if types.AssignableTo(err.t, T) {
			if targetIsIface {
				*tp = err
			} else {
				store(T, tp, err.v)
			}
			return true
		}
		if f := lookupMethodOpt(fr, err.t, "As"); f != nil {
			if r, ok := call(fr.i, fr, token.NoPos, f, []value{err.v, target}).(bool); ok && r {
				return true
			}
		}
		f := lookupMethodOpt(fr, err.t, "Unwrap")
		if f == nil {
			return false
		}
		switch r := call(fr.i, fr, token.NoPos, f, []value{err.v}).(type) {
		case iface:
			err = r
		case []value:
			for _, e := range r {
				if ei, ok := e.(iface); ok && ei.t != nil {
					if errorsAsC19(fr, ei, T, targetIsIface, tp, target, depth) {
						return true
					}
				}
			}
			return false
		default:
			return false
		}
	}
	return false
}
