#!/bin/bash
# tools/seedcheck.sh <patch.diff> <Cxx> [<Cyy> ...]
# Applies a seeded change to a private copy of /repo and runs the quick checks of the given
# properties against it (the registered commands run against /repo itself; this is the same
# engine pointed at a scratch copy so that /repo is never touched). Prints one line per check.
set -u
patch="$1"; shift
here="$(cd "$(dirname "$0")/.." && pwd)"
tmp="$(mktemp -d /tmp/seedrun-XXXXXX)"
trap 'rm -rf "$tmp"' EXIT
cp -r /repo "$tmp/repo"
if ! git -C "$tmp/repo" apply "$patch"; then echo "PATCH-DOES-NOT-APPLY $patch"; exit 2; fi
(cd "$tmp/repo" && go build ./... ) >/dev/null 2>"$tmp/build.err" || { echo "DOES-NOT-BUILD"; head -5 "$tmp/build.err"; exit 2; }
for p in "$@"; do
  out="$("$here/bin/gsx" -verif "$here" -outroot "$tmp" -repo "$tmp/repo" -prop "$p" -tier "${TIER:-quick}" -workers "${WORKERS:-16}" 2>&1)"
  code=$?
  echo "$p exit=$code $(echo "$out" | grep -a '^VIOLATION' | wc -l) violation line(s); $(echo "$out" | grep -a '^exit' | tail -1)"
  echo "$out" | grep -a '^violation:' | head -4 | cut -c1-220
done
