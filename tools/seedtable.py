#!/usr/bin/env python3
"""Rewrites the seeded-change table of DESIGN.md §10 (between the marker lines) from seeded/*/*/meta.json."""
import json, glob, os, re
here = os.path.dirname(os.path.dirname(os.path.abspath(__file__)))
rows = []
for d in sorted(glob.glob(os.path.join(here, 'seeded/C*/*/meta.json'))):
    m = json.load(open(d))
    parts = d.split('/')
    sid = parts[-3] + '/' + parts[-2]
    what = (m.get('what_breaks') or m.get('summary') or '').replace('\n', ' ').replace('|', '/')
    if len(what) > 230:
        what = what[:227] + '...'
    caught = m.get('caught_by', [])
    labels = []
    for l in m.get('checks_run', {}).get('output', []):
        if l.startswith('violation:'):
            try:
                h = l.split('harness=')[1].split()[0]
                lab = l.split('label=')[1].split(' inputs=')[0]
                labels.append('`%s` %s' % (h, lab))
            except Exception:
                pass
    rows.append((sid, what, ', '.join(caught) if caught else '—', '; '.join(labels[:2])))
tab = '| seeded change | what it breaks | caught by | harness / label |\n|---|---|---|---|\n' + ''.join('| %s | %s | %s | %s |\n' % r for r in rows)
p = os.path.join(here, 'DESIGN.md')
s = open(p).read()
a, b = '<!-- seedtable:begin -->\n', '<!-- seedtable:end -->\n'
if a in s:
    s = s[:s.index(a) + len(a)] + tab + s[s.index(b):]
else:
    i = s.index('| seeded change | what it breaks')
    j = s.index('\n\n', i) + 1
    s = s[:i] + a + tab + b + s[j:]
open(p, 'w').write(s)
print(len(rows), 'rows')
