#!/bin/bash
# tools/seedconfirm.sh <dir with patch.diff + demo_test.go> <package dir for the demo> <TestName> [extra test packages...]
# Confirms a seeded change in a scratch worktree of /repo: the patch applies and builds, the
# demonstration fails with it and passes without it, and the tests of the named packages pass.
set -u
d="$1"; pkg="$2"; tst="$3"; shift 3
wt="$(mktemp -d /tmp/confirm-XXXXXX)"; rmdir "$wt"
git -C /repo worktree add -q --detach "$wt" HEAD || exit 2
trap 'git -C /repo worktree remove --force "$wt" >/dev/null 2>&1' EXIT
cd "$wt"
cp "$d"/demo_test.go "$pkg/zz_seed_demo_test.go"
export GORDIAN_TEST_TIME_FACTOR=10
go test -vet=off -count=1 -run "^${tst}" "./$pkg" >/tmp/confirm_base.log 2>&1; base=$?
git apply "$d/patch.diff" || { echo "PATCH DOES NOT APPLY"; exit 2; }
go build ./... >/tmp/confirm_build.log 2>&1 || { echo "DOES NOT BUILD"; exit 2; }
go test -vet=off -count=1 -run "^${tst}" "./$pkg" >/tmp/confirm_mut.log 2>&1; mut=$?
echo "demo without change: exit $base ; with change: exit $mut"
rm "$pkg/zz_seed_demo_test.go"
fails=""
for p in "$@"; do
  ok=0
  for try in 1 2 3; do
    if go test -vet=off -count=1 -skip "TestEngine_mirrorSkipsAhead|TestEngine_plumbing_ReplayedHeaders" "./$p" >/tmp/confirm_pkg.log 2>&1; then ok=1; break; fi
  done
  [ $ok = 1 ] || fails="$fails $p"
done
echo "existing tests with change: ${fails:-all named packages pass (up to 3 tries each for timing flakes)}"
[ $base = 0 ] && [ $mut != 0 ] && [ -z "$fails" ] && echo CONFIRMED || echo NOT-CONFIRMED
