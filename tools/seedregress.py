#!/usr/bin/env python3
"""Re-runs every stored seeded change against the checks recorded as catching it (meta.json caught_by)
and reports the ones no longer caught. usage: seedregress.py [Cxx ...]"""
import json, glob, os, re, subprocess, sys
here = os.path.dirname(os.path.dirname(os.path.abspath(__file__)))
only = set(sys.argv[1:])
bad = []
for d in sorted(glob.glob(os.path.join(here, 'seeded/C*/*/'))):
    sid = '/'.join(d.rstrip('/').split('/')[-2:])
    if only and sid.split('/')[0] not in only:
        continue
    m = json.load(open(os.path.join(d, 'meta.json')))
    caught = m.get('caught_by', [])
    if not caught:
        print(sid, 'not claimed'); continue
    if subprocess.run(['git', '-C', '/repo', 'apply', '--check', os.path.join(d, 'patch.diff')], capture_output=True).returncode != 0:
        print(sid, 'does not apply to the current tree'); continue
    p = subprocess.run([os.path.join(here, 'tools/seedcheck.sh'), os.path.join(d, 'patch.diff'), caught[0]], capture_output=True, text=True)
    ok = re.search(r'^%s exit=1' % caught[0], p.stdout, re.M) is not None
    print(sid, caught[0], 'caught' if ok else 'MISSED', flush=True)
    if not ok:
        bad.append(sid)
print('MISSED:', bad)
