#!/bin/bash
# tools/blstmodel_selftest.sh
# Validates the pure-Go blst model (/verif/rt/blstmodel) the way Serval's authors validated
# their interpreters: the repository's own gblsminsig test suite (keys, signatures, aggregation,
# signature tree, finalized proofs, store compliance, a 4-validator integration run) is run
# against the model instead of the cgo library. It must pass unchanged.
set -euo pipefail
here="$(cd "$(dirname "$0")/.." && pwd)"
tmp="$(mktemp -d /tmp/blstmodel-XXXXXX)"; trap 'rm -rf "$tmp"' EXIT
cp /repo/go.mod /repo/go.sum "$tmp/"
printf '\nreplace github.com/supranational/blst => %s/rt/blstmodel\n' "$here" >> "$tmp/go.mod"
cd /repo && GOFLAGS=-mod=mod GOPROXY=off go test -vet=off -count=1 -modfile "$tmp/go.mod" ./gcrypto/gblsminsig/...
