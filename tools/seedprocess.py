#!/usr/bin/env python3
"""tools/seedprocess.py <Cxx> <n> <seed out dir> [--props C01,C04]
Confirms a seeded change (tools/seedconfirm.sh), runs the quick checks against it
(tools/seedcheck.sh) and stores it under /verif/seeded/<Cxx>/<n>/ with an augmented meta.json."""
import json, os, re, shutil, subprocess, sys
prop, n, src = sys.argv[1], sys.argv[2], sys.argv[3]
props = [prop]
if '--props' in sys.argv:
    props = sys.argv[sys.argv.index('--props')+1].split(',')
here = os.path.dirname(os.path.dirname(os.path.abspath(__file__)))
demo = None
for f in os.listdir(src):
    if f.endswith('_test.go') or f.endswith('.go'):
        demo = os.path.join(src, f)
txt = open(demo).read()
m = re.search(r'go test[^\n]*?-run\s+\'?\^?([A-Za-z0-9_]+)\$?\'?[^\n]*?\s(\./[A-Za-z0-9_/]+)', txt)
if not m:
    meta = open(os.path.join(src, 'meta.json')).read()
    m = re.search(r'go test[^\n"]*?-run\s+\'?\^?([A-Za-z0-9_]+)\$?\'?[^\n"]*?\s(\./[A-Za-z0-9_/]+)', meta)
test, pkg = m.group(1), m.group(2).lstrip('./').rstrip('/')
tmpd = '/tmp/seedproc-%s-%s' % (prop, n)
shutil.rmtree(tmpd, ignore_errors=True); os.makedirs(tmpd)
shutil.copy(os.path.join(src, 'patch.diff'), tmpd)
shutil.copy(demo, os.path.join(tmpd, 'demo_test.go'))
# packages whose existing tests are re-run: the touched packages
touched = sorted(set(os.path.dirname(l[6:]) for l in open(os.path.join(src, 'patch.diff')) if l.startswith('+++ b/')))
conf = subprocess.run([os.path.join(here, 'tools/seedconfirm.sh'), tmpd, pkg, test] + touched, capture_output=True, text=True)
print(conf.stdout[-600:])
chk = subprocess.run([os.path.join(here, 'tools/seedcheck.sh'), os.path.join(tmpd, 'patch.diff')] + props, capture_output=True, text=True)
print(chk.stdout[-900:])
caught = [l.split()[0] for l in chk.stdout.splitlines() if re.match(r'C\d+ exit=1', l)]
dst = os.path.join(here, 'seeded', prop, n)
os.makedirs(dst, exist_ok=True)
if os.path.abspath(src) != os.path.abspath(dst):
    shutil.copy(os.path.join(src, 'patch.diff'), dst)
    shutil.copy(demo, os.path.join(dst, os.path.basename(demo)))
try:
    meta = json.load(open(os.path.join(src, 'meta.json')))
except Exception:
    meta = {"property": prop}
meta['demo'] = {"package_dir": pkg, "test": test, "placed_as": "zz_seed_demo_test.go"}
meta['confirmation'] = {"cmd": "tools/seedconfirm.sh <dir> %s %s %s" % (pkg, test, ' '.join(touched)), "output": conf.stdout.strip().splitlines()[-3:]}
meta['checks_run'] = {"cmd": "tools/seedcheck.sh patch.diff " + ' '.join(props), "output": [l for l in chk.stdout.splitlines() if re.match(r'(C\d+ exit|violation:)', l)][:8]}
meta['caught_by'] = caught
json.dump(meta, open(os.path.join(dst, 'meta.json'), 'w'), indent=1)
shutil.rmtree(tmpd, ignore_errors=True)
print("STORED", dst, "confirmed=" + str('CONFIRMED' in conf.stdout and 'NOT-CONFIRMED' not in conf.stdout), "caught_by=" + str(caught))
