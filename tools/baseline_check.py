#!/usr/bin/env python3
"""Runs /repo's test suite (as the pinned baseline does) and lists baseline-stable tests that did not pass.
usage: baseline_check.py [runs]"""
import json, subprocess, sys, os
runs = int(sys.argv[1]) if len(sys.argv) > 1 else 1
b = json.load(open('/root/.vp/BASELINE.json'))
stable = set(b['stable_pass'])
env = dict(os.environ, GOFLAGS='-mod=mod', GOPROXY='off')
env.pop('GOSUMDB', None)
env.pop('GOTOOLCHAIN', None)
for r in range(runs):
    p = subprocess.run(['go', 'test', '-json', '-vet=off', '-count=1', '-timeout', '25m', './...'], cwd='/repo', env=env, capture_output=True, text=True)
    res = {}
    for l in p.stdout.splitlines():
        try:
            e = json.loads(l)
        except Exception:
            continue
        if e.get('Test') and e.get('Action') in ('pass', 'fail', 'skip'):
            res[e['Package'] + '::' + e['Test']] = e['Action']
    bad = sorted(t for t in stable if res.get(t) != 'pass')
    print('run', r + 1, 'tests seen', len(res), 'passed', sum(1 for v in res.values() if v == 'pass'), 'failed', sum(1 for v in res.values() if v == 'fail'), 'stable-not-passing', len(bad))
    for t in bad:
        print('   ', res.get(t, 'missing'), t)
    sys.stdout.flush()
