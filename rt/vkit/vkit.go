// Package vkit holds harness building blocks shared by the harness packages:
// public keys, signature and hash schemes built on uninterpreted functions,
// validator sets. Overlaid at <module>/internal/verifrt/vkit (never committed to
// the repository under test).
package vkit

import (
	"io"

	"github.com/gordian-engine/gordian/gcrypto"
	"github.com/gordian-engine/gordian/internal/verifrt"
	"github.com/gordian-engine/gordian/tm/tmconsensus"
)

// Pack packs a byte string of at most 7 bytes injectively into a uint64
// (length in the top byte).
func Pack(b []byte) uint64 {
	if len(b) > 7 {
		panic("vkit.Pack: byte string longer than 7 bytes")
	}
	v := uint64(len(b)) << 56
	for i, c := range b {
		v |= uint64(c) << (8 * uint(i))
	}
	return v
}

// SymKey is a public key whose signature verification relation is the
// uninterpreted predicate verify(set, id, msg, sig): nothing is assumed about it
// except that it is a function.
type SymKey struct {
	Set byte // key universe: keys of different sets are different keys
	ID  byte
}

func (k SymKey) PubKeyBytes() []byte { return []byte{'k', k.Set, k.ID} }

func (k SymKey) Equal(other gcrypto.PubKey) bool {
	o, ok := other.(SymKey)
	return ok && o == k
}

func (k SymKey) Verify(msg, sig []byte) bool {
	return verifrt.UFBool("verify", uint64(k.Set)<<8|uint64(k.ID), Pack(msg), Pack(sig))
}

func (k SymKey) TypeName() string { return "symkey" }

// Keys returns n keys of the given universe.
func Keys(set byte, n int) []gcrypto.PubKey {
	ks := make([]gcrypto.PubKey, n)
	for i := range ks {
		ks[i] = SymKey{Set: set, ID: byte(i)}
	}
	return ks
}

// SigScheme writes short, injective, domain-separated signing content:
// kind(1) height(2) round(1) hash(<=3).
type SigScheme struct{}

func voteContent(kind byte, vt tmconsensus.VoteTarget) []byte {
	b := []byte{kind, byte(vt.Height >> 8), byte(vt.Height), byte(vt.Round)}
	return append(b, vt.BlockHash...)
}

func (SigScheme) WriteProposalSigningContent(w io.Writer, h tmconsensus.Header, round uint32, _ tmconsensus.Annotations) (int, error) {
	b := []byte{'P', byte(h.Height >> 8), byte(h.Height), byte(round)}
	return w.Write(append(b, h.Hash...))
}

func (SigScheme) WritePrevoteSigningContent(w io.Writer, vt tmconsensus.VoteTarget) (int, error) {
	return w.Write(voteContent('V', vt))
}

func (SigScheme) WritePrecommitSigningContent(w io.Writer, vt tmconsensus.VoteTarget) (int, error) {
	return w.Write(voteContent('C', vt))
}

// PrevoteContent / PrecommitContent are the signing bytes of a vote target.
func PrevoteContent(h uint64, r uint32, hash string) []byte {
	return voteContent('V', tmconsensus.VoteTarget{Height: h, Round: r, BlockHash: hash})
}
func PrecommitContent(h uint64, r uint32, hash string) []byte {
	return voteContent('C', tmconsensus.VoteTarget{Height: h, Round: r, BlockHash: hash})
}

// HashScheme: the block hash of a header either equals the claimed hash or not,
// decided by the uninterpreted predicate hashok(claimed hash, height); validator
// hashes are short concrete digests of key ids / the number of powers.
type HashScheme struct {
	// PowerSensitive makes VotePowers depend on the low byte of every power (concrete powers
	// only), so that a validator list can be checked against its hash.
	PowerSensitive bool
}

func (HashScheme) Block(h tmconsensus.Header) ([]byte, error) {
	if verifrt.UFBool("hashok", Pack(h.Hash), h.Height) {
		return append([]byte(nil), h.Hash...), nil
	}
	return []byte("!bad"), nil
}

func (HashScheme) PubKeys(keys []gcrypto.PubKey) ([]byte, error) {
	out := []byte("pk")
	for _, k := range keys {
		b := k.PubKeyBytes()
		out = append(out, b[1:]...)
	}
	return out, nil
}

func (hs HashScheme) VotePowers(pows []uint64) ([]byte, error) {
	out := []byte{'v', 'p', byte(len(pows))}
	if hs.PowerSensitive {
		for _, p := range pows {
			out = append(out, byte(p))
		}
	}
	return out, nil
}

// ValSet builds a validator set over the given keys and powers.
func ValSet(keys []gcrypto.PubKey, pows []uint64) tmconsensus.ValidatorSet {
	return ValSetHS(keys, pows, HashScheme{})
}

// ValSetHS is ValSet with an explicit hash scheme.
func ValSetHS(keys []gcrypto.PubKey, pows []uint64, hs HashScheme) tmconsensus.ValidatorSet {
	vals := make([]tmconsensus.Validator, len(keys))
	for i := range keys {
		vals[i] = tmconsensus.Validator{PubKey: keys[i], Power: pows[i]}
	}
	vs, err := tmconsensus.NewValidatorSet(vals, hs)
	if err != nil {
		panic(err)
	}
	return vs
}

// Powers returns n symbolic powers whose sum does not overflow 64 bits
// (stated assumption of every threshold claim) and each of which is >= 1.
func Powers(name string, n int) []uint64 {
	pows := make([]uint64, n)
	var sum uint64
	for i := range pows {
		p := verifrt.U64(name)
		verifrt.Assume(p >= 1)
		ns := sum + p
		verifrt.Assume(ns >= sum) // no wrap
		sum = ns
		pows[i] = p
	}
	return pows
}

// Sig is the concrete signature byte string a harness uses for "validator id
// signs with tag": distinct ids/tags give distinct strings; validity is decided
// by the verify predicate, not by the bytes.
func Sig(id, tag byte) []byte { return []byte{'s', id, tag} }

// KeyID is the 2-byte big-endian key id of the simple proof scheme.
func KeyID(i int) []byte { return []byte{byte(i >> 8), byte(i)} }

// OkKey accepts every signature: for harnesses about what happens after admission.
type OkKey struct{ ID byte }

func (k OkKey) PubKeyBytes() []byte { return []byte{'o', k.ID} }
func (k OkKey) Equal(o gcrypto.PubKey) bool {
	ok, is := o.(OkKey)
	return is && ok == k
}
func (k OkKey) Verify(msg, sig []byte) bool { return true }
func (k OkKey) TypeName() string            { return "okkey" }

// OkKeys returns n always-valid keys.
func OkKeys(n int) []gcrypto.PubKey {
	ks := make([]gcrypto.PubKey, n)
	for i := range ks {
		ks[i] = OkKey{ID: byte(i)}
	}
	return ks
}
