module github.com/supranational/blst

go 1.21
