// Package blst is a pure-Go *model* of the subset of github.com/supranational/blst/bindings/go
// that gordian's gcrypto/gblsminsig uses. It replaces the cgo library (which has no Go IR) in
// the solver-based checks of /verif, both for the symbolic run and for the native replay.
//
// Model ("toy pairing"): both groups are (Z/2^64, +). A secret key is an odd scalar s, its
// public key is the G2 element s, a message m hashes to the odd G1 element H(dst, m), the
// signature of m under s is s*H(m), and sig verifies under pk for m iff pk != 0 and
// sig == pk*H(m). This keeps exactly the algebra the code relies on: signatures and keys
// aggregate by addition, an aggregate of signatures on one message verifies under the
// aggregate of the keys, the identity is the all-zero value (as blst's affine infinity is),
// a signature is valid for at most one (key, message) pair up to collisions of the 64-bit
// constants involved. G1 elements additionally carry a torsion component t (Z/256): t != 0
// models a point on the curve outside the prime-order subgroup. The pairing check ignores it
// (a signature plus a small-order point still satisfies the pairing equation), SigValidate -
// blst's subgroup check - is what rejects it, Equals and the encodings see it. Compressed encodings keep blst's lengths (48 / 96 bytes) and flag byte
// (0x80 compressed, 0xc0 infinity); every other byte string fails to decompress (nil result),
// as with blst.
package blst

import "fmt"

const BLST_SCALAR_BYTES = 256 / 8
const BLST_FP_BYTES = 384 / 8
const BLST_P1_COMPRESS_BYTES = BLST_FP_BYTES
const BLST_P1_SERIALIZE_BYTES = BLST_FP_BYTES * 2
const BLST_P2_COMPRESS_BYTES = BLST_FP_BYTES * 2
const BLST_P2_SERIALIZE_BYTES = BLST_FP_BYTES * 4

type Scalar struct{ s uint64 }
type SecretKey = Scalar
type Message = []byte

type P1 struct {
	v uint64
	t uint8
}
type P2 struct{ v uint64 }
type P1Affine struct {
	v uint64
	t uint8
}
type P2Affine struct{ v uint64 }

func fnv(parts ...[]byte) uint64 {
	h := uint64(14695981039346656037)
	for _, p := range parts {
		for _, b := range p {
			h ^= uint64(b)
			h *= 1099511628211
		}
		h ^= 0xff
		h *= 1099511628211
	}
	return h
}

// KeyGenV5 derives an odd (hence non-zero) scalar from the key material.
func KeyGenV5(ikm []byte, salt []byte, optional ...[]byte) *SecretKey {
	if len(ikm) < 32 {
		return nil
	}
	return &Scalar{s: fnv(ikm, salt) | 1}
}

func hashToG1(msg, dst []byte) uint64 { return fnv(dst, msg) | 1 }

func (pk *P2Affine) From(s *Scalar) *P2Affine {
	pk.v = s.s
	return pk
}

func (pk *P2Affine) KeyValidate() bool { return pk.v != 0 }

func (sig *P1Affine) SigValidate(sigInfcheck bool) bool {
	if sigInfcheck && sig.v == 0 && sig.t == 0 {
		return false
	}
	return sig.t == 0 // in the prime-order subgroup
}

func (sig *P1Affine) Sign(sk *SecretKey, msg []byte, dst []byte, optional ...interface{}) *P1Affine {
	sig.v = sk.s * hashToG1(msg, dst)
	sig.t = 0
	return sig
}

func (sig *P1Affine) Verify(sigGroupcheck bool, pk *P2Affine, pkValidate bool, msg Message, dst []byte, optional ...interface{}) bool {
	if pk.v == 0 {
		return false
	}
	return sig.v == pk.v*hashToG1(msg, dst)
}

func compress(v uint64, t uint8, n int) []byte {
	out := make([]byte, n)
	out[9] = t
	if v == 0 && t == 0 {
		out[0] = 0xc0
		return out
	}
	out[0] = 0x80
	for i := 0; i < 8; i++ {
		out[1+i] = byte(v >> (56 - 8*uint(i)))
	}
	return out
}

// uncompress: torsion reports whether byte 9 may carry a torsion tag (G1) or must be zero (G2).
func uncompress(in []byte, n int, torsion bool) (uint64, uint8, bool) {
	v, ok := uncompress0(in, n, torsion)
	if !ok {
		return 0, 0, false
	}
	return v, in[9], true
}

func uncompress0(in []byte, n int, torsion bool) (uint64, bool) {
	if len(in) != n {
		return 0, false
	}
	t := in[9]
	if !torsion && t != 0 {
		return 0, false
	}
	var v uint64
	for i := 0; i < 8; i++ {
		v = v<<8 | uint64(in[1+i])
	}
	for _, b := range in[10:] {
		if b != 0 {
			return 0, false
		}
	}
	switch in[0] {
	case 0xc0:
		if v != 0 || t != 0 {
			return 0, false
		}
		return 0, true
	case 0x80:
		if v == 0 && t == 0 {
			return 0, false
		}
		return v, true
	}
	return 0, false
}

func (p1 *P1Affine) Compress() []byte { return compress(p1.v, p1.t, BLST_P1_COMPRESS_BYTES) }

func (p1 *P1Affine) Uncompress(in []byte) *P1Affine {
	v, t, ok := uncompress(in, BLST_P1_COMPRESS_BYTES, true)
	if !ok {
		return nil
	}
	p1.v, p1.t = v, t
	return p1
}

func (p2 *P2Affine) Compress() []byte { return compress(p2.v, 0, BLST_P2_COMPRESS_BYTES) }

func (p2 *P2Affine) Uncompress(in []byte) *P2Affine {
	v, _, ok := uncompress(in, BLST_P2_COMPRESS_BYTES, false)
	if !ok {
		return nil
	}
	p2.v = v
	return p2
}

func (e1 *P1Affine) Equals(e2 *P1Affine) bool { return e1.v == e2.v && e1.t == e2.t }
func (e1 *P2Affine) Equals(e2 *P2Affine) bool { return e1.v == e2.v }
func (e1 *P1) Equals(e2 *P1) bool             { return e1.v == e2.v && e1.t == e2.t }
func (e1 *P2) Equals(e2 *P2) bool             { return e1.v == e2.v }

func (p1 *P1) AddAssign(pointIf interface{}) *P1 {
	switch val := pointIf.(type) {
	case *P1:
		p1.v += val.v
		p1.t += val.t
	case *P1Affine:
		p1.v += val.v
		p1.t += val.t
	default:
		panic(fmt.Sprintf("unsupported type %T", val))
	}
	return p1
}

func (p1 *P1) Add(pointIf interface{}) *P1 {
	ret := *p1
	return ret.AddAssign(pointIf)
}

func (p *P1) ToAffine() *P1Affine    { return &P1Affine{v: p.v, t: p.t} }
func (p *P1) FromAffine(a *P1Affine) { p.v, p.t = a.v, a.t }
func (p *P1Affine) IsInf() bool      { return p.v == 0 && p.t == 0 }
func (p *P2Affine) IsInf() bool      { return p.v == 0 }

func (p2 *P2) AddAssign(pointIf interface{}) *P2 {
	switch val := pointIf.(type) {
	case *P2:
		p2.v += val.v
	case *P2Affine:
		p2.v += val.v
	default:
		panic(fmt.Sprintf("unsupported type %T", val))
	}
	return p2
}

func (p2 *P2) Add(pointIf interface{}) *P2 {
	ret := *p2
	return ret.AddAssign(pointIf)
}

func (p *P2) ToAffine() *P2Affine    { return &P2Affine{v: p.v} }
func (p *P2) FromAffine(a *P2Affine) { p.v = a.v }

type P1Aggregate struct{ v *P1 }
type P2Aggregate struct{ v *P2 }

func (agg *P1Aggregate) AggregateCompressed(elmts [][]byte, groupcheck bool) bool {
	for _, e := range elmts {
		a := new(P1Affine).Uncompress(e)
		if a == nil {
			return false
		}
		if agg.v == nil {
			agg.v = new(P1)
		}
		agg.v.AddAssign(a)
	}
	return true
}

func (agg *P1Aggregate) ToAffine() *P1Affine {
	if agg.v == nil {
		return new(P1Affine)
	}
	return agg.v.ToAffine()
}

func (agg *P2Aggregate) AggregateCompressed(elmts [][]byte, groupcheck bool) bool {
	for _, e := range elmts {
		a := new(P2Affine).Uncompress(e)
		if a == nil {
			return false
		}
		if agg.v == nil {
			agg.v = new(P2)
		}
		agg.v.AddAssign(a)
	}
	return true
}

func (agg *P2Aggregate) ToAffine() *P2Affine {
	if agg.v == nil {
		return new(P2Affine)
	}
	return agg.v.ToAffine()
}
