// Package verifrt is the harness runtime. It is never committed to the
// repository under test: the checker overlays it at
// <module>/internal/verifrt. Under the symbolic executor (gsx) the functions
// marked "primitive" are intercepted by name; natively they read a replay file
// (env VERIF_REPLAY) produced from a solver model, so the same harness source
// is both the symbolic harness and the native replay test.
package verifrt

import (
	"encoding/json"
	"fmt"
	"io"
	"log/slog"
	"math/bits"
	"os"
	"runtime/debug"
	"strings"
	"time"
)

type ufPoint struct {
	Args []uint64 `json:"args"`
	Ret  uint64   `json:"ret"`
}

type choiceRec struct {
	Name string `json:"name"`
	N    int    `json:"n"`
	V    int    `json:"v"`
}

type replayInput struct {
	Harness string               `json:"harness"`
	Vars    map[string]uint64    `json:"vars"`
	UFs     map[string][]ufPoint `json:"ufs"`
	Choices []choiceRec          `json:"choices"`
	Expect  string               `json:"expect"`
}

var (
	rp        *replayInput
	varSeq    = map[string]int{}
	choicePos int
	out       io.Writer = os.Stdout
)

type assumeFailed struct{}

func load() {
	if rp != nil {
		return
	}
	rp = &replayInput{Vars: map[string]uint64{}, UFs: map[string][]ufPoint{}}
	p := os.Getenv("VERIF_REPLAY")
	if p == "" {
		return
	}
	b, err := os.ReadFile(p)
	if err != nil {
		panic("verifrt: cannot read replay file: " + err.Error())
	}
	if err := json.Unmarshal(b, rp); err != nil {
		panic("verifrt: bad replay file: " + err.Error())
	}
	if rp.Vars == nil {
		rp.Vars = map[string]uint64{}
	}
}

func nextName(name string) string {
	n := varSeq[name]
	varSeq[name] = n + 1
	if n > 0 {
		return fmt.Sprintf("%s#%d", name, n)
	}
	return name
}

// Symbolic reports whether the harness runs under the symbolic executor. primitive.
func Symbolic() bool { return false }

// U64 returns an arbitrary uint64. primitive.
func U64(name string) uint64 { load(); return rp.Vars[nextName(name)] }

// U32 returns an arbitrary uint32. primitive.
func U32(name string) uint32 { load(); return uint32(rp.Vars[nextName(name)]) }

// U16 returns an arbitrary uint16. primitive.
func U16(name string) uint16 { load(); return uint16(rp.Vars[nextName(name)]) }

// U8 returns an arbitrary uint8. primitive.
func U8(name string) uint8 { load(); return uint8(rp.Vars[nextName(name)]) }

// I64 returns an arbitrary int64. primitive.
func I64(name string) int64 { load(); return int64(rp.Vars[nextName(name)]) }

// Int returns an arbitrary int. primitive.
func Int(name string) int { load(); return int(int64(rp.Vars[nextName(name)])) }

// Bool returns an arbitrary bool. primitive.
func Bool(name string) bool { load(); return rp.Vars[nextName(name)] != 0 }

// Bytes returns n arbitrary bytes (names name[0]..name[n-1]).
func Bytes(name string, n int) []byte {
	b := make([]byte, n)
	for i := range b {
		b[i] = U8(fmt.Sprintf("%s[%d]", name, i))
	}
	return b
}

// Choose returns an arbitrary value in [0,n); every value is explored as a separate path. primitive.
func Choose(name string, n int) int {
	load()
	if choicePos < len(rp.Choices) {
		c := rp.Choices[choicePos]
		choicePos++
		if c.V < n {
			return c.V
		}
	}
	return 0
}

// IntRange returns an arbitrary int in [lo,hi], one path per value.
func IntRange(name string, lo, hi int) int { return lo + Choose(name, hi-lo+1) }

func ufLookup(name string, args []uint64) uint64 {
	load()
outer:
	for _, p := range rp.UFs[name] {
		if len(p.Args) != len(args) {
			continue
		}
		for i := range args {
			if p.Args[i] != args[i] {
				continue outer
			}
		}
		return p.Ret
	}
	return 0
}

// UFBool applies the uninterpreted predicate name to args. primitive.
func UFBool(name string, args ...uint64) bool { return ufLookup(name, args) != 0 }

// UFU64 applies the uninterpreted function name to args. primitive.
func UFU64(name string, args ...uint64) uint64 { return ufLookup(name, args) }

// UFU8 applies the uninterpreted function name (8-bit result) to args. primitive.
func UFU8(name string, args ...uint64) uint8 { return uint8(ufLookup(name, args)) }

// Assume restricts the explored inputs to those satisfying c. primitive.
func Assume(c bool) {
	if !c {
		fmt.Fprintln(out, "VERIF-ASSUME-FAILED")
		panic(assumeFailed{})
	}
}

// Assert states an obligation. primitive.
func Assert(c bool, label string) {
	if !c {
		failures++
		fmt.Fprintf(out, "VERIF-ASSERT-FAILED %s\n", label)
	}
}

// Fail is Assert(false, label). primitive.
func Fail(label string) { failures++; fmt.Fprintf(out, "VERIF-ASSERT-FAILED %s\n", label) }

// failures counts failed obligations natively; quiet suppresses Reach/Observe lines (Stress).
var (
	failures int
	quiet    bool
)

// Stress runs f once under gsx (where the scheduler explores the interleavings of the
// goroutines f starts). Natively goroutine schedules cannot be replayed, so f is run again and
// again (f builds fresh state each time) until an obligation fails, n runs are done or the time
// budget is used up: the native confirmation of a schedule-dependent violation (a replay file
// that names the violation it expects; other replays run f once).
func Stress(n int, budget time.Duration, f func()) {
	if Symbolic() {
		f()
		return
	}
	load()
	if rp.Expect == "" {
		// replay of a path model for translator validation: one run
		f()
		return
	}
	deadline := time.Now().Add(budget)
	for i := 0; i < n && failures == 0; i++ {
		f()
		quiet = true
		if i%64 == 63 && time.Now().After(deadline) {
			break
		}
	}
	quiet = false
}

// LocksetRace switches the lockset check on map accesses on (gsx: two spawned goroutines that
// access the same map, one of them writing, must hold a common lock; natively a no-op - the
// confirmation run is built with the Go race detector). primitive.
func LocksetRace(on bool) {}

// Reach marks a program point for vacuity checking and trace validation. primitive.
func Reach(label string) {
	if !quiet {
		fmt.Fprintf(out, "VERIF-REACH %s\n", label)
	}
}

// Observe records values for native/symbolic comparison. primitive.
func Observe(label string, vals ...uint64) {
	if quiet {
		return
	}
	var sb strings.Builder
	for _, v := range vals {
		fmt.Fprintf(&sb, " %x", v)
	}
	fmt.Fprintf(out, "VERIF-OBS %s%s\n", label, sb.String())
}

// ObserveBytes records a byte string for native/symbolic comparison. primitive.
func ObserveBytes(label string, b []byte) {
	fmt.Fprintf(out, "VERIF-OBS %s %x.\n", label, b)
}

// ---- branch-free term builders (primitives under gsx; plain Go natively)

func Ite64(c bool, a, b uint64) uint64 {
	if c {
		return a
	}
	return b
}
func IteInt(c bool, a, b int) int {
	if c {
		return a
	}
	return b
}
func And(a, b bool) bool     { return a && b }
func Or(a, b bool) bool      { return a || b }
func Not(a bool) bool        { return !a }
func Implies(a, b bool) bool { return !a || b }
func Iff(a, b bool) bool     { return a == b }
func B2U(c bool) uint64 {
	if c {
		return 1
	}
	return 0
}

// Bit returns bit i of w as a bool without branching.
func Bit(w uint64, i int) bool { return (w>>uint(i))&1 == 1 }

// Gt128 reports (h1,l1) > (h2,l2) as 128-bit numbers, branch-free.
func Gt128(h1, l1, h2, l2 uint64) bool {
	return Or(h1 > h2, And(h1 == h2, l1 > l2))
}

// Ge128 reports (h1,l1) >= (h2,l2).
func Ge128(h1, l1, h2, l2 uint64) bool {
	return Or(h1 > h2, And(h1 == h2, l1 >= l2))
}

// Mul3 returns 3*x as a 128-bit number.
func MulU(k, x uint64) (hi, lo uint64) { return bits.Mul64(k, x) }

// ---- options intercepted by gsx (no-ops natively)

// MapOrderNondet makes every range over a map with more than one entry explore all orders. primitive.
func MapOrderNondet(on bool) {}

// SchedNondet makes scheduler picks choice points; preempt is the preemption budget. primitive.
func SchedNondet(on bool, preempt int) {}

// Logger returns a logger that discards everything. primitive under gsx.
func Logger() *slog.Logger {
	if os.Getenv("VERIF_LOG") != "" {
		// triage aid for native replays: the code's own log lines on stderr
		return slog.New(slog.NewTextHandler(os.Stderr, &slog.HandlerOptions{Level: slog.LevelDebug}))
	}
	return slog.New(slog.NewTextHandler(io.Discard, nil))
}

// PanicString renders a recovered panic value. primitive.
func PanicString(r any) string {
	if e, ok := r.(error); ok {
		return e.Error()
	}
	return fmt.Sprint(r)
}

func sanitize(s string) string {
	b := make([]byte, 0, 64)
	prevHash := false
	for i := 0; i < len(s); i++ {
		c := s[i]
		if c >= '0' && c <= '9' {
			if !prevHash {
				b = append(b, '#')
			}
			prevHash = true
			continue
		}
		prevHash = false
		if c == '\n' {
			break
		}
		b = append(b, c)
		if len(b) >= 60 {
			break
		}
	}
	return string(b)
}

// NoPanic runs f and reports a violation labelled label+":"+<sanitised message> if it panics.
func NoPanic(label string, f func()) (ok bool) {
	defer func() {
		if r := recover(); r != nil {
			if _, isAssume := r.(assumeFailed); isAssume {
				panic(r)
			}
			ok = false
			Fail(label + ":" + sanitize(PanicString(r)))
			PrintStack()
		}
	}()
	f()
	Assert(true, label)
	return true
}

// MustReturn runs f and reports a violation labelled label if f does not return: under gsx
// when the region exceeds its decision/instruction budget on some path (a livelock shows up as
// an unbounded path), natively when f has not returned after 3 seconds. primitive under gsx.
func MustReturn(label string, f func()) (returned bool) {
	done := make(chan any, 1)
	go func() {
		defer func() { done <- recover() }()
		f()
	}()
	select {
	case r := <-done:
		if r != nil {
			panic(r)
		}
		return true
	case <-time.After(3 * time.Second):
		Fail(label)
		return false
	}
}

// PrintStack prints the current goroutine's stack natively (for triage). primitive (no-op under gsx).
func PrintStack() { fmt.Fprintf(out, "VERIF-STACK\n%s\n", debug.Stack()) }

// Panics runs f and reports whether it panicked (without failing).
func Panics(f func()) (panicked bool) {
	defer func() {
		if r := recover(); r != nil {
			if _, isAssume := r.(assumeFailed); isAssume {
				panic(r)
			}
			panicked = true
		}
	}()
	f()
	return false
}

// RunReplay is the native entry: it runs the harness named in the replay
// file (or VERIF_HARNESS) and prints the protocol lines the checker parses.
func RunReplay(harnesses map[string]func()) {
	load()
	name := rp.Harness
	if h := os.Getenv("VERIF_HARNESS"); h != "" {
		name = h
	}
	f, ok := harnesses[name]
	if !ok {
		fmt.Fprintf(out, "VERIF-ERROR unknown harness %q\n", name)
		return
	}
	varSeq = map[string]int{}
	choicePos = 0
	defer func() {
		if r := recover(); r != nil {
			if _, isAssume := r.(assumeFailed); isAssume {
				fmt.Fprintln(out, "VERIF-DONE assume-failed")
				return
			}
			fmt.Fprintf(out, "VERIF-PANIC %s\n", strings.ReplaceAll(PanicString(r), "\n", " "))
			fmt.Fprintln(out, "VERIF-DONE panic")
			return
		}
		fmt.Fprintln(out, "VERIF-DONE ok")
	}()
	f()
}

// Thorough reports whether the thorough tier is running (larger bounds). primitive.
func Thorough() bool { return os.Getenv("VERIF_TIER") == "thorough" }

// MapOrderFuncs makes range-over-map explore all orders inside the functions whose
// full name contains one of the comma-separated substrings (insertion order elsewhere). primitive.
func MapOrderFuncs(list string) {}

// Summarize replaces the named group of pure functions by their specification
// (only groups whose specification another check establishes on the real code). primitive.
func Summarize(group string) {}
