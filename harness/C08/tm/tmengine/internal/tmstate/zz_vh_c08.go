package tmstate

import (
	"github.com/gordian-engine/gordian/internal/verifrt"
)

func vhOpts() {
	verifrt.Summarize("ByzantineThresholds")
	verifrt.Summarize("SMQuietSendGuardTimers")
}

// VH_C08_Smoke: real start-up, one view update.
func VH_C08_Smoke() {
	vhOpts()
	e := vhNewSM(true)
	if !e.start() {
		return
	}
	verifrt.Reach("started")
	e.observeState("after-start")
	if !e.deliver(evView) {
		return
	}
	verifrt.Reach("one-view")
	e.observeState("after-view")
	e.finish()
}
