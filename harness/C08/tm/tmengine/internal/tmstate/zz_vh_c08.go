package tmstate

// C08: the round state machine follows the Tendermint round rules, forwards only.
// Oracles R1-R7 (zz_vh_smchecks.go) after the real start-up path and after every event.

import (
	"github.com/gordian-engine/gordian/internal/verifrt"
)

// VH_C08_StartAny: the real start-up path answered by a mirror view with arbitrary
// numbers and 0-2 headers (or by a committed header: catch-up), then 1 event of any kind
// (thorough: also the general view update) + 1 (quick) / 2 (thorough) events without new vote numbers.
func VH_C08_StartAny() {
	vhOpts()
	e := vhNewSM(true)
	e.allowCatchup = true
	e.entrancePHs = 2
	if !e.start() {
		return
	}
	e.check(chkC08)
	e.observeState("after-start")
	verifrt.Reach("C08-start:started")
	e.runStartAny(chkC08)
	if e.seen&vhSeenReplaying != 0 {
		verifrt.Reach("C08-start:replaying-a-committed-header")
	}
	if e.seen&vhSeenNextRound != 0 {
		verifrt.Reach("C08-start:entered-next-round")
	}
	if e.seen&vhSeenAwaitingFinalization != 0 {
		verifrt.Reach("C08-start:awaiting-finalization")
	}
	if e.seen&vhSeenPrecommitDelay != 0 {
		verifrt.Reach("C08-start:precommit-delay")
	}
	e.finish()
}

// VH_C08_Seq: height 1 round 0 entered with no votes yet (0/1 header), then 2 events of any
// kind + 1 (quick) / 2 (thorough) events without new vote numbers. Later entrances are
// answered with empty views.
func VH_C08_Seq() {
	vhOpts()
	e := vhNewSM(true)
	e.symEntrances = 0
	if !e.start() {
		return
	}
	e.check(chkC08)
	e.runSeq(chkC08)
	if e.seen&vhSeenNextHeight != 0 {
		verifrt.Reach("C08-seq:entered-next-height")
	}
	if e.seen&vhSeenNextRound != 0 {
		verifrt.Reach("C08-seq:entered-next-round")
	}
	if e.seen&vhSeenPrevoteDelay != 0 {
		verifrt.Reach("C08-seq:prevote-delay")
	}
	if e.seen&vhSeenVoteReleased != 0 {
		verifrt.Reach("C08-seq:vote-released")
	}
	if e.seen&vhSeenProposalReleased != 0 {
		verifrt.Reach("C08-seq:proposal-released")
	}
	e.finish()
}

// VH_C08_Follower: the local key is not in the validator set: same rules, no votes.
func VH_C08_Follower() {
	vhOpts()
	e := vhNewSM(false)
	e.symEntrances = 0
	if !e.start() {
		return
	}
	e.check(chkC08)
	e.run(chkC08, vhEvents(), 2)
	verifrt.Assert(len(e.signs) == 0 && len(e.emits) == 0, "R7:follower-signs-and-releases-nothing")
	verifrt.Reach("C08-follower:done")
	e.finish()
}

// VH_C08_DecideAsap holds only the "as soon as" half of R5 (a separate harness so that
// its findings do not mask the rest): once the latest view of the round shows a
// single-target prevote quorum (R5a), the prevote delay has elapsed (R5b) or precommits
// of at least a third of the power are seen (R5c), and the round is still being voted,
// the strategy has been asked for the precommit.
func VH_C08_DecideAsap() {
	vhOpts()
	e := vhNewSM(true)
	n := 2
	if verifrt.Choose("arbitrary-start", 2) == 1 {
		n = 1
	} else {
		e.symEntrances = 0
	}
	if !e.start() {
		return
	}
	e.check(chkC08Asap)
	e.run(chkC08Asap, vhEvents(), n)
	verifrt.Reach("C08-asap:done")
	e.finish()
}

// VH_C08_RestartFinalized: one process life of 2-3 events out of {view with new precommit
// numbers, driver finalization, step timer} (quick: 1-2 such views, then the finalization or the
// timer) from a quiet start with a header (this reaches: round
// left on a nil quorum, commit of A in round 0 or 1, finalization stored while in commit wait,
// height advanced), then the process dies and a new state machine comes up on the same stores
// through the real start-up path, then 1 (quick) / 2 (thorough) events. The rules span both
// lives: a height whose finalization is stored is over (next entrance is height+1 round 0, no
// second finalize request for it), otherwise the round it was in is resumed.
func VH_C08_RestartFinalized() {
	vhOpts()
	e := vhNewSM(true)
	e.symEntrances = 0
	e.laterEntrancePHs = true
	if !e.start() {
		return
	}
	e.check(chkC08)
	n := 2 + verifrt.Choose("events-before-restart", 2)
	// views with new precommit numbers first, then the finalization or the timer (the free
	// choice among all three kinds at every position ran past the thorough budget: 53655
	// paths in 1500 s without finishing; reduced bound)
	e.run(chkC08, []int{evViewPC}, n-1)
	if e.alive {
		e.run(chkC08, []int{evFinalization, evTimer, evHeightCommitted}, 1)
	}
	if !e.alive {
		return
	}
	stored := false
	if _, _, _, _, err := e.fs.LoadFinalizationByHeight(e.ctx, e.cur.h); err == nil {
		stored = true
	}
	if !e.restart() {
		return
	}
	e.check(chkC08)
	if stored {
		verifrt.Reach("C08-restart:died-with-the-finalization-stored-and-the-height-not-advanced")
	}
	if e.cur.r > 0 {
		verifrt.Reach("C08-restart:restarted-in-a-later-round")
	}
	tail := 1
	if verifrt.Thorough() {
		tail = 2
	}
	e.run(chkC08, vhTailEvents, tail)
	e.finish()
}

// VH_C08_LateHeader: the header of the block being committed arrives after the commit. Votes
// for all three targets nil/A/B with exact most-voted targets (so the most prevoted and the most
// precommitted block may differ); quiet start without headers, a view with new prevote numbers,
// a view with new precommit numbers, then the two headers A and B arrive one by one. What is
// handed to the driver must be the block that has the precommit quorum (R1), whatever the
// prevotes say.
func VH_C08_LateHeader() {
	vhOpts()
	vhExactTargets = true
	defer func() { vhExactTargets = false }()
	e := vhNewSM(true)
	e.symEntrances = 0
	e.entrancePHs = 0
	if !e.start() {
		return
	}
	e.check(chkC08)
	for _, k := range []int{evViewPV, evViewPC, evHeader, evHeader} {
		if !e.alive {
			break
		}
		e.run(chkC08, []int{k}, 1)
	}
	if len(e.finReqs) > 0 {
		verifrt.Reach("C08-late-header:finalize-requested-after-the-header-arrived")
	}
	e.finish()
}
