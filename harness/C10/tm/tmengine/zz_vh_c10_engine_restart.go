package tmengine

// C10 end to end: a complete engine (tmengine.New; mirror kernel, state machine kernel,
// consensus manager from source) runs on the shipped in-memory stores, is stopped at one of
// five points of committing height 1, and a second engine is built on the same stores.

import (
	"github.com/gordian-engine/gordian/gcrypto"
	"github.com/gordian-engine/gordian/internal/verifrt"
	"github.com/gordian-engine/gordian/internal/verifrt/vkit"
	"github.com/gordian-engine/gordian/tm/tmconsensus"
	"github.com/gordian-engine/gordian/tm/tmdriver"
)

// VH_C10_E2_EngineRestart: three validators (powers symbolic; the engine follows as a
// non-validator). First life: the proposed header for A, then precommits of all three for A
// (height 1 is committed; the state machine asks the driver to finalize), then the driver's
// answer. The process stops after 0, 1, 2 of these steps, after the finalize request was made
// but before the driver answered, or after the answer. Second life on the same stores: New
// succeeds; the chain is not initialised a second time once a first life got that far; the
// voting/committing position and the committed chain are not behind what was recorded; after
// the same messages are delivered again (duplicates included) the node has committed A at
// height 1 and votes at height 2 exactly as a run without the stop; the driver is asked to
// finalize height 1 in the second life only if no finalization was stored in the first, and a
// stored finalization is not overwritten.
func VH_C10_E2_EngineRestart() {
	verifrt.Summarize("ByzantineThresholds")
	// stated assumption (as in the state-machine kit): the 100 ms blocked-send guards of
	// handleProposalViewUpdate never fire (the consensus manager takes every request in time)
	verifrt.Summarize("SMQuietSendGuardTimers")
	const n = 3
	keys := vkit.OkKeys(n)
	pows := vkit.Powers("power", n)
	vs := vkit.ValSet(keys, pows)
	st := vhNewEngStores()
	verifrt.Assume(verifrt.UFBool("hashok", vkit.Pack([]byte("A")), 1))
	phA := tmconsensus.ProposedHeader{
		Header: tmconsensus.Header{Hash: []byte("A"), PrevBlockHash: []byte("g"), Height: 1,
			ValidatorSet: vs, NextValidatorSet: vs, DataID: []byte("d"), PrevAppStateHash: []byte("app"),
			PrevCommitProof: tmconsensus.CommitProof{Proofs: map[string][]gcrypto.SparseSignature{}}},
		Round: 0, ProposerPubKey: keys[0], Signature: []byte("psA"),
	}
	var sigs []gcrypto.SparseSignature
	for i := 0; i < n; i++ {
		sigs = append(sigs, gcrypto.SparseSignature{KeyID: vkit.KeyID(i), Sig: []byte{'s', byte(i)}})
	}
	votes := tmconsensus.PrecommitSparseProof{Height: 1, Round: 0, PubKeyHash: string(vs.PubKeyHash),
		Proofs: map[string][]gcrypto.SparseSignature{"A": sigs}}
	answer := func(req tmdriver.FinalizeBlockRequest, app string) {
		req.Resp <- tmdriver.FinalizeBlockResponse{Height: req.Header.Height, Round: req.Round, BlockHash: req.Header.Hash,
			Validators: vs.Validators, AppStateHash: []byte(app)}
	}

	l1, err := vhStartEngine(st, vs)
	if err != nil || l1 == nil {
		verifrt.Fail("E2:first-life-does-not-start")
		return
	}
	stopAt := verifrt.Choose("process-stops-after", 5) // 0 nothing, 1 header, 2 votes, 3 finalize request taken, 4 driver answered
	asked1, answered1 := false, false
	if stopAt >= 1 {
		verifrt.Observe("life1-header", uint64(l1.e.HandleProposedHeader(l1.ctx, phA)))
	}
	if stopAt >= 2 {
		verifrt.Observe("life1-votes", uint64(l1.e.HandlePrecommitProofs(l1.ctx, votes)))
	}
	if stopAt >= 3 {
		if req, ok := vhE1Poll(l1.finCh); ok {
			asked1 = true
			if stopAt >= 4 {
				answer(req, "app1")
				answered1 = true
				vhE1Poll(l1.finCh) // let the state machine store the finalization (nothing more is asked)
			}
		}
	}
	if !l1.stop("E2:first-life-does-not-shut-down") {
		return
	}
	verifrt.Reach("E2-first-life-stopped")
	vh0, vr0, ch0, cr0, err0 := st.ms.NetworkHeightRound(l1.ctx)
	_, stored1 := func() (string, bool) {
		_, bh, _, _, err := st.fs.LoadFinalizationByHeight(l1.ctx, 1)
		return bh, err == nil
	}()
	_, errCH0 := st.chs.LoadCommittedHeader(l1.ctx, 1)

	l2, err := vhStartEngine(st, vs)
	if err != nil || l2 == nil {
		verifrt.Fail("E2:restart-on-the-same-stores-fails")
		return
	}
	verifrt.Reach("E2-second-life-up")
	vh1, vr1, ch1, cr1, err1 := st.ms.NetworkHeightRound(l2.ctx)
	if err0 == nil {
		verifrt.Assert(err1 == nil, "E2:recorded-position-lost")
		notBehind := vh1 > vh0 || (vh1 == vh0 && vr1 >= vr0)
		verifrt.Assert(notBehind && (ch1 > ch0 || (ch1 == ch0 && cr1 >= cr0)), "E2:position-behind-what-was-recorded")
	}
	if errCH0 == nil {
		ch, e2 := st.chs.LoadCommittedHeader(l2.ctx, 1)
		verifrt.Assert(e2 == nil && string(ch.Header.Hash) == "A", "E2:committed-header-lost-or-changed")
	}
	// everything sent so far is delivered again
	verifrt.Observe("life2-header", uint64(l2.e.HandleProposedHeader(l2.ctx, phA)))
	verifrt.Observe("life2-votes", uint64(l2.e.HandlePrecommitProofs(l2.ctx, votes)))
	req2, asked2 := vhE1Poll(l2.finCh)
	if asked2 {
		verifrt.Reach("E2-driver-asked-in-the-second-life")
		verifrt.Assert(!stored1, "E2:stored-finalization-recomputed-after-restart")
		verifrt.Assert(string(req2.Header.Hash) == "A" && req2.Header.Height == 1, "E2:finalize-request-after-restart-is-for-the-committed-block")
		answer(req2, "app2")
		vhE1Poll(l2.finCh)
	} else {
		verifrt.Reach("E2-driver-not-asked-in-the-second-life")
		verifrt.Assert(stored1, "E2:height-1-never-finalized-after-restart")
	}
	// same committed chain and position as a run without the stop
	ch, e3 := st.chs.LoadCommittedHeader(l2.ctx, 1)
	verifrt.Assert(e3 == nil && string(ch.Header.Hash) == "A", "E2:same-committed-chain-as-without-the-stop")
	vh2, _, ch2, _, e4 := st.ms.NetworkHeightRound(l2.ctx)
	verifrt.Assert(e4 == nil && vh2 == 2 && ch2 == 1, "E2:same-position-as-without-the-stop")
	_, bh, _, app, e5 := st.fs.LoadFinalizationByHeight(l2.ctx, 1)
	verifrt.Assert(e5 == nil && bh == "A", "E2:finalization-of-height-1-stored")
	if stored1 {
		verifrt.Assert(app == "app1", "E2:stored-finalization-overwritten")
	}
	verifrt.Observe("E2", uint64(stopAt), verifrt.B2U(asked1), verifrt.B2U(answered1), verifrt.B2U(stored1), verifrt.B2U(asked2))
	l2.stop("E2:second-life-does-not-shut-down")
}
