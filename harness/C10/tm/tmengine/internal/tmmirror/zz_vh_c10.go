package tmmirror

// VH_C10_CrashRestart: the history is delivered to a real mirror on the shipped in-memory
// stores; the process stops right after the k-th store write (every k, and k=0 for clean
// restarts after a message), a new mirror is started on the same stores, everything sent so
// far is delivered again and the history continues (body: shared kit zz_vh_crash.go).
func VH_C10_CrashRestart() { vhCrashRestart("C10") }
