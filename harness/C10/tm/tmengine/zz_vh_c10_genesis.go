package tmengine

// C10, engine level: what the state machine is given when the engine is restarted on the same
// stores. The real (*Engine).maybeInitializeChain runs twice on the shipped in-memory stores:
// the first call initialises the chain through the driver (harness goroutine answering the
// InitChain request, with or without a validator override, symbolic powers and initial height);
// the second call is the restart, either before or after the mirror store was first written.
// The state machine compares heights with Genesis.InitialHeight, takes the validator set of the
// initial height from Genesis.ValidatorSet and derives the first block's predecessor from
// Genesis.Header: so the genesis handed over on restart has to equal the one of the first start
// (an all-zero genesis makes the state machine look up finalizations at height -1 and -2 and
// give up when it restarts at the initial height or the one after it).

import (
	"context"

	"github.com/gordian-engine/gordian/internal/verifrt"
	"github.com/gordian-engine/gordian/internal/verifrt/vkit"
	"github.com/gordian-engine/gordian/tm/tmconsensus"
	"github.com/gordian-engine/gordian/tm/tmdriver"
	"github.com/gordian-engine/gordian/tm/tmstore/tmmemstore"
)

func VH_C10_EngineGenesisOnRestart() {
	ctx := context.Background()
	hs := vkit.HashScheme{}
	ih := verifrt.U64("initial-height")
	verifrt.Assume(ih >= 1 && ih < 1<<62)
	gvs := vkit.ValSet(vkit.OkKeys(2), vkit.Powers("genesis-power", 2))
	override := verifrt.Choose("driver-overrides-validators", 2) == 1
	ovs := vkit.ValSet(vkit.OkKeys(3)[1:], vkit.Powers("override-power", 2))

	ms := tmmemstore.NewMirrorStore()
	fs := tmmemstore.NewFinalizationStore()
	newEngine := func(initCh chan tmdriver.InitChainRequest) *Engine {
		e := &Engine{
			log:        verifrt.Logger(),
			genesis:    &tmconsensus.ExternalGenesis{ChainID: "vh", InitialHeight: ih, GenesisValidatorSet: gvs},
			hashScheme: hs,
		}
		e.mCfg.Store = ms
		if initCh != nil {
			e.initChainCh = initCh
		}
		return e
	}

	// first start: the driver answers InitChain
	initCh := make(chan tmdriver.InitChainRequest)
	go func() {
		req := <-initCh
		resp := tmdriver.InitChainResponse{AppStateHash: []byte("app0")}
		if override {
			resp.Validators = ovs.Validators
		}
		req.Resp <- resp
	}()
	g1, err := newEngine(initCh).maybeInitializeChain(ctx, fs)
	verifrt.Assert(err == nil, "C10:first-start-initialises-the-chain")
	if err != nil {
		return
	}
	h1, err := g1.Header(hs)
	verifrt.Assert(err == nil, "C10:first-genesis-has-a-header")
	verifrt.Reach("C10-genesis:chain-initialised")

	// the process stops before or after the mirror first wrote its position
	if verifrt.Choose("mirror-store-written", 2) == 1 {
		_ = ms.SetNetworkHeightRound(ctx, ih, 0, 0, 0)
		verifrt.Reach("C10-genesis:restart-after-mirror-start")
	} else {
		verifrt.Reach("C10-genesis:restart-before-mirror-start")
	}

	// restart on the same stores; the driver may or may not offer an init chain channel again
	var initCh2 chan tmdriver.InitChainRequest
	if verifrt.Choose("init-chain-channel-on-restart", 2) == 1 {
		initCh2 = make(chan tmdriver.InitChainRequest)
	}
	g2, err := newEngine(initCh2).maybeInitializeChain(ctx, fs)
	verifrt.Assert(err == nil, "C10:restart-does-not-fail")
	if err != nil {
		return
	}
	verifrt.Assert(g2.InitialHeight == ih, "C10:restarted-state-machine-is-told-the-initial-height")
	want := gvs
	if override {
		want = ovs
	}
	same := len(g2.ValidatorSet.Validators) == 2
	if same {
		for i := range want.Validators {
			same = verifrt.And(same, g2.ValidatorSet.Validators[i].Power == want.Validators[i].Power)
			same = verifrt.And(same, g2.ValidatorSet.Validators[i].PubKey.Equal(want.Validators[i].PubKey))
		}
	}
	verifrt.Assert(same, "C10:restarted-state-machine-is-given-the-initial-validator-set")
	verifrt.Assert(string(g2.CurrentAppStateHash) == "app0" && g2.ChainID == "vh", "C10:restarted-genesis-has-chain-id-and-app-state-hash")
	h2, err := g2.Header(hs)
	verifrt.Assert(err == nil && string(h2.Hash) == string(h1.Hash), "C10:restarted-genesis-yields-the-same-genesis-block-hash")
}
