package tmengine

// C10, engine level, end to end for the state machine: "the engine is restarted on the same
// stores, it starts without error ... positions are not behind what had been durably recorded".
// The real (*Engine).maybeInitializeChain initialises the chain through the driver (harness
// goroutine answering InitChain); a real state machine (kit of C08, through its probe API) runs
// on that finalization store with the genesis the engine produced, handles 0-3 events and the
// process dies - at the initial height in round 0 or 1, in commit wait with the finalization
// stored, or at the next height; then maybeInitializeChain runs again (the restart, before or
// after the mirror store was first written, with or without an init-chain channel) and a new
// state machine is started on the same stores with whatever genesis that second call returned.
// It has to come up, in the round the restart rules of C08 prescribe.

import (
	"context"

	"github.com/gordian-engine/gordian/internal/verifrt"
	"github.com/gordian-engine/gordian/tm/tmconsensus"
	"github.com/gordian-engine/gordian/tm/tmdriver"
	"github.com/gordian-engine/gordian/tm/tmengine/internal/tmstate"
	"github.com/gordian-engine/gordian/tm/tmstore/tmmemstore"
)

func VH_C10_EngineGenesisOnRestart() {
	ctx := context.Background()
	hs := tmstate.VHProbeHashScheme()
	gvs := tmstate.VHProbeValidators()

	ms := tmmemstore.NewMirrorStore()
	fs := tmmemstore.NewFinalizationStore()
	newEngine := func(initCh chan tmdriver.InitChainRequest) *Engine {
		e := &Engine{
			log:        verifrt.Logger(),
			genesis:    &tmconsensus.ExternalGenesis{ChainID: "vh", InitialHeight: 1, GenesisValidatorSet: gvs},
			hashScheme: hs,
		}
		e.mCfg.Store = ms
		if initCh != nil {
			e.initChainCh = initCh
		}
		return e
	}

	// first start: the driver answers InitChain (keeping the genesis validators)
	initCh := make(chan tmdriver.InitChainRequest)
	go func() {
		req := <-initCh
		req.Resp <- tmdriver.InitChainResponse{AppStateHash: []byte("app")}
	}()
	g1, err := newEngine(initCh).maybeInitializeChain(ctx, fs)
	verifrt.Assert(err == nil, "C10:first-start-initialises-the-chain")
	if err != nil {
		return
	}
	verifrt.Reach("C10-genesis:chain-initialised")

	// first life of the state machine
	p := tmstate.VHNewProbe(g1, fs)
	h, r, finalized, ok := p.FirstLife(verifrt.Choose("events-in-the-first-life", 4))
	if !ok {
		return
	}
	switch {
	case h == 1 && r == 0 && !finalized:
		verifrt.Reach("C10-genesis:died-at-the-initial-height-round-0")
	case h == 1 && r > 0:
		verifrt.Reach("C10-genesis:died-at-the-initial-height-in-a-later-round")
	case h == 1 && finalized:
		verifrt.Reach("C10-genesis:died-in-commit-wait-with-the-finalization-stored")
	case h == 2:
		verifrt.Reach("C10-genesis:died-at-the-second-height")
	}

	// the mirror wrote its position before the process died, or never got that far
	if h > 1 || verifrt.Choose("mirror-store-written", 2) == 1 {
		_ = ms.SetNetworkHeightRound(ctx, h, r, h-1, 0)
	}

	// restart: the engine decides again whether to initialise the chain and what genesis the
	// state machine gets; the driver may or may not offer an init-chain channel this time
	var initCh2 chan tmdriver.InitChainRequest
	if verifrt.Choose("init-chain-channel-on-restart", 2) == 1 {
		initCh2 = make(chan tmdriver.InitChainRequest)
	}
	g2, err := newEngine(initCh2).maybeInitializeChain(ctx, fs)
	verifrt.Assert(err == nil, "C10:engine-restart-does-not-fail")
	if err != nil {
		return
	}
	up, h2, r2 := p.Restart(g2)
	verifrt.Assert(up, "C10:state-machine-comes-up-again-on-the-same-stores")
	if !up {
		return
	}
	verifrt.Observe("restart", h, uint64(r), h2, uint64(r2))
	if finalized {
		verifrt.Assert(h2 == h+1 && r2 == 0, "C10:restart-after-a-stored-finalization-enters-the-next-height")
	} else {
		verifrt.Assert(h2 == h && r2 == r, "C10:restart-resumes-the-recorded-round")
	}
	verifrt.Reach("C10-genesis:restarted")
}
