package tmmirror

// VH_C04_CrashRestart: the chain obligations across restarts - the same crash/restart
// exploration as C10 (shared body), reported under C04: after a stop at any store write and a
// restart on the same stores the committed chain is the same, gap-free chain as without the stop.
func VH_C04_CrashRestart() { vhCrashRestart("C04") }
