package tmi

import (
	"github.com/gordian-engine/gordian/internal/verifrt"
)

// VH_C04_Steps: from one of four start states reached through the real handlers, 1 (quick) /
// 2 (thorough) kernel entries with symbolic heights and rounds anywhere relative to the node;
// the chain obligations are asserted after every step.
func VH_C04_Steps() {
	start := verifrt.Choose("start", 4)
	e, maxH := vhStart(start)
	before := e.snap(maxH)
	if start >= 2 {
		verifrt.Assert(before.ch == e.initialHeight && before.stored[e.initialHeight] == "G", "C04:setup-committed")
	}
	if start == 3 {
		verifrt.Assert(before.vr == 1, "C04:setup-round-advanced")
	}
	steps := 1
	if verifrt.Thorough() {
		steps = 2
	}
	for i := 0; i < steps; i++ {
		if !e.vhStep(i) {
			return // crash freedom is C09-K3's obligation
		}
		verifrt.Reach("step-done")
		before = e.checkChain("step", before, maxH)
	}
}
