package tmmemstore

// C16, concurrent half at lock granularity: two client goroutines call methods of one store at
// the same time; the engine's scheduler may switch between them at every lock operation
// (Lock/RLock/Unlock/RUnlock of the store mutex are scheduling points, plus a preemption budget
// before them), so every interleaving of the methods' critical sections is explored. What each
// call returned and what the store holds afterwards must be explained by one of the two
// sequential orders of the calls (linearizability for two operations). A method that splits
// its check and its write over two lock acquisitions is found this way. An access made without
// any lock has no scheduling point; it is found by the engine's lockset check instead
// (verifrt.LocksetRace: the two clients' accesses to one map object, one of them a write, must
// hold a common lock - exclusively on the writer's side), confirmed natively by the same
// stress loop built with the Go race detector.

import (
	"time"

	"github.com/gordian-engine/gordian/gcrypto"
	"github.com/gordian-engine/gordian/internal/verifrt"
	"github.com/gordian-engine/gordian/internal/verifrt/vkit"
	"github.com/gordian-engine/gordian/tm/tmconsensus"
	"github.com/gordian-engine/gordian/tm/tmstore"
)

func vhC16Preempt() int {
	if verifrt.Thorough() {
		return 3
	}
	return 2
}

// vhStress: once under the engine (all interleavings explored); natively the scenario is
// repeated on fresh stores until an obligation fails (confirmation of a schedule-dependent
// counterexample), at most 300000 times or 20 s.
func vhStress(f func()) { verifrt.Stress(300000, 20*time.Second, f) }

// vhPar runs a and b concurrently under the nondeterministic scheduler.
func vhPar(a, b func()) {
	verifrt.SchedNondet(true, vhC16Preempt())
	verifrt.LocksetRace(true)
	start, da, db := make(chan struct{}), make(chan struct{}), make(chan struct{})
	go func() { <-start; a(); close(da) }()
	go func() { <-start; b(); close(db) }()
	close(start)
	<-da
	<-db
	verifrt.LocksetRace(false)
	verifrt.SchedNondet(false, 0)
}

// VH_C16_Conc_Finalization: two concurrent SaveFinalization calls (heights equal or different
// as the solver decides) and, instead of the second save, a concurrent load. Exactly one of two
// saves of one height is acknowledged and the height holds that one's value for ever; a load
// sees nothing or one complete acknowledged value.
func VH_C16_Conc_Finalization() {
	h1, h2 := verifrt.U64("h"), verifrt.U64("h")
	verifrt.Assume(h1 >= 1 && h2 >= 1)
	r1, r2 := verifrt.U32("r"), verifrt.U32("r")
	b1, b2 := vhStr("block-hash"), vhStr("block-hash")
	vs := vkit.ValSet(vkit.OkKeys(2), []uint64{1, 2})
	second := verifrt.Choose("second-client", 2)
	vhStress(func() { vhConcFin(second, h1, h2, r1, r2, b1, b2, vs) })
}

func vhConcFin(second int, h1, h2 uint64, r1, r2 uint32, b1, b2 string, vs tmconsensus.ValidatorSet) {
	s := NewFinalizationStore()
	if second == 0 {
		var e1, e2 error
		vhPar(
			func() { e1 = s.SaveFinalization(vhCtx, h1, r1, b1, vs, "x") },
			func() { e2 = s.SaveFinalization(vhCtx, h2, r2, b2, vs, "y") },
		)
		lr1, lb1, _, la1, le1 := s.LoadFinalizationByHeight(vhCtx, h1)
		lr2, lb2, _, la2, le2 := s.LoadFinalizationByHeight(vhCtx, h2)
		verifrt.Assert(le1 == nil && le2 == nil, "L:finalization:both-heights-load-after-the-saves")
		if h1 != h2 {
			verifrt.Reach("conc-fin:different-heights")
			verifrt.Assert(e1 == nil && e2 == nil, "L:finalization:saves-of-different-heights-both-acknowledged")
			verifrt.Assert(lr1 == r1 && lb1 == b1 && la1 == "x" && lr2 == r2 && lb2 == b2 && la2 == "y",
				"L:finalization:each-height-holds-its-own-save")
			return
		}
		verifrt.Reach("conc-fin:same-height")
		_, o1 := e1.(tmstore.FinalizationOverwriteError)
		_, o2 := e2.(tmstore.FinalizationOverwriteError)
		firstWon := e1 == nil && o2 && lr1 == r1 && lb1 == b1 && la1 == "x"
		secondWon := e2 == nil && o1 && lr1 == r2 && lb1 == b2 && la1 == "y"
		verifrt.Assert(firstWon || secondWon, "L:finalization:exactly-one-save-of-a-height-acknowledged-and-kept")
		return
	}
	var e1 error
	var lr uint32
	var lb, la string
	var le error
	vhPar(
		func() { e1 = s.SaveFinalization(vhCtx, h1, r1, b1, vs, "x") },
		func() { lr, lb, _, la, le = s.LoadFinalizationByHeight(vhCtx, h1) },
	)
	verifrt.Reach("conc-fin:save-and-load")
	verifrt.Assert(e1 == nil, "L:finalization:save-into-empty-store-acknowledged")
	if le == nil {
		verifrt.Assert(lr == r1 && lb == b1 && la == "x", "L:finalization:concurrent-load-sees-a-complete-value")
	} else {
		_, unk := le.(tmconsensus.HeightUnknownError)
		verifrt.Assert(unk, "L:finalization:concurrent-load-sees-nothing-or-the-value")
	}
}

// VH_C16_Conc_Action: two concurrent saves into one round of the action store: two prevotes
// with different targets (exactly one recorded), or a prevote and a precommit, or a vote and a
// proposed header (both recorded: no lost update of the shared round record).
func VH_C16_Conc_Action() {
	h := verifrt.U64("h")
	verifrt.Assume(h >= 1)
	r := verifrt.U32("r")
	pair := verifrt.Choose("pair", 3)
	vhStress(func() { vhConcAction(pair, h, r) })
}

func vhConcAction(pair int, h uint64, r uint32) {
	s := NewActionStore()
	k := vkit.SymKey{Set: 0, ID: 0}
	vtA := tmconsensus.VoteTarget{Height: h, Round: r, BlockHash: "A"}
	vtN := tmconsensus.VoteTarget{Height: h, Round: r, BlockHash: ""}
	var e1, e2 error
	switch pair {
	case 0:
		vhPar(
			func() { e1 = s.SavePrevoteAction(vhCtx, k, vtA, []byte("s1")) },
			func() { e2 = s.SavePrevoteAction(vhCtx, k, vtN, []byte("s2")) },
		)
		ra, le := s.LoadActions(vhCtx, h, r)
		verifrt.Assert(le == nil, "L:action:round-loads-after-the-saves")
		_, d1 := e1.(tmstore.DoubleActionError)
		_, d2 := e2.(tmstore.DoubleActionError)
		firstWon := e1 == nil && d2 && ra.PrevoteTarget == "A" && ra.PrevoteSignature == "s1"
		secondWon := e2 == nil && d1 && ra.PrevoteTarget == "" && ra.PrevoteSignature == "s2"
		verifrt.Assert(firstWon || secondWon, "L:action:exactly-one-prevote-of-a-round-recorded")
		verifrt.Reach("conc-action:two-prevotes")
	case 1:
		vhPar(
			func() { e1 = s.SavePrevoteAction(vhCtx, k, vtA, []byte("s1")) },
			func() { e2 = s.SavePrecommitAction(vhCtx, k, vtN, []byte("s2")) },
		)
		ra, le := s.LoadActions(vhCtx, h, r)
		verifrt.Assert(le == nil && e1 == nil && e2 == nil, "L:action:prevote-and-precommit-both-acknowledged")
		verifrt.Assert(ra.PrevoteTarget == "A" && ra.PrevoteSignature == "s1" && ra.PrecommitTarget == "" && ra.PrecommitSignature == "s2",
			"L:action:neither-concurrent-record-of-a-round-is-lost")
		verifrt.Reach("conc-action:prevote-and-precommit")
	case 2:
		ph := tmconsensus.ProposedHeader{Header: tmconsensus.Header{Height: h, Hash: []byte("A")}, Round: r, ProposerPubKey: k, Signature: []byte("p")}
		vhPar(
			func() { e1 = s.SaveProposedHeaderAction(vhCtx, ph) },
			func() { e2 = s.SavePrecommitAction(vhCtx, k, vtA, []byte("s2")) },
		)
		ra, le := s.LoadActions(vhCtx, h, r)
		verifrt.Assert(le == nil && e1 == nil && e2 == nil, "L:action:proposal-and-precommit-both-acknowledged")
		verifrt.Assert(ra.ProposedHeader.Header.Height == h && ra.PrecommitTarget == "A" && ra.PrecommitSignature == "s2",
			"L:action:neither-concurrent-record-of-a-round-is-lost")
		verifrt.Reach("conc-action:proposal-and-precommit")
	}
}

// VH_C16_Conc_Positions: the two position stores hold four (two) numbers written together:
// after two concurrent writes and with a concurrent reader, what is read is one writer's
// complete tuple (or "uninitialized"), never a mixture.
func VH_C16_Conc_Positions() {
	a := [4]uint64{verifrt.U64("vh"), uint64(verifrt.U32("vr")), verifrt.U64("ch"), uint64(verifrt.U32("cr"))}
	b := [4]uint64{verifrt.U64("vh"), uint64(verifrt.U32("vr")), verifrt.U64("ch"), uint64(verifrt.U32("cr"))}
	verifrt.Assume(a[0] >= 1 && b[0] >= 1)
	store := verifrt.Choose("store", 2)
	second := 0
	if store == 0 {
		second = verifrt.Choose("second-client", 2)
	}
	vhStress(func() { vhConcPositions(store, second, a, b) })
}

func vhConcPositions(store, second int, a, b [4]uint64) {
	is := func(vh uint64, vr uint32, ch uint64, cr uint32, w [4]uint64) bool {
		return vh == w[0] && uint64(vr) == w[1] && ch == w[2] && uint64(cr) == w[3]
	}
	if store == 0 {
		s := NewMirrorStore()
		var rvh, rch uint64
		var rvr, rcr uint32
		var rerr error
		if second == 0 {
			vhPar(
				func() { _ = s.SetNetworkHeightRound(vhCtx, a[0], uint32(a[1]), a[2], uint32(a[3])) },
				func() { _ = s.SetNetworkHeightRound(vhCtx, b[0], uint32(b[1]), b[2], uint32(b[3])) },
			)
			vh, vr, ch, cr, err := s.NetworkHeightRound(vhCtx)
			verifrt.Assert(err == nil && (is(vh, vr, ch, cr, a) || is(vh, vr, ch, cr, b)), "L:mirror-store:holds-one-writers-complete-position")
			verifrt.Reach("conc-pos:mirror-two-writers")
			return
		}
		vhPar(
			func() { _ = s.SetNetworkHeightRound(vhCtx, a[0], uint32(a[1]), a[2], uint32(a[3])) },
			func() { rvh, rvr, rch, rcr, rerr = s.NetworkHeightRound(vhCtx) },
		)
		verifrt.Assert(rerr == tmstore.ErrStoreUninitialized || (rerr == nil && is(rvh, rvr, rch, rcr, a)),
			"L:mirror-store:concurrent-read-sees-nothing-or-the-complete-position")
		verifrt.Reach("conc-pos:mirror-writer-and-reader")
		return
	}
	s := NewStateMachineStore()
	vhPar(
		func() { _ = s.SetStateMachineHeightRound(vhCtx, a[0], uint32(a[1])) },
		func() { _ = s.SetStateMachineHeightRound(vhCtx, b[0], uint32(b[1])) },
	)
	h, r, err := s.StateMachineHeightRound(vhCtx)
	verifrt.Assert(err == nil && ((h == a[0] && uint64(r) == a[1]) || (h == b[0] && uint64(r) == b[1])),
		"L:state-machine-store:holds-one-writers-complete-position")
	verifrt.Reach("conc-pos:state-machine-two-writers")
}

// VH_C16_Conc_Validator: two concurrent SavePubKeys of the same key list (exactly one is the
// first: the other gets PubKeysAlreadyExistError with the same hash) or of two different lists
// (both acknowledged, both retrievable); same for vote powers.
func VH_C16_Conc_Validator() {
	kind := verifrt.Choose("kind", 2)
	sym := verifrt.U8("second-value") & 1
	vhStress(func() { vhConcValidator(kind, sym) })
}

func vhConcValidator(kind int, sym uint8) {
	s := NewValidatorStore(vhHS{})
	if kind == 0 {
		k1 := []gcrypto.PubKey{vkit.SymKey{Set: 0, ID: 0}}
		k2 := []gcrypto.PubKey{vkit.SymKey{Set: 0, ID: sym}}
		var h1, h2 string
		var e1, e2 error
		vhPar(
			func() { h1, e1 = s.SavePubKeys(vhCtx, k1) },
			func() { h2, e2 = s.SavePubKeys(vhCtx, k2) },
		)
		g1, le1 := s.LoadPubKeys(vhCtx, h1)
		g2, le2 := s.LoadPubKeys(vhCtx, h2)
		verifrt.Assert(le1 == nil && le2 == nil && vhKeysEq(g1, k1) && vhKeysEq(g2, k2), "L:validator:both-key-lists-retrievable-by-their-hash")
		if vhKeysEq(k1, k2) {
			_, a1 := e1.(tmstore.PubKeysAlreadyExistError)
			_, a2 := e2.(tmstore.PubKeysAlreadyExistError)
			verifrt.Assert(h1 == h2 && ((e1 == nil && a2) || (e2 == nil && a1)), "L:validator:exactly-one-first-save-of-a-key-list")
			verifrt.Reach("conc-val:same-keys")
		} else {
			verifrt.Assert(e1 == nil && e2 == nil && h1 != h2, "L:validator:different-key-lists-both-acknowledged")
			verifrt.Reach("conc-val:different-keys")
		}
		return
	}
	p1 := []uint64{1}
	p2 := []uint64{1 + uint64(sym)}
	var h1, h2 string
	var e1, e2 error
	vhPar(
		func() { h1, e1 = s.SaveVotePowers(vhCtx, p1) },
		func() { h2, e2 = s.SaveVotePowers(vhCtx, p2) },
	)
	g1, le1 := s.LoadVotePowers(vhCtx, h1)
	g2, le2 := s.LoadVotePowers(vhCtx, h2)
	verifrt.Assert(le1 == nil && le2 == nil && vhPowsEq(g1, p1) && vhPowsEq(g2, p2), "L:validator:both-power-lists-retrievable-by-their-hash")
	if vhPowsEq(p1, p2) {
		_, a1 := e1.(tmstore.VotePowersAlreadyExistError)
		_, a2 := e2.(tmstore.VotePowersAlreadyExistError)
		verifrt.Assert(h1 == h2 && ((e1 == nil && a2) || (e2 == nil && a1)), "L:validator:exactly-one-first-save-of-a-power-list")
		verifrt.Reach("conc-val:same-powers")
	} else {
		verifrt.Assert(e1 == nil && e2 == nil && h1 != h2, "L:validator:different-power-lists-both-acknowledged")
		verifrt.Reach("conc-val:different-powers")
	}
}

// VH_C16_Conc_Round: two proposed headers with different hashes saved concurrently into one
// round are both there afterwards; a header and a proof overwrite of the same round do not lose
// each other; two concurrent saves of the same proposer's header: exactly one OverwriteError.
func VH_C16_Conc_Round() {
	h := verifrt.U64("h")
	verifrt.Assume(h >= 1)
	r := verifrt.U32("r")
	pair := verifrt.Choose("pair", 3)
	vhStress(func() { vhConcRound(pair, h, r) })
}

func vhConcRound(pair int, h uint64, r uint32) {
	s := NewRoundStore()
	k := vkit.SymKey{Set: 0, ID: 0}
	mk := func(hash string) tmconsensus.ProposedHeader {
		return tmconsensus.ProposedHeader{Header: tmconsensus.Header{Height: h, Hash: []byte(hash)}, Round: r, ProposerPubKey: k, Signature: []byte("p" + hash)}
	}
	var e1, e2 error
	switch pair {
	case 0:
		vhPar(
			func() { e1 = s.SaveRoundProposedHeader(vhCtx, mk("A")) },
			func() { e2 = s.SaveRoundProposedHeader(vhCtx, mk("B")) },
		)
		phs, _, _, le := s.LoadRoundState(vhCtx, h, r)
		verifrt.Assert(e1 == nil && e2 == nil && le == nil && len(phs) == 2, "L:round:two-concurrent-headers-both-kept")
		verifrt.Reach("conc-round:two-headers")
	case 1:
		vhPar(
			func() { e1 = s.SaveRoundProposedHeader(vhCtx, mk("A")) },
			func() { e2 = s.SaveRoundProposedHeader(vhCtx, mk("A")) },
		)
		phs, _, _, le := s.LoadRoundState(vhCtx, h, r)
		_, o1 := e1.(tmstore.OverwriteError)
		_, o2 := e2.(tmstore.OverwriteError)
		verifrt.Assert(le == nil && len(phs) == 1 && ((e1 == nil && o2) || (e2 == nil && o1)), "L:round:same-header-twice-exactly-one-kept")
		verifrt.Reach("conc-round:same-header-twice")
	case 2:
		proofs := tmconsensus.SparseSignatureCollection{
			PubKeyHash:      []byte("kh"),
			BlockSignatures: map[string][]gcrypto.SparseSignature{"": {{KeyID: []byte{0}, Sig: []byte("s")}}},
		}
		vhPar(
			func() { e1 = s.SaveRoundProposedHeader(vhCtx, mk("A")) },
			func() { e2 = s.OverwriteRoundPrevoteProofs(vhCtx, h, r, proofs) },
		)
		phs, pv, _, le := s.LoadRoundState(vhCtx, h, r)
		verifrt.Assert(e1 == nil && e2 == nil && le == nil && len(phs) == 1 && len(pv.BlockSignatures) == 1, "L:round:header-and-proofs-of-a-round-both-kept")
		verifrt.Reach("conc-round:header-and-proofs")
	}
}
