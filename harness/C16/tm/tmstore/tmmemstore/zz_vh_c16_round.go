package tmmemstore

import (
	"github.com/gordian-engine/gordian/gcrypto"
	"github.com/gordian-engine/gordian/internal/verifrt"
	"github.com/gordian-engine/gordian/internal/verifrt/vkit"
	"github.com/gordian-engine/gordian/tm/tmconsensus"
	"github.com/gordian-engine/gordian/tm/tmstore"
)

// Reference model of tmstore.RoundStore (from tm/tmstore/roundstore.go and errors.go).
// Where the documentation leaves the outcome open the model allows every documented
// outcome:
//   - SaveRoundProposedHeader may refuse with OverwriteError only if the same proposer
//     already has a proposed header in that height/round; otherwise it must succeed.
//   - SaveRoundReplayedHeader may refuse with OverwriteError only if a proposed header
//     with the same hash exists in that height; otherwise it must succeed.
//   - the Overwrite* methods always succeed, the latest collection wins.
//   - LoadRoundState returns every proposed header saved for the height/round exactly
//     once (any order), possibly plus replayed headers of that height (without proposer
//     key); a replayed header whose hash has stored precommits in the round must be
//     there; RoundUnknownError iff nothing is stored for the round (a replayed header
//     alone has no round yet: either answer is allowed).

type vhRPH struct {
	tag  byte
	h    uint64
	r    uint32
	hash []byte
	key  gcrypto.PubKey
	sig  []byte
}

type vhRRH struct {
	tag  byte
	h    uint64
	hash []byte
}

type vhRProofs struct {
	precommit  bool
	h          uint64
	r          uint32
	withA      bool
	sigA, sigN []byte
}

type vhRoundModel struct {
	phs    []*vhRPH
	rhs    []*vhRRH
	proofs []*vhRProofs
	nextTag byte
}

func (m *vhRoundModel) latest(precommit bool, h uint64, r uint32) *vhRProofs {
	for i := len(m.proofs) - 1; i >= 0; i-- {
		p := m.proofs[i]
		if p.precommit == precommit && verifrt.And(p.h == h, p.r == r) {
			return p
		}
	}
	return nil
}

func vhTagged(tag byte) tmconsensus.Annotations {
	return tmconsensus.Annotations{User: []byte{tag}}
}

// vhRoundSave performs one symbolic mutation on the store and the model.
func vhRoundSave(s *RoundStore, m *vhRoundModel) {
	kind := verifrt.Choose("op", 4)
	h := verifrt.U64("h")
	r := verifrt.U32("r")
	m.nextTag++
	tag := m.nextTag
	switch kind {
	case 0:
		n := &vhRPH{tag: tag, h: h, r: r, hash: vhHash("ph-hash"), key: vhKey("ph-key"), sig: vhSig("ph-sig")}
		ph := tmconsensus.ProposedHeader{
			Header:         tmconsensus.Header{Height: h, Hash: vhClone(n.hash), Annotations: vhTagged(tag)},
			Round:          r,
			ProposerPubKey: n.key,
			Signature:      vhClone(n.sig),
		}
		dup := false
		for _, p := range m.phs {
			dup = verifrt.Or(dup, verifrt.And(verifrt.And(p.h == h, p.r == r), p.key.Equal(n.key)))
		}
		err := s.SaveRoundProposedHeader(vhCtx, ph)
		verifrt.Observe("round-save-ph", h, uint64(r), vhErrCode(err))
		if err == nil {
			verifrt.Reach("round:ph-saved")
			m.phs = append(m.phs, n)
		} else {
			verifrt.Reach("round:ph-rejected-overwrite")
			_, ok := err.(tmstore.OverwriteError)
			verifrt.Assert(ok, "R1:proposed-header-refusal-is-OverwriteError")
			verifrt.Assert(dup, "R1:proposed-header-refused-only-if-proposer-already-proposed-in-round")
		}
	case 1:
		n := &vhRRH{tag: tag, h: h, hash: vhHash("rh-hash")}
		hdr := tmconsensus.Header{Height: h, Hash: vhClone(n.hash), Annotations: vhTagged(tag)}
		conflict := false
		for _, p := range m.phs {
			conflict = verifrt.Or(conflict, verifrt.And(p.h == h, vhBytesEq(p.hash, n.hash)))
		}
		err := s.SaveRoundReplayedHeader(vhCtx, hdr)
		verifrt.Observe("round-save-rh", h, vhErrCode(err))
		if err == nil {
			verifrt.Reach("round:replayed-saved")
			m.rhs = append(m.rhs, n)
		} else {
			verifrt.Reach("round:replayed-rejected-overwrite")
			_, ok := err.(tmstore.OverwriteError)
			verifrt.Assert(ok, "R2:replayed-header-refusal-is-OverwriteError")
			verifrt.Assert(conflict, "R2:replayed-header-refused-only-if-proposed-header-with-that-hash-exists")
		}
	default:
		n := &vhRProofs{precommit: kind == 3, h: h, r: r, withA: verifrt.Choose("proofs-have-block", 2) == 1,
			sigA: vhSig("sig-a"), sigN: vhSig("sig-nil")}
		bs := map[string][]gcrypto.SparseSignature{
			"": {{KeyID: vkit.KeyID(1), Sig: vhClone(n.sigN)}},
		}
		if n.withA {
			bs["A"] = []gcrypto.SparseSignature{{KeyID: vkit.KeyID(0), Sig: vhClone(n.sigA)}}
		}
		coll := tmconsensus.SparseSignatureCollection{PubKeyHash: []byte("pkh"), BlockSignatures: bs}
		var err error
		if n.precommit {
			err = s.OverwriteRoundPrecommitProofs(vhCtx, h, r, coll)
		} else {
			err = s.OverwriteRoundPrevoteProofs(vhCtx, h, r, coll)
		}
		verifrt.Observe("round-overwrite-proofs", uint64(kind), h, uint64(r), vhErrCode(err))
		verifrt.Reach("round:proofs-overwritten")
		verifrt.Assert(err == nil, "R3:overwrite-proofs-accepted")
		m.proofs = append(m.proofs, n)
	}
	vhRoundCheckLoad(s, m, h, r)
}

func vhRoundCheckProofs(got tmconsensus.SparseSignatureCollection, want *vhRProofs, what string) {
	if want == nil {
		verifrt.Assert(len(got.BlockSignatures) == 0, "R5:no-"+what+"-loaded-when-none-saved")
		return
	}
	n := 1
	if want.withA {
		n = 2
	}
	verifrt.Assert(len(got.BlockSignatures) == n, "R5:loaded-"+what+"-targets")
	verifrt.Assert(string(got.PubKeyHash) == "pkh", "R5:loaded-"+what+"-key-hash")
	sn := got.BlockSignatures[""]
	verifrt.Assert(len(sn) == 1, "R5:loaded-"+what+"-nil-signature-count")
	if len(sn) == 1 {
		verifrt.Assert(verifrt.And(vhBytesEq(sn[0].Sig, want.sigN), vhBytesEq(sn[0].KeyID, vkit.KeyID(1))), "R5:loaded-"+what+"-nil-signatures-are-the-latest")
	}
	if want.withA {
		sa := got.BlockSignatures["A"]
		verifrt.Assert(len(sa) == 1, "R5:loaded-"+what+"-block-signature-count")
		if len(sa) == 1 {
			verifrt.Assert(verifrt.And(vhBytesEq(sa[0].Sig, want.sigA), vhBytesEq(sa[0].KeyID, vkit.KeyID(0))), "R5:loaded-"+what+"-block-signatures-are-the-latest")
		}
	}
}

// vhRoundCheckLoad compares LoadRoundState(h, r) with the model.
func vhRoundCheckLoad(s *RoundStore, m *vhRoundModel, h uint64, r uint32) {
	phs, pv, pc, err := s.LoadRoundState(vhCtx, h, r)
	verifrt.Observe("round-load", h, uint64(r), vhErrCode(err), uint64(len(phs)), uint64(len(pv.BlockSignatures)), uint64(len(pc.BlockSignatures)))

	wantPH := map[byte]*vhRPH{}
	for _, p := range m.phs {
		if verifrt.And(p.h == h, p.r == r) {
			wantPH[p.tag] = p
		}
	}
	mayRH := map[byte]*vhRRH{}
	for _, p := range m.rhs {
		if p.h == h {
			mayRH[p.tag] = p
		}
	}
	pvM := m.latest(false, h, r)
	pcM := m.latest(true, h, r)

	if len(wantPH) == 0 && pvM == nil && pcM == nil {
		if len(mayRH) == 0 {
			verifrt.Reach("round:load-unknown-round")
			ue, ok := err.(tmconsensus.RoundUnknownError)
			verifrt.Assert(ok, "R4:load-of-empty-round-is-RoundUnknownError")
			if ok {
				verifrt.Assert(verifrt.And(ue.WantHeight == h, ue.WantRound == r), "R4:RoundUnknownError-names-the-request")
			}
			return
		}
		verifrt.Reach("round:load-replayed-header-without-round")
		if err != nil {
			_, ok := err.(tmconsensus.RoundUnknownError)
			verifrt.Assert(ok, "R4:load-failure-is-RoundUnknownError")
			return
		}
	} else {
		verifrt.Reach("round:load-found")
		verifrt.Assert(err == nil, "R6:load-of-round-with-data-succeeds")
		if err != nil {
			return
		}
	}

	used := map[byte]bool{}
	for _, g := range phs {
		u := g.Header.Annotations.User
		if len(u) != 1 {
			verifrt.Fail("R7:loaded-header-was-never-saved")
			continue
		}
		tag := u[0]
		if used[tag] {
			verifrt.Fail("R7:header-loaded-twice")
			continue
		}
		used[tag] = true
		if p := wantPH[tag]; p != nil {
			ok := verifrt.And(g.Header.Height == h, g.Round == r)
			ok = verifrt.And(ok, vhBytesEq(g.Header.Hash, p.hash))
			ok = verifrt.And(ok, vhBytesEq(g.Signature, p.sig))
			ok = verifrt.And(ok, vhKeyEq(g.ProposerPubKey, p.key))
			verifrt.Assert(ok, "R7:loaded-proposed-header-is-the-saved-one")
		} else if p := mayRH[tag]; p != nil {
			verifrt.Reach("round:replayed-header-loaded")
			ok := verifrt.And(g.Header.Height == h, vhBytesEq(g.Header.Hash, p.hash))
			verifrt.Assert(ok, "R8:loaded-replayed-header-is-the-saved-one")
			verifrt.Assert(g.ProposerPubKey == nil && len(g.Signature) == 0, "R8:replayed-header-has-no-proposal-metadata")
		} else {
			verifrt.Fail("R7:loaded-header-not-saved-for-this-height-round")
		}
	}
	for tag := range wantPH {
		verifrt.Assert(used[tag], "R7:every-saved-proposed-header-is-loaded")
	}
	if pcM != nil && pcM.withA {
		// normal mirror flow: replayed header saved, then its precommits
		for tag, p := range mayRH {
			verifrt.Assert(verifrt.Implies(vhBytesEq(p.hash, []byte("A")), used[tag]), "R8:replayed-header-with-stored-precommits-is-loaded")
		}
	}
	vhRoundCheckProofs(pv, pvM, "prevotes")
	vhRoundCheckProofs(pc, pcM, "precommits")
}

// VH_C16_Round: up to two (thorough: three) symbolic mutations, then every RoundStore method with symbolic
// arguments; after every mutation the touched round is loaded and compared with the model.
func VH_C16_Round() {
	verifrt.MapOrderFuncs("LoadRoundState")
	s := NewRoundStore()
	m := &vhRoundModel{}
	n := verifrt.Choose("prefix-ops", vhMaxPrefix()+1)
	for i := 0; i < n; i++ {
		vhRoundSave(s, m)
	}
	if verifrt.Choose("probe", 2) == 0 {
		vhRoundSave(s, m)
	} else {
		vhRoundCheckLoad(s, m, verifrt.U64("load-h"), verifrt.U32("load-r"))
	}
}
