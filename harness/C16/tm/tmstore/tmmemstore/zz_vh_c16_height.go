package tmmemstore

import (
	"errors"

	"github.com/gordian-engine/gordian/gcrypto"
	"github.com/gordian-engine/gordian/internal/verifrt"
	"github.com/gordian-engine/gordian/internal/verifrt/vkit"
	"github.com/gordian-engine/gordian/tm/tmconsensus"
	"github.com/gordian-engine/gordian/tm/tmstore"
)

// ---- FinalizationStore: one finalization per height, never overwritten.

type vhFin struct {
	h        uint64
	r        uint32
	bh, ash  string
	p0, p1   uint64
	pkh, vph []byte
}

type vhFinModel struct{ es []*vhFin }

func (m *vhFinModel) find(h uint64) *vhFin {
	for _, e := range m.es {
		if e.h == h {
			return e
		}
	}
	return nil
}

func vhFinSave(s *FinalizationStore, m *vhFinModel) {
	h := verifrt.U64("h")
	r := verifrt.U32("r")
	bh := vhStr("block-hash")
	ash := vhStr("app-state-hash")
	p0, p1 := verifrt.U64("power"), verifrt.U64("power")
	vs := vkit.ValSet(vkit.OkKeys(2), []uint64{p0, p1})
	e := m.find(h)
	err := s.SaveFinalization(vhCtx, h, r, bh, vs, ash)
	verifrt.Observe("fin-save", h, uint64(r), vhErrCode(err))
	if e != nil {
		verifrt.Reach("fin:save-rejected-overwrite")
		oe, ok := err.(tmstore.FinalizationOverwriteError)
		verifrt.Assert(ok, "F1:second-finalization-for-height-refused")
		if ok {
			verifrt.Assert(oe.Height == h, "F1:FinalizationOverwriteError-names-the-height")
		}
	} else {
		verifrt.Reach("fin:saved")
		verifrt.Assert(err == nil, "F0:first-finalization-accepted")
		m.es = append(m.es, &vhFin{h: h, r: r, bh: bh, ash: ash, p0: p0, p1: p1,
			pkh: vhClone(vs.PubKeyHash), vph: vhClone(vs.VotePowerHash)})
	}
	vhFinCheckLoad(s, m, h)
}

func vhFinCheckLoad(s *FinalizationStore, m *vhFinModel, h uint64) {
	r, bh, vs, ash, err := s.LoadFinalizationByHeight(vhCtx, h)
	verifrt.Observe("fin-load", h, vhErrCode(err), uint64(r), uint64(len(vs.Validators)))
	e := m.find(h)
	if e == nil {
		verifrt.Reach("fin:load-unknown-height")
		verifrt.Assert(err != nil, "F2:load-of-unknown-height-fails")
		ue, ok := err.(tmconsensus.HeightUnknownError)
		verifrt.Assert(ok, "F2:load-of-unknown-height-is-HeightUnknownError")
		if ok {
			verifrt.Assert(ue.Want == h, "F2:HeightUnknownError-names-the-request")
		}
		return
	}
	verifrt.Reach("fin:load-found")
	verifrt.Assert(err == nil, "F3:load-of-finalized-height-succeeds")
	if err != nil {
		return
	}
	ok := verifrt.And(r == e.r, verifrt.And(bh == e.bh, ash == e.ash))
	verifrt.Assert(ok, "F3:loaded-round-and-hashes-are-the-first-saved")
	verifrt.Assert(len(vs.Validators) == 2 && len(vs.PubKeys) == 2, "F3:loaded-validator-count")
	if len(vs.Validators) == 2 && len(vs.PubKeys) == 2 {
		okv := verifrt.And(vs.Validators[0].Power == e.p0, vs.Validators[1].Power == e.p1)
		okv = verifrt.And(okv, vhKeyEq(vs.Validators[0].PubKey, vkit.OkKey{ID: 0}))
		okv = verifrt.And(okv, vhKeyEq(vs.Validators[1].PubKey, vkit.OkKey{ID: 1}))
		okv = verifrt.And(okv, vhKeyEq(vs.PubKeys[0], vkit.OkKey{ID: 0}))
		okv = verifrt.And(okv, vhKeyEq(vs.PubKeys[1], vkit.OkKey{ID: 1}))
		okv = verifrt.And(okv, vhBytesEq(vs.PubKeyHash, e.pkh))
		okv = verifrt.And(okv, vhBytesEq(vs.VotePowerHash, e.vph))
		verifrt.Assert(okv, "F3:loaded-validator-set-is-the-first-saved")
	}
}

// VH_C16_Finalization: up to two (thorough: three) symbolic saves, then save or load with symbolic height.
func VH_C16_Finalization() {
	s := NewFinalizationStore()
	m := &vhFinModel{}
	n := verifrt.Choose("prefix-ops", vhMaxPrefix()+1)
	for i := 0; i < n; i++ {
		vhFinSave(s, m)
	}
	if verifrt.Choose("probe", 2) == 0 {
		vhFinSave(s, m)
	} else {
		vhFinCheckLoad(s, m, verifrt.U64("load-h"))
	}
}

// ---- CommittedHeaderStore: load returns the latest header saved for the height.

type vhCH struct {
	h          uint64
	hash       []byte
	round      uint32
	sigA, sigN []byte
	withA      bool
}

type vhCHModel struct{ es []*vhCH }

func (m *vhCHModel) find(h uint64) *vhCH {
	for _, e := range m.es {
		if e.h == h {
			return e
		}
	}
	return nil
}

func vhCHSave(s *CommittedHeaderStore, m *vhCHModel) {
	h := verifrt.U64("h")
	n := &vhCH{h: h, hash: vhHash("hash"), round: verifrt.U32("proof-round"),
		sigA: vhSig("sig-a"), sigN: vhSig("sig-nil"), withA: verifrt.Choose("proof-has-block", 2) == 1}
	proofs := map[string][]gcrypto.SparseSignature{
		"": {{KeyID: vkit.KeyID(1), Sig: vhClone(n.sigN)}},
	}
	if n.withA {
		proofs["A"] = []gcrypto.SparseSignature{{KeyID: vkit.KeyID(0), Sig: vhClone(n.sigA)}}
	}
	ch := tmconsensus.CommittedHeader{
		Header: tmconsensus.Header{Height: h, Hash: vhClone(n.hash)},
		Proof:  tmconsensus.CommitProof{Round: n.round, PubKeyHash: "pkh", Proofs: proofs},
	}
	err := s.SaveCommittedHeader(vhCtx, ch)
	verifrt.Observe("ch-save", h, vhErrCode(err))
	verifrt.Assert(err == nil, "H0:save-accepted")
	if e := m.find(h); e != nil {
		verifrt.Reach("ch:saved-again")
		*e = *n
	} else {
		verifrt.Reach("ch:saved")
		m.es = append(m.es, n)
	}
	vhCHCheckLoad(s, m, h)
}

func vhCHCheckLoad(s *CommittedHeaderStore, m *vhCHModel, h uint64) {
	ch, err := s.LoadCommittedHeader(vhCtx, h)
	verifrt.Observe("ch-load", h, vhErrCode(err), ch.Header.Height, uint64(ch.Proof.Round), uint64(len(ch.Proof.Proofs)))
	e := m.find(h)
	if e == nil {
		verifrt.Reach("ch:load-unknown-height")
		ue, ok := err.(tmconsensus.HeightUnknownError)
		verifrt.Assert(ok, "H2:load-of-unknown-height-is-HeightUnknownError")
		if ok {
			verifrt.Assert(ue.Want == h, "H2:HeightUnknownError-names-the-request")
		}
		return
	}
	verifrt.Reach("ch:load-found")
	verifrt.Assert(err == nil, "H3:load-of-saved-height-succeeds")
	if err != nil {
		return
	}
	ok := verifrt.And(ch.Header.Height == h, vhBytesEq(ch.Header.Hash, e.hash))
	ok = verifrt.And(ok, ch.Proof.Round == e.round)
	verifrt.Assert(ok, "H3:loaded-header-is-the-latest-saved")
	verifrt.Assert(ch.Proof.PubKeyHash == "pkh", "H3:loaded-proof-key-hash")
	want := 1
	if e.withA {
		want = 2
	}
	verifrt.Assert(len(ch.Proof.Proofs) == want, "H3:loaded-proof-targets")
	sn := ch.Proof.Proofs[""]
	verifrt.Assert(len(sn) == 1, "H3:loaded-nil-signature-count")
	if len(sn) == 1 {
		verifrt.Assert(verifrt.And(vhBytesEq(sn[0].Sig, e.sigN), vhBytesEq(sn[0].KeyID, vkit.KeyID(1))), "H3:loaded-nil-signatures")
	}
	if e.withA {
		sa := ch.Proof.Proofs["A"]
		verifrt.Assert(len(sa) == 1, "H3:loaded-block-signature-count")
		if len(sa) == 1 {
			verifrt.Assert(verifrt.And(vhBytesEq(sa[0].Sig, e.sigA), vhBytesEq(sa[0].KeyID, vkit.KeyID(0))), "H3:loaded-block-signatures")
		}
	}
}

// VH_C16_CommittedHeader: up to two (thorough: three) symbolic saves, then save or load with symbolic height.
func VH_C16_CommittedHeader() {
	s := NewCommittedHeaderStore()
	m := &vhCHModel{}
	n := verifrt.Choose("prefix-ops", vhMaxPrefix()+1)
	for i := 0; i < n; i++ {
		vhCHSave(s, m)
	}
	if verifrt.Choose("probe", 2) == 0 {
		vhCHSave(s, m)
	} else {
		vhCHCheckLoad(s, m, verifrt.U64("load-h"))
	}
}

// ---- MirrorStore / StateMachineStore: a single cell, uninitialised until the first Set.

// VH_C16_Mirror: 0..2 Sets with symbolic values, then the getter.
func VH_C16_Mirror() {
	s := NewMirrorStore()
	n := verifrt.Choose("sets", 3)
	var vh, ch uint64
	var vr, cr uint32
	for i := 0; i < n; i++ {
		vh, vr, ch, cr = verifrt.U64("vh"), verifrt.U32("vr"), verifrt.U64("ch"), verifrt.U32("cr")
		verifrt.Assume(vh >= 1) // a voting height is a block height; see VH_C16_ZeroSentinels
		err := s.SetNetworkHeightRound(vhCtx, vh, vr, ch, cr)
		verifrt.Reach("mirror:set")
		verifrt.Assert(err == nil, "M0:set-accepted")
	}
	gvh, gvr, gch, gcr, err := s.NetworkHeightRound(vhCtx)
	verifrt.Observe("mirror-get", uint64(n), vhErrCode(err), gvh, uint64(gvr), gch, uint64(gcr))
	if n == 0 {
		verifrt.Reach("mirror:uninitialized")
		verifrt.Assert(errors.Is(err, tmstore.ErrStoreUninitialized), "M1:get-before-set-is-ErrStoreUninitialized")
		return
	}
	verifrt.Reach("mirror:loaded")
	verifrt.Assert(err == nil, "M2:get-after-set-succeeds")
	ok := verifrt.And(verifrt.And(gvh == vh, gvr == vr), verifrt.And(gch == ch, gcr == cr))
	verifrt.Assert(ok, "M2:get-returns-the-latest-set")
}

// VH_C16_StateMachine: 0..2 Sets with symbolic values, then the getter.
func VH_C16_StateMachine() {
	s := NewStateMachineStore()
	n := verifrt.Choose("sets", 3)
	var h uint64
	var r uint32
	for i := 0; i < n; i++ {
		h, r = verifrt.U64("h"), verifrt.U32("r")
		verifrt.Assume(h >= 1) // see VH_C16_ZeroSentinels
		err := s.SetStateMachineHeightRound(vhCtx, h, r)
		verifrt.Reach("sm:set")
		verifrt.Assert(err == nil, "S0:set-accepted")
	}
	gh, gr, err := s.StateMachineHeightRound(vhCtx)
	verifrt.Observe("sm-get", uint64(n), vhErrCode(err), gh, uint64(gr))
	if n == 0 {
		verifrt.Reach("sm:uninitialized")
		verifrt.Assert(errors.Is(err, tmstore.ErrStoreUninitialized), "S1:get-before-set-is-ErrStoreUninitialized")
		return
	}
	verifrt.Reach("sm:loaded")
	verifrt.Assert(err == nil, "S2:get-after-set-succeeds")
	verifrt.Assert(verifrt.And(gh == h, gr == r), "S2:get-returns-the-latest-set")
}

// ---- Zero used as an "absent" sentinel (kept apart: each label is a separate triaged finding).

// vhC16ZeroSentinels (NOT part of the check): the same contracts for the inputs the main
// harnesses exclude — height 0 and the empty signature. The stores use zero values as
// "absent" sentinels there; height 0 and empty signatures are outside the engine's domain
// (initial height >= 1, signers never return empty signatures), so these are recorded in
// DESIGN.md as observations, not as violations of C16. Rename to VH_... to reproduce.
func vhC16ZeroSentinels() {
	c := verifrt.Choose("case", 5)
	switch c {
	case 0:
		s := NewActionStore()
		h, r := verifrt.U64("h"), verifrt.U32("r")
		ph := tmconsensus.ProposedHeader{Header: tmconsensus.Header{Height: h, Hash: []byte("A")}, Round: r,
			ProposerPubKey: vkit.SymKey{}, Signature: []byte("s")}
		verifrt.Assert(s.SaveProposedHeaderAction(vhCtx, ph) == nil, "Z0:first-proposal-accepted")
		ph.Header.Hash = []byte("B")
		err := s.SaveProposedHeaderAction(vhCtx, ph)
		verifrt.Reach("zero:second-proposal")
		verifrt.Observe("zero-proposal", h, uint64(r), vhErrCode(err))
		_, ok := err.(tmstore.DoubleActionError)
		verifrt.Assert(ok, "Z1:second-proposal-refused-at-every-height-including-0")
	case 1, 2:
		prevote := c == 1
		s := NewActionStore()
		h, r := verifrt.U64("h"), verifrt.U32("r")
		var sig []byte
		if verifrt.Choose("sig-empty", 2) == 0 {
			sig = []byte("s")
		}
		save := s.SavePrecommitAction
		if prevote {
			save = s.SavePrevoteAction
		}
		vt := tmconsensus.VoteTarget{Height: h, Round: r, BlockHash: "A"}
		verifrt.Assert(save(vhCtx, vkit.SymKey{}, vt, sig) == nil, "Z0:first-vote-accepted")
		vt.BlockHash = "B"
		err := save(vhCtx, vkit.SymKey{}, vt, []byte("t"))
		verifrt.Reach("zero:second-vote")
		verifrt.Observe("zero-vote", h, uint64(r), uint64(len(sig)), vhErrCode(err))
		_, ok := err.(tmstore.DoubleActionError)
		verifrt.Assert(ok, "Z2:second-vote-refused-even-if-first-signature-was-empty")
	case 3:
		s := NewMirrorStore()
		vh, vr, ch, cr := verifrt.U64("vh"), verifrt.U32("vr"), verifrt.U64("ch"), verifrt.U32("cr")
		verifrt.Assert(s.SetNetworkHeightRound(vhCtx, vh, vr, ch, cr) == nil, "Z0:set-accepted")
		gvh, gvr, gch, gcr, err := s.NetworkHeightRound(vhCtx)
		verifrt.Reach("zero:mirror-get")
		verifrt.Observe("zero-mirror", vh, vhErrCode(err))
		verifrt.Assert(err == nil, "Z3:mirror-get-after-any-set-succeeds-including-voting-height-0")
		if err == nil {
			ok := verifrt.And(verifrt.And(gvh == vh, gvr == vr), verifrt.And(gch == ch, gcr == cr))
			verifrt.Assert(ok, "Z3:mirror-get-returns-the-set-values")
		}
	case 4:
		s := NewStateMachineStore()
		h, r := verifrt.U64("h"), verifrt.U32("r")
		verifrt.Assert(s.SetStateMachineHeightRound(vhCtx, h, r) == nil, "Z0:set-accepted")
		gh, gr, err := s.StateMachineHeightRound(vhCtx)
		verifrt.Reach("zero:sm-get")
		verifrt.Observe("zero-sm", h, vhErrCode(err))
		verifrt.Assert(err == nil, "Z4:state-machine-get-after-any-set-succeeds-including-height-0")
		if err == nil {
			verifrt.Assert(verifrt.And(gh == h, gr == r), "Z4:state-machine-get-returns-the-set-values")
		}
	}
}
