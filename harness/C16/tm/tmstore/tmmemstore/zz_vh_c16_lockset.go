package tmmemstore

import (
	"github.com/gordian-engine/gordian/gcrypto"
	"github.com/gordian-engine/gordian/internal/verifrt"
	"github.com/gordian-engine/gordian/internal/verifrt/vkit"
	"github.com/gordian-engine/gordian/tm/tmconsensus"
)

// VH_C16_Conc_LocksetEveryMethod: for each of the seven stores, two client
// goroutines each call EVERY method of the store once (saves first, then loads; the second
// client in the opposite order, with its own arguments for one round/height and the same for
// another). The lockset check (verifrt.LocksetRace) demands that any two accesses of the two
// clients to one map object, one of them a write, are made under a common lock held
// exclusively by the writer. The check does not depend on the interleaving, so one schedule per
// store covers every method pair, including the ones the interleaving harnesses do not pair up.
// The check tracks map objects and memory cells reached through pointers (struct fields).
func VH_C16_Conc_LocksetEveryMethod() {
	store := verifrt.Choose("store", 7)
	vhStress(func() { vhLocksetAll(store) })
	verifrt.Reach("lockset:every-method-called-by-two-clients")
}

func vhLocksetAll(store int) {
	k := vkit.SymKey{Set: 0, ID: 0}
	mkPH := func(h uint64, hash string) tmconsensus.ProposedHeader {
		return tmconsensus.ProposedHeader{Header: tmconsensus.Header{Height: h, Hash: []byte(hash)}, Round: 0, ProposerPubKey: k, Signature: []byte("p" + hash)}
	}
	proofs := func() tmconsensus.SparseSignatureCollection {
		return tmconsensus.SparseSignatureCollection{
			PubKeyHash:      []byte("kh"),
			BlockSignatures: map[string][]gcrypto.SparseSignature{"": {{KeyID: []byte{0}, Sig: []byte("s")}}},
		}
	}
	vs := vkit.ValSet(vkit.OkKeys(2), []uint64{1, 2})
	var a, b func()
	switch store {
	case 0:
		s := NewActionStore()
		client := func(h uint64, loadsFirst bool) func() {
			saves := func() {
				s.SaveProposedHeaderAction(vhCtx, mkPH(h, "A"))
				s.SavePrevoteAction(vhCtx, k, tmconsensus.VoteTarget{Height: h, BlockHash: "A"}, []byte("v"))
				s.SavePrecommitAction(vhCtx, k, tmconsensus.VoteTarget{Height: h, BlockHash: "A"}, []byte("c"))
			}
			loads := func() { s.LoadActions(vhCtx, 1, 0); s.LoadActions(vhCtx, 2, 0) }
			return vhOrder(saves, loads, loadsFirst)
		}
		a, b = client(1, false), client(2, true)
	case 1:
		s := NewCommittedHeaderStore()
		client := func(h uint64, loadsFirst bool) func() {
			saves := func() {
				s.SaveCommittedHeader(vhCtx, tmconsensus.CommittedHeader{Header: tmconsensus.Header{Height: h, Hash: []byte("A")}})
			}
			loads := func() { s.LoadCommittedHeader(vhCtx, 1); s.LoadCommittedHeader(vhCtx, 2) }
			return vhOrder(saves, loads, loadsFirst)
		}
		a, b = client(1, false), client(2, true)
	case 2:
		s := NewFinalizationStore()
		client := func(h uint64, loadsFirst bool) func() {
			saves := func() { s.SaveFinalization(vhCtx, h, 0, "A", vs, "app") }
			loads := func() { s.LoadFinalizationByHeight(vhCtx, 1); s.LoadFinalizationByHeight(vhCtx, 2) }
			return vhOrder(saves, loads, loadsFirst)
		}
		a, b = client(1, false), client(2, true)
	case 3:
		s := NewRoundStore()
		client := func(h uint64, loadsFirst bool) func() {
			saves := func() {
				s.SaveRoundProposedHeader(vhCtx, mkPH(h, "A"))
				s.SaveRoundReplayedHeader(vhCtx, tmconsensus.Header{Height: h, Hash: []byte("R")})
				s.OverwriteRoundPrevoteProofs(vhCtx, h, 0, proofs())
				s.OverwriteRoundPrecommitProofs(vhCtx, h, 0, proofs())
			}
			loads := func() { s.LoadRoundState(vhCtx, 1, 0); s.LoadRoundState(vhCtx, 2, 0) }
			return vhOrder(saves, loads, loadsFirst)
		}
		a, b = client(1, false), client(2, true)
	case 5:
		s := NewMirrorStore()
		client := func(h uint64, loadsFirst bool) func() {
			saves := func() { s.SetNetworkHeightRound(vhCtx, h+1, 0, h, 0) }
			loads := func() { s.NetworkHeightRound(vhCtx) }
			return vhOrder(saves, loads, loadsFirst)
		}
		a, b = client(1, false), client(2, true)
	case 6:
		s := NewStateMachineStore()
		client := func(h uint64, loadsFirst bool) func() {
			saves := func() { s.SetStateMachineHeightRound(vhCtx, h, 0) }
			loads := func() { s.StateMachineHeightRound(vhCtx) }
			return vhOrder(saves, loads, loadsFirst)
		}
		a, b = client(1, false), client(2, true)
	default:
		s := NewValidatorStore(vkit.HashScheme{})
		client := func(n int, loadsFirst bool) func() {
			keys := vkit.OkKeys(n)
			pows := make([]uint64, n)
			for i := range pows {
				pows[i] = uint64(i + 1)
			}
			var kh, ph string
			saves := func() {
				kh, _ = s.SavePubKeys(vhCtx, keys)
				ph, _ = s.SaveVotePowers(vhCtx, pows)
			}
			loads := func() {
				s.LoadPubKeys(vhCtx, kh)
				s.LoadVotePowers(vhCtx, ph)
				s.LoadValidators(vhCtx, kh, ph)
			}
			return vhOrder(saves, loads, loadsFirst)
		}
		a, b = client(2, false), client(3, true)
	}
	verifrt.LocksetRace(true)
	start, da, db := make(chan struct{}), make(chan struct{}), make(chan struct{})
	go func() { <-start; a(); close(da) }()
	go func() { <-start; b(); close(db) }()
	close(start)
	<-da
	<-db
	verifrt.LocksetRace(false)
}

func vhOrder(saves, loads func(), loadsFirst bool) func() {
	if loadsFirst {
		return func() { loads(); saves(); loads() }
	}
	return func() { saves(); loads() }
}
