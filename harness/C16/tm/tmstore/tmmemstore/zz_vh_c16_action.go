package tmmemstore

import (
	"github.com/gordian-engine/gordian/gcrypto"
	"github.com/gordian-engine/gordian/internal/verifrt"
	"github.com/gordian-engine/gordian/tm/tmconsensus"
	"github.com/gordian-engine/gordian/tm/tmstore"
)

// Reference model of tmstore.ActionStore (from tm/tmstore/actionstore.go and errors.go):
// per height/round at most one proposal, one prevote and one precommit; all votes of a
// round are signed by one key; LoadActions returns what was recorded or RoundUnknownError.

type vhRA struct {
	h uint64
	r uint32

	hasPH  bool
	phHash []byte
	phSig  []byte
	phKey  gcrypto.PubKey

	key gcrypto.PubKey // nil until a vote is recorded

	hasPV    bool
	pvT, pvS string
	hasPC    bool
	pcT, pcS string
}

type vhActionModel struct{ es []*vhRA }

func (m *vhActionModel) find(h uint64, r uint32) *vhRA {
	for _, e := range m.es {
		if verifrt.And(e.h == h, e.r == r) {
			return e
		}
	}
	return nil
}

func (m *vhActionModel) get(h uint64, r uint32) *vhRA {
	if e := m.find(h, r); e != nil {
		return e
	}
	e := &vhRA{h: h, r: r}
	m.es = append(m.es, e)
	return e
}

// vhTarget: nil vote or a one-byte block hash.
func vhTarget(name string) string {
	if verifrt.Choose(name+"-nil", 2) == 0 {
		return ""
	}
	return string(vhHash(name))
}

// vhActionSave performs one symbolic save on both the store and the model and compares.
func vhActionSave(s *ActionStore, m *vhActionModel) {
	kind := verifrt.Choose("op", 3)
	h := verifrt.U64("h")
	r := verifrt.U32("r")
	verifrt.Assume(h >= 1) // height 0 is not a block height; see VH_C16_ZeroSentinels
	e := m.find(h, r)
	if kind == 0 {
		ph := tmconsensus.ProposedHeader{
			Header:         tmconsensus.Header{Height: h, Hash: vhHash("ph-hash")},
			Round:          r,
			ProposerPubKey: vhKey("ph-key"),
			Signature:      vhSig("ph-sig"),
		}
		err := s.SaveProposedHeaderAction(vhCtx, ph)
		verifrt.Observe("action-save-proposal", h, uint64(r), vhErrCode(err))
		if e != nil && e.hasPH {
			verifrt.Reach("action:proposal-rejected-double")
			_, ok := err.(tmstore.DoubleActionError)
			verifrt.Assert(ok, "A1:second-proposal-for-height-round-refused")
		} else {
			verifrt.Reach("action:proposal-saved")
			verifrt.Assert(err == nil, "A0:first-proposal-accepted")
			e = m.get(h, r)
			e.hasPH = true
			e.phHash = vhClone(ph.Header.Hash)
			e.phSig = vhClone(ph.Signature)
			e.phKey = ph.ProposerPubKey
		}
	} else {
		key := vhKey("vote-key")
		tgt := vhTarget("target")
		sig := vhSig("sig")
		sigStr := string(sig)
		vt := tmconsensus.VoteTarget{Height: h, Round: r, BlockHash: tgt}
		var err error
		if kind == 1 {
			err = s.SavePrevoteAction(vhCtx, key, vt, sig)
		} else {
			err = s.SavePrecommitAction(vhCtx, key, vt, sig)
		}
		// RoundActions documents the signatures as immutable: the caller reusing its
		// buffer must not change what was recorded.
		sig[1] ^= 0xff
		verifrt.Observe("action-save-vote", uint64(kind), h, uint64(r), vhErrCode(err))
		double := e != nil && ((kind == 1 && e.hasPV) || (kind == 2 && e.hasPC))
		_, isDouble := err.(tmstore.DoubleActionError)
		_, isChanged := err.(tmstore.PubKeyChangedError)
		changed := false
		if e != nil && e.key != nil {
			changed = verifrt.Not(e.key.Equal(key))
		}
		if double {
			verifrt.Reach("action:vote-rejected-double")
			// both refusals may apply; the documentation gives no precedence
			verifrt.Assert(verifrt.Or(isDouble, verifrt.And(isChanged, changed)), "A2:second-vote-of-a-kind-for-height-round-refused")
		} else if isChanged {
			verifrt.Reach("action:vote-rejected-key-change")
			verifrt.Assert(changed, "A3:key-change-refusal-only-when-key-differs")
		} else {
			verifrt.Assert(verifrt.Not(changed), "A3:vote-with-different-key-refused")
			verifrt.Reach("action:vote-saved")
			verifrt.Assert(err == nil, "A0:first-vote-accepted")
			e = m.get(h, r)
			e.key = key
			if kind == 1 {
				e.hasPV, e.pvT, e.pvS = true, tgt, sigStr
			} else {
				e.hasPC, e.pcT, e.pcS = true, tgt, sigStr
			}
		}
	}
	vhActionCheckLoad(s, m, h, r)
}

// vhActionCheckLoad compares LoadActions(h, r) with the model.
func vhActionCheckLoad(s *ActionStore, m *vhActionModel, h uint64, r uint32) {
	ra, err := s.LoadActions(vhCtx, h, r)
	verifrt.Observe("action-load", h, uint64(r), vhErrCode(err), uint64(ra.Height), uint64(ra.Round))
	e := m.find(h, r)
	if e == nil {
		verifrt.Reach("action:load-unknown-round")
		ue, ok := err.(tmconsensus.RoundUnknownError)
		verifrt.Assert(ok, "A5:load-of-round-without-actions-is-RoundUnknownError")
		if ok {
			verifrt.Assert(verifrt.And(ue.WantHeight == h, ue.WantRound == r), "A5:RoundUnknownError-names-the-request")
		}
		return
	}
	verifrt.Reach("action:load-found")
	verifrt.Assert(err == nil, "A6:load-of-recorded-round-succeeds")
	if err != nil {
		return
	}
	verifrt.Assert(verifrt.And(ra.Height == h, ra.Round == r), "A6:loaded-height-round")
	if e.hasPH {
		ph := ra.ProposedHeader
		ok := verifrt.And(ph.Header.Height == h, ph.Round == r)
		ok = verifrt.And(ok, vhBytesEq(ph.Header.Hash, e.phHash))
		ok = verifrt.And(ok, vhBytesEq(ph.Signature, e.phSig))
		ok = verifrt.And(ok, vhKeyEq(ph.ProposerPubKey, e.phKey))
		verifrt.Assert(ok, "A6:loaded-proposal-is-the-saved-one")
	} else {
		ph := ra.ProposedHeader
		verifrt.Assert(len(ph.Header.Hash) == 0 && ph.ProposerPubKey == nil && len(ph.Signature) == 0,
			"A6:no-proposal-loaded-when-none-saved")
	}
	verifrt.Assert(verifrt.And(ra.PrevoteTarget == e.pvT, ra.PrevoteSignature == e.pvS), "A6:loaded-prevote-is-the-saved-one")
	verifrt.Assert(verifrt.And(ra.PrecommitTarget == e.pcT, ra.PrecommitSignature == e.pcS), "A6:loaded-precommit-is-the-saved-one")
	verifrt.Assert(vhKeyEq(ra.PubKey, e.key), "A6:loaded-key-is-the-recorded-signing-key")
}

// VH_C16_Action: up to two (thorough: three) symbolic saves, then every ActionStore method with symbolic
// arguments; after every save the touched round is loaded and compared with the model.
func VH_C16_Action() {
	s := NewActionStore()
	m := &vhActionModel{}
	n := verifrt.Choose("prefix-ops", vhMaxPrefix()+1)
	for i := 0; i < n; i++ {
		vhActionSave(s, m)
	}
	if verifrt.Choose("probe", 2) == 0 {
		vhActionSave(s, m)
	} else {
		vhActionCheckLoad(s, m, verifrt.U64("load-h"), verifrt.U32("load-r"))
	}
}
