package tmmemstore

import (
	"github.com/gordian-engine/gordian/gcrypto"
	"github.com/gordian-engine/gordian/internal/verifrt"
	"github.com/gordian-engine/gordian/internal/verifrt/vkit"
	"github.com/gordian-engine/gordian/tm/tmstore"
)

// vhHS: key hash "pk"+ids (vkit); power hash "vp"+low byte of each power: both injective
// on the values the harness uses (powers < 256), so "the keys/powers that hash to it" is a
// single value.
type vhHS struct{ vkit.HashScheme }

func (vhHS) VotePowers(pows []uint64) ([]byte, error) {
	out := []byte("vp")
	for _, p := range pows {
		out = append(out, byte(p))
	}
	return out, nil
}

// vhPower is an arbitrary vote power below 256.
func vhPower() uint64 { return uint64(verifrt.U8("power")) }

// vhNoKeys / vhNoPows find an error of the wanted kind in err, looking through
// Unwrap() error and Unwrap() []error (errors.Join) like errors.As does.
func vhNoKeys(err error) (tmstore.NoPubKeyHashError, bool) {
	for _, e := range vhFlatten(err, 0) {
		if ne, ok := e.(tmstore.NoPubKeyHashError); ok {
			return ne, true
		}
	}
	return tmstore.NoPubKeyHashError{}, false
}

func vhNoPows(err error) (tmstore.NoVotePowerHashError, bool) {
	for _, e := range vhFlatten(err, 0) {
		if ne, ok := e.(tmstore.NoVotePowerHashError); ok {
			return ne, true
		}
	}
	return tmstore.NoVotePowerHashError{}, false
}

func vhFlatten(err error, depth int) []error {
	if err == nil || depth > 4 {
		return nil
	}
	out := []error{err}
	switch u := err.(type) {
	case interface{ Unwrap() error }:
		out = append(out, vhFlatten(u.Unwrap(), depth+1)...)
	case interface{ Unwrap() []error }:
		for _, e := range u.Unwrap() {
			out = append(out, vhFlatten(e, depth+1)...)
		}
	}
	return out
}

type vhVKeys struct {
	hash string
	keys []gcrypto.PubKey
}

type vhVPows struct {
	hash string
	pows []uint64
}

type vhValModel struct {
	keys   []*vhVKeys
	pows   []*vhVPows
	hashes []string // every hash returned so far (query candidates)
}

func (m *vhValModel) findKeys(h string) *vhVKeys {
	for _, e := range m.keys {
		if e.hash == h {
			return e
		}
	}
	return nil
}

func (m *vhValModel) findPows(h string) *vhVPows {
	for _, e := range m.pows {
		if e.hash == h {
			return e
		}
	}
	return nil
}

func vhSymKeys(n int) []gcrypto.PubKey {
	ks := make([]gcrypto.PubKey, n)
	for i := range ks {
		ks[i] = vkit.SymKey{Set: 0, ID: verifrt.U8("key-id") & 3}
	}
	return ks
}

func vhKeysEq(a, b []gcrypto.PubKey) bool {
	if len(a) != len(b) {
		return false
	}
	eq := true
	for i := range a {
		eq = verifrt.And(eq, vhKeyEq(a[i], b[i]))
	}
	return eq
}

func vhPowsEq(a, b []uint64) bool {
	if len(a) != len(b) {
		return false
	}
	eq := true
	for i := range a {
		eq = verifrt.And(eq, a[i] == b[i])
	}
	return eq
}

func vhValSaveKeys(s *ValidatorStore, m *vhValModel) {
	keys := vhSymKeys(1 + verifrt.Choose("n-keys", 2))
	wb, _ := vhHS{}.PubKeys(keys)
	want := string(wb)
	e := m.findKeys(want)
	hash, err := s.SavePubKeys(vhCtx, keys)
	verifrt.Observe("val-save-keys", uint64(len(keys)), vhErrCode(err), uint64(len(hash)))
	verifrt.Assert(hash == want, "V1:save-returns-the-hash-of-the-keys")
	if e != nil {
		verifrt.Reach("val:keys-already-exist")
		ae, ok := err.(tmstore.PubKeysAlreadyExistError)
		verifrt.Assert(ok, "V2:saving-existing-keys-is-PubKeysAlreadyExistError")
		if ok {
			verifrt.Assert(ae.ExistingHash == want, "V2:PubKeysAlreadyExistError-names-the-hash")
		}
	} else {
		verifrt.Reach("val:keys-saved")
		verifrt.Assert(err == nil, "V0:first-save-of-keys-accepted")
		m.keys = append(m.keys, &vhVKeys{hash: want, keys: append([]gcrypto.PubKey(nil), keys...)})
	}
	m.hashes = append(m.hashes, want)
	vhValCheckLoadKeys(s, m, want)
}

func vhValSavePows(s *ValidatorStore, m *vhValModel) {
	n := 1 + verifrt.Choose("n-pows", 2)
	pows := make([]uint64, n)
	for i := range pows {
		pows[i] = vhPower()
	}
	wb, _ := vhHS{}.VotePowers(pows)
	want := string(wb)
	e := m.findPows(want)
	hash, err := s.SaveVotePowers(vhCtx, pows)
	verifrt.Observe("val-save-pows", uint64(len(pows)), vhErrCode(err), uint64(len(hash)))
	verifrt.Assert(hash == want, "V1:save-returns-the-hash-of-the-powers")
	if e != nil {
		verifrt.Reach("val:powers-already-exist")
		ae, ok := err.(tmstore.VotePowersAlreadyExistError)
		verifrt.Assert(ok, "V2:saving-existing-powers-is-VotePowersAlreadyExistError")
		if ok {
			verifrt.Assert(ae.ExistingHash == want, "V2:VotePowersAlreadyExistError-names-the-hash")
		}
	} else {
		verifrt.Reach("val:powers-saved")
		verifrt.Assert(err == nil, "V0:first-save-of-powers-accepted")
		m.pows = append(m.pows, &vhVPows{hash: want, pows: append([]uint64(nil), pows...)})
	}
	m.hashes = append(m.hashes, want)
	vhValCheckLoadPows(s, m, want)
}

func vhValCheckLoadKeys(s *ValidatorStore, m *vhValModel, q string) {
	got, err := s.LoadPubKeys(vhCtx, q)
	verifrt.Observe("val-load-keys", uint64(len(q)), vhErrCode(err), uint64(len(got)))
	e := m.findKeys(q)
	if e == nil {
		verifrt.Reach("val:load-keys-unknown-hash")
		ne, ok := err.(tmstore.NoPubKeyHashError)
		verifrt.Assert(ok, "V3:load-keys-of-unknown-hash-is-NoPubKeyHashError")
		if ok {
			verifrt.Assert(ne.Want == q, "V3:NoPubKeyHashError-names-the-request")
		}
		return
	}
	verifrt.Reach("val:load-keys-found")
	verifrt.Assert(err == nil, "V4:load-keys-of-saved-hash-succeeds")
	if err != nil {
		return
	}
	verifrt.Assert(vhKeysEq(got, e.keys), "V4:loaded-keys-are-the-saved-keys")
	hb, _ := vhHS{}.PubKeys(got)
	verifrt.Assert(string(hb) == q, "V4:loaded-keys-hash-to-the-requested-hash")
}

func vhValCheckLoadPows(s *ValidatorStore, m *vhValModel, q string) {
	got, err := s.LoadVotePowers(vhCtx, q)
	verifrt.Observe("val-load-pows", uint64(len(q)), vhErrCode(err), uint64(len(got)))
	e := m.findPows(q)
	if e == nil {
		verifrt.Reach("val:load-powers-unknown-hash")
		ne, ok := err.(tmstore.NoVotePowerHashError)
		verifrt.Assert(ok, "V3:load-powers-of-unknown-hash-is-NoVotePowerHashError")
		if ok {
			verifrt.Assert(ne.Want == q, "V3:NoVotePowerHashError-names-the-request")
		}
		return
	}
	verifrt.Reach("val:load-powers-found")
	verifrt.Assert(err == nil, "V4:load-powers-of-saved-hash-succeeds")
	if err != nil {
		return
	}
	verifrt.Assert(vhPowsEq(got, e.pows), "V4:loaded-powers-are-the-saved-powers")
	hb, _ := vhHS{}.VotePowers(got)
	verifrt.Assert(string(hb) == q, "V4:loaded-powers-hash-to-the-requested-hash")
}

func vhValCheckLoadValidators(s *ValidatorStore, m *vhValModel, kq, pq string) {
	got, err := s.LoadValidators(vhCtx, kq, pq)
	verifrt.Observe("val-load-validators", uint64(len(kq)), uint64(len(pq)), vhErrCode(err), uint64(len(got)))
	ke, pe := m.findKeys(kq), m.findPows(pq)
	if ke == nil || pe == nil {
		verifrt.Reach("val:load-validators-unknown-hash")
		verifrt.Assert(err != nil, "V5:load-validators-with-unknown-hash-fails")
		if ke == nil {
			nk, ok := vhNoKeys(err)
			verifrt.Assert(ok, "V5:missing-keys-reported-as-NoPubKeyHashError")
			if ok {
				verifrt.Assert(nk.Want == kq, "V5:NoPubKeyHashError-names-the-request")
			}
		}
		if pe == nil {
			np, ok := vhNoPows(err)
			verifrt.Assert(ok, "V5:missing-powers-reported-as-NoVotePowerHashError")
			if ok {
				verifrt.Assert(np.Want == pq, "V5:NoVotePowerHashError-names-the-request")
			}
		}
		return
	}
	if len(ke.keys) != len(pe.pows) {
		verifrt.Reach("val:load-validators-count-mismatch")
		me, ok := err.(tmstore.PubKeyPowerCountMismatchError)
		verifrt.Assert(ok, "V6:differing-lengths-is-PubKeyPowerCountMismatchError")
		if ok {
			verifrt.Assert(me.NPubKeys == len(ke.keys) && me.NVotePower == len(pe.pows), "V6:mismatch-error-names-both-lengths")
		}
		return
	}
	verifrt.Reach("val:load-validators-found")
	verifrt.Assert(err == nil, "V7:load-validators-of-saved-hashes-succeeds")
	if err != nil {
		return
	}
	verifrt.Assert(len(got) == len(ke.keys), "V7:one-validator-per-key")
	if len(got) == len(ke.keys) {
		eq := true
		for i := range got {
			eq = verifrt.And(eq, verifrt.And(vhKeyEq(got[i].PubKey, ke.keys[i]), got[i].Power == pe.pows[i]))
		}
		verifrt.Assert(eq, "V7:validators-pair-saved-keys-with-saved-powers-in-order")
	}
}

// vhValQuery picks a hash to query: one returned by an earlier save, or one never saved.
func vhValQuery(m *vhValModel, name string) string {
	i := verifrt.Choose(name, len(m.hashes)+1)
	if i == len(m.hashes) {
		return "nope"
	}
	return m.hashes[i]
}

// VH_C16_Validator: up to two (thorough: three) symbolic saves (keys or powers), then every ValidatorStore
// method; after every save the hash is loaded and compared with the model.
func VH_C16_Validator() {
	s := NewValidatorStore(vhHS{})
	m := &vhValModel{}
	n := verifrt.Choose("prefix-ops", vhMaxPrefix()+1)
	for i := 0; i < n; i++ {
		if verifrt.Choose("op", 2) == 0 {
			vhValSaveKeys(s, m)
		} else {
			vhValSavePows(s, m)
		}
	}
	switch verifrt.Choose("probe", 5) {
	case 0:
		vhValSaveKeys(s, m)
	case 1:
		vhValSavePows(s, m)
	case 2:
		vhValCheckLoadKeys(s, m, vhValQuery(m, "query"))
	case 3:
		vhValCheckLoadPows(s, m, vhValQuery(m, "query"))
	case 4:
		vhValCheckLoadValidators(s, m, vhValQuery(m, "key-query"), vhValQuery(m, "pow-query"))
	}
}

// VH_C16_Validator_Aliasing: a hash keeps retrieving the keys/powers that hash to it
// whatever the caller later does with the slice it passed in or the slice it got back.
func VH_C16_Validator_Aliasing() {
	s := NewValidatorStore(vhHS{})
	other := vkit.SymKey{Set: 1, ID: 9}
	switch verifrt.Choose("case", 4) {
	case 0:
		keys := vhSymKeys(2)
		orig := append([]gcrypto.PubKey(nil), keys...)
		hash, err := s.SavePubKeys(vhCtx, keys)
		verifrt.Assert(err == nil, "W0:save-accepted")
		keys[0] = other // the caller reuses its slice
		got, err := s.LoadPubKeys(vhCtx, hash)
		verifrt.Reach("alias:keys-caller-slice-reused")
		verifrt.Observe("alias-keys-saved", vhErrCode(err), uint64(len(got)))
		verifrt.Assert(err == nil && vhKeysEq(got, orig), "W1:keys-for-hash-unchanged-after-caller-reuses-saved-slice")
	case 1:
		keys := vhSymKeys(2)
		orig := append([]gcrypto.PubKey(nil), keys...)
		hash, err := s.SavePubKeys(vhCtx, append([]gcrypto.PubKey(nil), keys...))
		verifrt.Assert(err == nil, "W0:save-accepted")
		first, _ := s.LoadPubKeys(vhCtx, hash)
		if len(first) > 0 {
			first[0] = other // the caller edits the slice it was given
		}
		got, err := s.LoadPubKeys(vhCtx, hash)
		verifrt.Reach("alias:keys-loaded-slice-edited")
		verifrt.Observe("alias-keys-loaded", vhErrCode(err), uint64(len(got)))
		// The interface does not promise a copy on load (loaded slices are read-only by the
		// repository's convention); observed for translator validation, not asserted.
		verifrt.Observe("alias-keys-loaded-same", verifrt.B2U(err == nil && vhKeysEq(got, orig)))
	case 2:
		pows := []uint64{vhPower(), vhPower()}
		orig := append([]uint64(nil), pows...)
		hash, err := s.SaveVotePowers(vhCtx, pows)
		verifrt.Assert(err == nil, "W0:save-accepted")
		pows[0]++
		got, err := s.LoadVotePowers(vhCtx, hash)
		verifrt.Reach("alias:powers-caller-slice-reused")
		verifrt.Observe("alias-pows-saved", vhErrCode(err), uint64(len(got)))
		verifrt.Assert(err == nil && vhPowsEq(got, orig), "W3:powers-for-hash-unchanged-after-caller-reuses-saved-slice")
	case 3:
		pows := []uint64{vhPower(), vhPower()}
		orig := append([]uint64(nil), pows...)
		hash, err := s.SaveVotePowers(vhCtx, pows)
		verifrt.Assert(err == nil, "W0:save-accepted")
		first, _ := s.LoadVotePowers(vhCtx, hash)
		if len(first) > 0 {
			first[0]++
		}
		got, err := s.LoadVotePowers(vhCtx, hash)
		verifrt.Reach("alias:powers-loaded-slice-edited")
		verifrt.Observe("alias-pows-loaded", vhErrCode(err), uint64(len(got)))
		verifrt.Observe("alias-pows-loaded-same", verifrt.B2U(err == nil && vhPowsEq(got, orig)))
	}
}
