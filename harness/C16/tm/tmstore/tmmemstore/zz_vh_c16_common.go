package tmmemstore

// C16 harness helpers: sequential refinement of the shipped in-memory stores against
// reference models written from the interface documentation in tm/tmstore/*.go.

import (
	"context"
	"errors"

	"github.com/gordian-engine/gordian/gcrypto"
	"github.com/gordian-engine/gordian/internal/verifrt"
	"github.com/gordian-engine/gordian/internal/verifrt/vkit"
	"github.com/gordian-engine/gordian/tm/tmconsensus"
	"github.com/gordian-engine/gordian/tm/tmstore"
)

var vhCtx = context.Background()

// vhMaxPrefix is the number of state-building operations before the probe operation.
func vhMaxPrefix() int {
	if verifrt.Thorough() {
		return 3
	}
	return 2
}

// vhHash is a one-byte block hash, 'A' or 'B', picked by the solver.
func vhHash(name string) []byte { return []byte{'A' + (verifrt.U8(name) & 1)} }

// vhStr is a one-byte string with an arbitrary byte.
func vhStr(name string) string { return string([]byte{verifrt.U8(name)}) }

// vhKey is one of two keys of universe 0, picked by the solver.
func vhKey(name string) gcrypto.PubKey { return vkit.SymKey{Set: 0, ID: verifrt.U8(name) & 1} }

// vhSig is a non-empty signature with an arbitrary byte.
func vhSig(name string) []byte { return []byte{'s', verifrt.U8(name)} }

// vhKeyEq compares two keys, either of which may be nil, without forking on symbolic ids.
func vhKeyEq(a, b gcrypto.PubKey) bool {
	if a == nil || b == nil {
		return a == nil && b == nil
	}
	return a.Equal(b)
}

// vhBytesEq compares byte strings branch-free (lengths are concrete in these harnesses).
func vhBytesEq(a, b []byte) bool {
	if len(a) != len(b) {
		return false
	}
	eq := true
	for i := range a {
		eq = verifrt.And(eq, a[i] == b[i])
	}
	return eq
}

func vhClone(b []byte) []byte { return append([]byte(nil), b...) }

// vhErrCode classifies an error for Observe lines (concrete: no fork).
func vhErrCode(err error) uint64 {
	switch err.(type) {
	case nil:
		return 0
	case tmstore.DoubleActionError:
		return 1
	case tmstore.PubKeyChangedError:
		return 2
	case tmconsensus.RoundUnknownError:
		return 3
	case tmconsensus.HeightUnknownError:
		return 4
	case tmstore.FinalizationOverwriteError:
		return 5
	case tmstore.OverwriteError:
		return 6
	case tmstore.PubKeysAlreadyExistError:
		return 8
	case tmstore.VotePowersAlreadyExistError:
		return 9
	case tmstore.NoPubKeyHashError:
		return 10
	case tmstore.NoVotePowerHashError:
		return 11
	case tmstore.PubKeyPowerCountMismatchError:
		return 12
	}
	if errors.Is(err, tmstore.ErrStoreUninitialized) {
		return 7
	}
	return 99
}
