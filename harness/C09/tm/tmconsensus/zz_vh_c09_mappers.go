package tmconsensus

import (
	"context"

	"github.com/gordian-engine/gordian/gexchange"
	"github.com/gordian-engine/gordian/internal/verifrt"
)

// C09-K4: the shipped feedback mappers translate every result the engine can
// return into a p2p feedback value (no panic, defined non-zero feedback).

type vhFixedHandler struct {
	ph   HandleProposedHeaderResult
	vote HandleVoteProofsResult
}

func (h vhFixedHandler) HandleProposedHeader(context.Context, ProposedHeader) HandleProposedHeaderResult {
	return h.ph
}
func (h vhFixedHandler) HandlePrevoteProofs(context.Context, PrevoteSparseProof) HandleVoteProofsResult {
	return h.vote
}
func (h vhFixedHandler) HandlePrecommitProofs(context.Context, PrecommitSparseProof) HandleVoteProofsResult {
	return h.vote
}

func vhDefinedFeedback(f gexchange.Feedback) bool {
	return verifrt.And(f >= gexchange.FeedbackAccepted, f <= gexchange.FeedbackRejectAndDisconnect)
}

// every defined HandleProposedHeaderResult constant: 1..InternalError
func VH_C09_K4_MapProposedHeader() {
	r := HandleProposedHeaderResult(verifrt.U8("ph_result"))
	verifrt.Assume(r >= HandleProposedHeaderAccepted)
	verifrt.Assume(r <= HandleProposedHeaderInternalError)
	h := vhFixedHandler{ph: r}
	which := verifrt.Choose("mapper", 2)
	var f gexchange.Feedback
	ok := verifrt.NoPanic("K4:ph-mapper-panics", func() {
		if which == 0 {
			f = AcceptAllValidFeedbackMapper{Handler: h}.HandleProposedHeader(context.Background(), ProposedHeader{})
		} else {
			f = DropDuplicateFeedbackMapper{Handler: h}.HandleProposedHeader(context.Background(), ProposedHeader{})
		}
	})
	if ok {
		verifrt.Reach("ph-mapped")
		verifrt.Observe("ph", uint64(r), uint64(f))
		verifrt.Assert(vhDefinedFeedback(f), "K4:ph-feedback-defined")
		// only an accepted (or, for accept-all, already stored) header may be relayed
		accOK := verifrt.Or(r == HandleProposedHeaderAccepted, verifrt.And(which == 0, r == HandleProposedHeaderAlreadyStored))
		verifrt.Assert(verifrt.Implies(f == gexchange.FeedbackAccepted, accOK), "K4:ph-accept-only-if-accepted")
	}
}

func VH_C09_K4_MapVotes() {
	r := HandleVoteProofsResult(verifrt.U8("vote_result"))
	verifrt.Assume(r >= HandleVoteProofsAccepted)
	verifrt.Assume(r <= HandleVoteProofsInternalError)
	h := vhFixedHandler{vote: r}
	which := verifrt.Choose("mapper", 4)
	var f gexchange.Feedback
	ok := verifrt.NoPanic("K4:vote-mapper-panics", func() {
		switch which {
		case 0:
			f = AcceptAllValidFeedbackMapper{Handler: h}.HandlePrevoteProofs(context.Background(), PrevoteSparseProof{})
		case 1:
			f = AcceptAllValidFeedbackMapper{Handler: h}.HandlePrecommitProofs(context.Background(), PrecommitSparseProof{})
		case 2:
			f = DropDuplicateFeedbackMapper{Handler: h}.HandlePrevoteProofs(context.Background(), PrevoteSparseProof{})
		default:
			f = DropDuplicateFeedbackMapper{Handler: h}.HandlePrecommitProofs(context.Background(), PrecommitSparseProof{})
		}
	})
	if ok {
		verifrt.Reach("vote-mapped")
		verifrt.Observe("vote", uint64(r), uint64(f))
		verifrt.Assert(vhDefinedFeedback(f), "K4:vote-feedback-defined")
		accOK := verifrt.Or(r == HandleVoteProofsAccepted,
			verifrt.Or(r == HandleVoteProofsFutureVerified, verifrt.And(which < 2, r == HandleVoteProofsNoNewSignatures)))
		verifrt.Assert(verifrt.Implies(f == gexchange.FeedbackAccepted, accOK), "K4:vote-accept-only-if-accepted")
	}
}
