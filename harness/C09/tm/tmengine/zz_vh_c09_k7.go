package tmengine

import (
	"context"
	"strings"

	"github.com/gordian-engine/gordian/gcrypto"
	"github.com/gordian-engine/gordian/gwatchdog"
	"github.com/gordian-engine/gordian/internal/verifrt"
	"github.com/gordian-engine/gordian/internal/verifrt/vkit"
	"github.com/gordian-engine/gordian/tm/tmconsensus"
	"github.com/gordian-engine/gordian/tm/tmdriver"
	"github.com/gordian-engine/gordian/tm/tmengine/tmelink"
	"github.com/gordian-engine/gordian/tm/tmstore/tmmemstore"
)

// ---- stub collaborators (never started: every explored configuration is rejected or incomplete)

type vhCS struct{}

func (vhCS) EnterRound(context.Context, tmconsensus.RoundView, chan<- tmconsensus.Proposal) error {
	return nil
}
func (vhCS) ConsiderProposedBlocks(context.Context, []tmconsensus.ProposedHeader, tmconsensus.ConsiderProposedBlocksReason) (string, error) {
	return "", nil
}
func (vhCS) ChooseProposedBlock(context.Context, []tmconsensus.ProposedHeader) (string, error) {
	return "", nil
}
func (vhCS) DecidePrecommit(context.Context, tmconsensus.VoteSummary) (string, error) {
	return "", nil
}

type vhGS struct{}

func (vhGS) Start(<-chan tmelink.NetworkViewUpdate) {}
func (vhGS) Wait()                                  {}

type vhRT struct{}

func (vhRT) ProposalTimer(context.Context, uint64, uint32) (<-chan struct{}, func()) {
	return nil, func() {}
}
func (vhRT) PrevoteDelayTimer(context.Context, uint64, uint32) (<-chan struct{}, func()) {
	return nil, func() {}
}
func (vhRT) PrecommitDelayTimer(context.Context, uint64, uint32) (<-chan struct{}, func()) {
	return nil, func() {}
}
func (vhRT) CommitWaitTimer(context.Context, uint64, uint32) (<-chan struct{}, func()) {
	return nil, func() {}
}

// vhValidOpts: every documented option with an acceptable value. The first nRequired
// entries are the ones New documents as required.
func vhValidOpts() (opts []Opt, names []string, nRequired int) {
	hs := vkit.HashScheme{}
	keys := vkit.OkKeys(2)
	vs := vkit.ValSet(keys, []uint64{1, 1})
	gen := &tmconsensus.ExternalGenesis{ChainID: "c", InitialHeight: 1, GenesisValidatorSet: vs}
	add := func(n string, o Opt) { opts = append(opts, o); names = append(names, n) }
	add("WithGenesis", WithGenesis(gen))
	add("WithHashScheme", WithHashScheme(hs))
	add("WithSignatureScheme", WithSignatureScheme(vkit.SigScheme{}))
	add("WithCommonMessageSignatureProofScheme", WithCommonMessageSignatureProofScheme(gcrypto.SimpleCommonMessageSignatureProofScheme{}))
	add("WithGossipStrategy", WithGossipStrategy(vhGS{}))
	add("WithFinalizationStore", WithFinalizationStore(tmmemstore.NewFinalizationStore()))
	add("WithMirrorStore", WithMirrorStore(tmmemstore.NewMirrorStore()))
	add("WithRoundStore", WithRoundStore(tmmemstore.NewRoundStore()))
	add("WithStateMachineStore", WithStateMachineStore(tmmemstore.NewStateMachineStore()))
	add("WithValidatorStore", WithValidatorStore(tmmemstore.NewValidatorStore(hs)))
	add("WithWatchdog", WithWatchdog(&gwatchdog.Watchdog{}))
	add("WithConsensusStrategy", WithConsensusStrategy(vhCS{}))
	add("WithBlockFinalizationChannel", WithBlockFinalizationChannel(make(chan tmdriver.FinalizeBlockRequest)))
	add("WithInternalRoundTimer", WithInternalRoundTimer(vhRT{}))
	nRequired = len(opts)
	add("WithCommittedHeaderStore", WithCommittedHeaderStore(tmmemstore.NewCommittedHeaderStore()))
	add("WithActionStore", WithActionStore(tmmemstore.NewActionStore()))
	add("WithInitChainChannel", WithInitChainChannel(make(chan tmdriver.InitChainRequest)))
	add("WithBlockDataArrivalChannel", WithBlockDataArrivalChannel(make(chan tmelink.BlockDataArrival)))
	add("WithLagStateChannel", WithLagStateChannel(make(chan tmelink.LagState)))
	add("WithReplayedHeaderRequestChannel", WithReplayedHeaderRequestChannel(make(chan tmelink.ReplayedHeaderRequest)))
	add("WithMetricsChannel", WithMetricsChannel(make(chan Metrics)))
	return
}

// vhInvalidOpt: the two options that validate their value, with a rejected value.
func vhInvalidOpt(which int) (Opt, string) {
	if which == 0 {
		return WithLagStateChannel(make(chan tmelink.LagState, 1)), "WithLagStateChannel"
	}
	ch := make(chan Metrics, 1)
	ch <- Metrics{}
	return WithMetricsChannel(ch), "WithMetricsChannel"
}

// C09-K7a: tmengine.New with every documented option valid except that one required option
// is missing: a descriptive error naming that option, never a panic, never an instance.
func VH_C09_K7_NewMissingRequired() {
	opts, names, nReq := vhValidOpts()
	missing := verifrt.Choose("missing", nReq)
	var use []Opt
	for i, o := range opts {
		if i != missing {
			use = append(use, o)
		}
	}
	var e *Engine
	var err error
	ok := verifrt.NoPanic("K7:New-panics", func() { e, err = New(context.Background(), verifrt.Logger(), use...) })
	if !ok {
		return
	}
	verifrt.Reach("new-returned")
	verifrt.Assert(err != nil && e == nil, "K7:New-missing-required-option-is-an-error")
	if err != nil {
		hint := strings.TrimPrefix(names[missing], "With")
		if names[missing] == "WithInternalRoundTimer" {
			hint = "TimeoutStrategy"
		}
		verifrt.Assert(strings.Contains(err.Error(), hint), "K7:New-error-names-the-missing-option")
	}
}

// C09-K7b: a rejected option value is reported wherever it stands in the option list
// (before or after valid options), together with a second rejected option.
func VH_C09_K7_NewRejectedOption() {
	opts, _, _ := vhValidOpts()
	which := verifrt.Choose("rejected", 2)
	bad, badName := vhInvalidOpt(which)
	pos := verifrt.Choose("position", 3) // first, middle, last
	both := verifrt.Choose("second-rejected", 2) == 1
	var use []Opt
	// drop the valid instance of the rejected option(s)
	for i, o := range opts {
		n := []string{"WithLagStateChannel", "WithMetricsChannel"}
		_ = n
		if i == 18 && (which == 0 || both) { // valid WithLagStateChannel
			continue
		}
		if i == 20 && (which == 1 || both) { // valid WithMetricsChannel
			continue
		}
		use = append(use, o)
	}
	switch pos {
	case 0:
		use = append([]Opt{bad}, use...)
	case 1:
		use = append(use[:5:5], append([]Opt{bad}, use[5:]...)...)
	default:
		use = append(use, bad)
	}
	otherName := ""
	if both {
		other, on := vhInvalidOpt(1 - which)
		otherName = on
		use = append([]Opt{other}, use...)
	}
	var e *Engine
	var err error
	ok := verifrt.NoPanic("K7:New-panics", func() { e, err = New(context.Background(), verifrt.Logger(), use...) })
	if !ok {
		return
	}
	verifrt.Reach("new-returned")
	verifrt.Assert(err != nil && e == nil, "K7:New-rejected-option-is-an-error")
	if err != nil {
		verifrt.Assert(strings.Contains(err.Error(), badName), "K7:New-error-names-the-rejected-option")
		if both {
			verifrt.Assert(strings.Contains(err.Error(), otherName), "K7:New-error-names-every-rejected-option")
		}
	}
}

// C09-K7c: tmengine.NewMirror with any single documented option, or with all mirror options
// but one: an error or a mirror, never a panic.
func VH_C09_K7_NewMirror() {
	opts, _, _ := vhValidOpts()
	mode := verifrt.Choose("mode", 2)
	var use []Opt
	if mode == 0 {
		use = []Opt{opts[verifrt.Choose("single", len(opts))]}
	} else {
		// the options a standalone mirror needs: genesis, schemes, the four mirror stores, watchdog
		need := []int{0, 1, 2, 3, 6, 7, 9, 10, 14}
		missing := verifrt.Choose("missing", len(need))
		for j, i := range need {
			if j != missing {
				use = append(use, opts[i])
			}
		}
	}
	var m Mirror
	var err error
	ok := verifrt.NoPanic("K7:NewMirror-panics", func() { m, err = NewMirror(context.Background(), verifrt.Logger(), use...) })
	if !ok {
		return
	}
	verifrt.Reach("newmirror-returned")
	verifrt.Assert((err != nil) != (m != nil), "K7:NewMirror-returns-an-error-or-a-mirror")
	if m != nil {
		// "an instance that keeps running": it must answer a message
		ok := verifrt.NoPanic("K7:standalone-mirror-panics", func() {
			m.HandlePrevoteProofs(context.Background(), tmconsensus.PrevoteSparseProof{Height: 1, Round: 0, PubKeyHash: "x",
				Proofs: map[string][]gcrypto.SparseSignature{"A": {{KeyID: []byte{0, 0}, Sig: []byte("s")}}}})
		})
		_ = ok
	}
}
