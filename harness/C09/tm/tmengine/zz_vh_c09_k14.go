package tmengine

import (
	"github.com/gordian-engine/gordian/gcrypto"
	"github.com/gordian-engine/gordian/internal/verifrt"
	"github.com/gordian-engine/gordian/internal/verifrt/vkit"
	"github.com/gordian-engine/gordian/tm/tmconsensus"
	"github.com/gordian-engine/gordian/tm/tmstore/tmmemstore"
)

// C09-K14: a complete engine is restarted on stores of which ONE has lost its contents (an
// operator pointing the node at a fresh finalization / state-machine / action store, pruning).
// tmengine.New answers with a descriptive error or with an engine that runs and shuts down;
// it never panics. The first life committed nothing (stopped right after start-up) or height 1.
func VH_C09_K14_RestartWithOneStoreEmptied() {
	verifrt.Summarize("ByzantineThresholds")
	verifrt.Summarize("SMQuietSendGuardTimers")
	const n = 3
	keys := vkit.OkKeys(n)
	vs := vkit.ValSet(keys, []uint64{1, 1, 1})
	st := vhNewEngStores()
	l1, err := vhStartEngine(st, vs)
	if err != nil || l1 == nil {
		verifrt.Fail("K14:first-life-does-not-start")
		return
	}
	if verifrt.Choose("first-life-commits-height-1", 2) == 1 {
		verifrt.Assume(verifrt.UFBool("hashok", vkit.Pack([]byte("A")), 1))
		l1.e.HandleProposedHeader(l1.ctx, tmconsensus.ProposedHeader{
			Header: tmconsensus.Header{Hash: []byte("A"), PrevBlockHash: []byte("g"), Height: 1,
				ValidatorSet: vs, NextValidatorSet: vs, DataID: []byte("d"), PrevAppStateHash: []byte("app"),
				PrevCommitProof: tmconsensus.CommitProof{Proofs: map[string][]gcrypto.SparseSignature{}}},
			Round: 0, ProposerPubKey: keys[0], Signature: []byte("psA"),
		})
		var sigs []gcrypto.SparseSignature
		for i := 0; i < n; i++ {
			sigs = append(sigs, gcrypto.SparseSignature{KeyID: vkit.KeyID(i), Sig: []byte{'s', byte(i)}})
		}
		l1.e.HandlePrecommitProofs(l1.ctx, tmconsensus.PrecommitSparseProof{Height: 1, Round: 0, PubKeyHash: string(vs.PubKeyHash),
			Proofs: map[string][]gcrypto.SparseSignature{"A": sigs}})
		vhSettle()
	}
	if !l1.stop("K14:first-life-does-not-shut-down") {
		return
	}
	switch verifrt.Choose("emptied-store", 3) {
	case 0:
		st.fs = tmmemstore.NewFinalizationStore()
		verifrt.Reach("K14-finalization-store-emptied")
	case 1:
		st.ss = tmmemstore.NewStateMachineStore()
	case 2:
		st.as = tmmemstore.NewActionStore()
	}
	var l2 *vhEngLife
	var err2 error
	if !verifrt.NoPanic("K14:New-panics-on-an-emptied-store", func() { l2, err2 = vhStartEngine(st, vs) }) {
		return
	}
	if err2 != nil {
		verifrt.Reach("K14-descriptive-error")
		verifrt.Assert(l2 == nil && len(err2.Error()) > 0, "K14:error-without-description")
		return
	}
	verifrt.Reach("K14-engine-runs")
	l2.stop("K14:second-life-does-not-shut-down")
}
