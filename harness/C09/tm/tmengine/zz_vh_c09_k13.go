package tmengine

import (
	"context"

	"github.com/gordian-engine/gordian/gcrypto"
	"github.com/gordian-engine/gordian/internal/verifrt"
	"github.com/gordian-engine/gordian/internal/verifrt/vkit"
	"github.com/gordian-engine/gordian/tm/tmconsensus"
	"github.com/gordian-engine/gordian/tm/tmdriver"
)

// C09-K13: a complete engine. tmengine.New with every required option and any subset of the
// optional ones that a complete configuration may carry (the harness plays the driver's
// init-chain side); the engine comes up (mirror kernel, state machine kernel, consensus
// manager all running from source), answers a message for a symbolic position with a defined
// result, and shuts down: after the context is cancelled Wait returns (no goroutine of the
// engine is left blocked).
func VH_C09_K13_EngineRunsAndStops() {
	// stated assumption (K9): the 100 ms blocked-send guards of handleProposalViewUpdate never fire
	verifrt.Summarize("SMQuietSendGuardTimers")
	opts, names, nReq := vhValidOpts()
	optional := verifrt.Choose("optional-subset", 4)
	var use []Opt
	var initCh chan tmdriver.InitChainRequest
	for i, o := range opts {
		switch {
		case i < nReq:
			use = append(use, o)
		case names[i] == "WithInitChainChannel":
			// replaced below by a channel the harness serves
		case names[i] == "WithCommittedHeaderStore" || names[i] == "WithActionStore":
			use = append(use, o)
		case optional&1 != 0 && (names[i] == "WithBlockDataArrivalChannel" || names[i] == "WithReplayedHeaderRequestChannel"):
			use = append(use, o)
		case optional&2 != 0 && (names[i] == "WithLagStateChannel" || names[i] == "WithMetricsChannel"):
			use = append(use, o)
		}
	}
	initCh = make(chan tmdriver.InitChainRequest)
	use = append(use, WithInitChainChannel(initCh))
	ctx, cancel := context.WithCancel(context.Background())
	go func() {
		select {
		case req := <-initCh:
			req.Resp <- tmdriver.InitChainResponse{AppStateHash: []byte("app")}
		case <-ctx.Done():
		}
	}()
	var e *Engine
	var err error
	if !verifrt.NoPanic("K13:New-panics", func() { e, err = New(ctx, verifrt.Logger(), use...) }) {
		cancel()
		return
	}
	if err != nil || e == nil {
		verifrt.Fail("K13:complete-configuration-refused")
		cancel()
		return
	}
	verifrt.Reach("K13-engine-up")
	h := verifrt.U64("height")
	verifrt.Assume(h < 1<<16)
	r := verifrt.U32("round")
	verifrt.Assume(r < 1<<8)
	// (a vote that moves the mirror out of (1,0) before the state machine's first round entrance
	// was served used to crash the kernel in some native schedules: found here, repaired,
	// decided deterministically by VH_C09_K15)
	keys := vkit.OkKeys(2)
	var res tmconsensus.HandleVoteProofsResult
	ok := verifrt.NoPanic("K13:handler-panics", func() {
		verifrt.MustReturn("K13:handler-does-not-return", func() {
			res = e.HandlePrevoteProofs(ctx, tmconsensus.PrevoteSparseProof{Height: h, Round: r, PubKeyHash: string(vkit.ValSet(keys, []uint64{1, 1}).PubKeyHash),
				Proofs: map[string][]gcrypto.SparseSignature{"": {{KeyID: vkit.KeyID(0), Sig: []byte("s")}}}})
		})
	})
	if ok {
		verifrt.Observe("K13", uint64(res))
		verifrt.Assert(res >= tmconsensus.HandleVoteProofsAccepted && res <= tmconsensus.HandleVoteProofsInternalError, "K13:result-defined")
	}
	cancel()
	if verifrt.MustReturn("K13:engine-does-not-shut-down", func() { e.Wait() }) {
		verifrt.Reach("K13-engine-stopped")
	}
}
