package tmstate

// C09-K9: the state machine half of "no interleaving of messages, local votes, replayed
// headers, view consumers and driver responses makes the engine panic, deadlock or stop
// serving": the real start-up path and the real event handlers, driven by the state-machine
// kit of C08/C02 with every panic counted as a violation and the catch-up handler required to
// come back to the kernel loop.

import (
	"github.com/gordian-engine/gordian/internal/verifrt"
)

// VH_C09_K9_StartAny: round entrance answered with arbitrary vote numbers and 0-2 headers, or
// with a committed header (a node that lags by heights), then events as in VH_C08_StartAny.
func VH_C09_K9_StartAny() {
	vhOpts()
	e := vhNewSM(true)
	e.strictPanics = true
	e.allowCatchup = true
	e.entrancePHs = 2
	if !e.start() {
		return
	}
	verifrt.Reach("K9-start:started")
	e.runStartAny(0)
	if e.seen&vhSeenReplaying != 0 {
		verifrt.Reach("K9-start:replaying-a-committed-header")
	}
	e.finish()
}

// VH_C09_K9_LaterRound: a quiet first round, then an event that can end the round (a view with
// new precommit numbers: nil quorum or everybody present; a jump-ahead) where the next round
// entrance is answered with arbitrary vote numbers and 0-1 headers or with a committed header (a
// node that lags by rounds enters a round the network has already voted in or decided), then
// then 1 event without new numbers.
func VH_C09_K9_LaterRound() {
	vhOpts()
	e := vhNewSM(true)
	e.strictPanics = true
	e.symEntrances = 0
	if !e.start() {
		return
	}
	e.symEntrances = 1
	e.laterEntrancePHs = true
	e.allowCatchup = true
	e.run(0, []int{evViewPC, evJumpAhead}, 1)
	// (thorough tier: an extra event of any kind before the quiet one did not finish within the
	// budget - 104558 paths in 1500 s with two quiet events, 181355 with one; the thorough tier
	// therefore has the quick shape, with exact nil/A/B targets and jumps by 1 or 2 rounds)
	tail := 1
	if e.alive {
		e.run(0, vhTailEvents, tail)
	}
	if e.seen&vhSeenNextRound != 0 {
		verifrt.Reach("K9-later:entered-next-round")
	}
	if e.seen&vhSeenReplaying != 0 {
		verifrt.Reach("K9-later:later-round-answered-with-a-committed-header")
	}
	e.finish()
}
