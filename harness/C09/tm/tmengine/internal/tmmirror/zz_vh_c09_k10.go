package tmmirror

// C09-K10 ("all concurrent interleavings"): two peers' messages are handled at the same time.
// Each of the Mirror's Handle* methods runs on the caller's goroutine and talks to the kernel
// goroutine over channels (snapshot request, then an add request that carries the version it was
// computed against; on a version conflict the handler starts over). Two handler goroutines and
// the real kernel goroutine run under the engine's scheduler with every pick at a blocking point
// a choice (plus preemptions): neither handler panics, both return a defined result, the kernel
// still serves afterwards, and no vote that was acknowledged as accepted is missing from the
// view (a lost update between two handlers working from the same snapshot).

import (
	"github.com/gordian-engine/gordian/gcrypto"
	"github.com/gordian-engine/gordian/internal/verifrt"
	"github.com/gordian-engine/gordian/internal/verifrt/vkit"
	"github.com/gordian-engine/gordian/tm/tmconsensus"
)

func vhK10Preempt() int {
	if verifrt.Thorough() {
		return 1
	}
	return 0
}

// vhK10Vote: a valid vote of validator i for hash in round (1, 0).
func vhK10Vote(keys []gcrypto.PubKey, i int, precommit bool, hash string, tag byte) (map[string][]gcrypto.SparseSignature, []byte) {
	sig := vkit.Sig(byte(i), tag)
	var content []byte
	if precommit {
		content = vkit.PrecommitContent(1, 0, hash)
	} else {
		content = vkit.PrevoteContent(1, 0, hash)
	}
	verifrt.Assume(keys[i].Verify(content, sig))
	return map[string][]gcrypto.SparseSignature{hash: {{KeyID: vkit.KeyID(i), Sig: sig}}}, sig
}

func VH_C09_K10_ConcurrentHandlers() {
	n := 3
	keys := vkit.Keys(0, n)
	e := vhNewMirror(keys, []uint64{1, 1, 1}, 1)
	pkh := string(e.vs.PubKeyHash)

	// what the two peers deliver
	type msg struct {
		kind   int // 0 prevote, 1 precommit, 2 proposed header
		hash   string
		voter  int
		proofs map[string][]gcrypto.SparseSignature
	}
	mk := func(kind, voter int, hash string, tag byte) msg {
		m := msg{kind: kind, voter: voter, hash: hash}
		if kind < 2 {
			m.proofs, _ = vhK10Vote(keys, voter, kind == 1, hash, tag)
		}
		return m
	}
	var ma, mb msg
	switch verifrt.Choose("pair", 6) {
	case 0: // two validators prevote the same block
		ma, mb = mk(0, 0, "A", 1), mk(0, 1, "A", 2)
	case 1: // prevote and precommit of two validators
		ma, mb = mk(0, 0, "A", 1), mk(1, 1, "A", 2)
	case 2: // a vote and the proposed header it is for
		ma, mb = mk(0, 0, "A", 1), mk(2, 2, "A", 0)
	case 3: // one validator's two conflicting prevotes, relayed by two peers
		ma, mb = mk(0, 0, "A", 1), mk(0, 0, "", 2)
	case 4: // the same vote relayed by two peers
		ma, mb = mk(1, 0, "", 1), mk(1, 0, "", 1)
	case 5: // two precommits that together are a nil majority (2 of 3): the round ends under them
		ma, mb = mk(1, 0, "", 1), mk(1, 1, "", 2)
	}
	ph := tmconsensus.ProposedHeader{
		Header: tmconsensus.Header{
			Hash: []byte("A"), PrevBlockHash: []byte("P"), Height: 1,
			ValidatorSet: e.vs, NextValidatorSet: e.vs, DataID: []byte("d"),
			PrevCommitProof: tmconsensus.CommitProof{Proofs: map[string][]gcrypto.SparseSignature{}},
		},
		Round: 0, ProposerPubKey: keys[2], Signature: []byte("ps"),
	}

	var ra, rb uint64
	run := func(m msg, out *uint64) func() {
		return func() {
			switch m.kind {
			case 0:
				*out = uint64(e.m.HandlePrevoteProofs(e.ctx, tmconsensus.PrevoteSparseProof{Height: 1, Round: 0, PubKeyHash: pkh, Proofs: m.proofs}))
			case 1:
				*out = uint64(e.m.HandlePrecommitProofs(e.ctx, tmconsensus.PrecommitSparseProof{Height: 1, Round: 0, PubKeyHash: pkh, Proofs: m.proofs}))
			default:
				*out = 100 + uint64(e.m.HandleProposedHeader(e.ctx, ph))
			}
		}
	}

	ok := verifrt.NoPanic("K10:concurrent-handlers-panic", func() {
		ret := verifrt.MustReturn("K10:concurrent-handlers-never-return", func() {
			verifrt.SchedNondet(true, vhK10Preempt())
			da, db := make(chan struct{}), make(chan struct{})
			go func() { run(ma, &ra)(); close(da) }()
			go func() { run(mb, &rb)(); close(db) }()
			<-da
			<-db
			verifrt.SchedNondet(false, 0)
		})
		if !ret {
			ra, rb = 999, 999
		}
	})
	if !ok || ra == 999 {
		return
	}
	verifrt.Reach("K10:both-returned")
	verifrt.Observe("K10-results", ra, rb)

	var v tmconsensus.VersionedRoundView
	verifrt.Assert(e.m.VotingView(e.ctx, &v) == nil, "K10:kernel-still-serves-after-concurrent-messages")
	// every acknowledged vote is in the view
	check := func(m msg, res uint64, who string) {
		if m.kind == 2 {
			return
		}
		verifrt.Assert(res >= uint64(tmconsensus.HandleVoteProofsAccepted) && res <= uint64(tmconsensus.HandleVoteProofsInternalError), "K10:vote-result-defined")
		if res != uint64(tmconsensus.HandleVoteProofsAccepted) {
			return
		}
		proofs := v.PrevoteProofs
		if m.kind == 1 {
			proofs = v.PrecommitProofs
		}
		p, have := proofs[m.hash]
		in := false
		if have {
			in, _ = p.HasSparseKeyID(vkit.KeyID(m.voter))
		}
		verifrt.Assert(in, "K10:accepted-vote-is-in-the-voting-view")
		verifrt.Reach("K10:accepted-vote-checked")
	}
	if v.Height == 1 && v.Round == 0 {
		check(ma, ra, "a")
		check(mb, rb, "b")
	}
	e.verifyViewSignatures("K10", &v)
}
