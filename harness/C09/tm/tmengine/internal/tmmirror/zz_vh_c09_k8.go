package tmmirror

import (
	"github.com/gordian-engine/gordian/gcrypto"
	"github.com/gordian-engine/gordian/internal/verifrt"
	"github.com/gordian-engine/gordian/internal/verifrt/vkit"
	"github.com/gordian-engine/gordian/tm/tmconsensus"
)

// C09-K8a: a proposed header for any height and round relative to the node, from a member,
// a foreign or a missing proposer key, with matching or non-matching block hash, valid or
// invalid signature and an arbitrary small previous-commit proof, gets a defined result; the
// handler returns (no livelock), and the kernel keeps serving.
func VH_C09_K8_ProposedHeader() {
	n := 2
	keys := vkit.Keys(0, n)
	e := vhNewMirror(keys, []uint64{1, 1}, 1)

	h := verifrt.U64("h")
	r := verifrt.U32("r")
	verifrt.Assume(h < 1<<16) // the harness signing content carries 16 bits of height
	verifrt.Assume(r < 1<<8)
	var pk gcrypto.PubKey
	switch verifrt.Choose("proposer", 3) {
	case 0:
		pk = keys[0]
	case 1:
		pk = vkit.SymKey{Set: 9, ID: 0}
	}
	hdr := tmconsensus.Header{
		Hash: []byte("A"), PrevBlockHash: []byte("P"), Height: h,
		ValidatorSet: e.vs, NextValidatorSet: e.vs, DataID: []byte("d"),
		PrevCommitProof: tmconsensus.CommitProof{Proofs: map[string][]gcrypto.SparseSignature{}},
	}
	switch verifrt.Choose("prev-commit-proof", 3) {
	case 1:
		hdr.PrevCommitProof = tmconsensus.CommitProof{Round: 0, PubKeyHash: string(e.vs.PubKeyHash),
			Proofs: map[string][]gcrypto.SparseSignature{"P": {{KeyID: vkit.KeyID(0), Sig: vkit.Sig(0, 1)}, {KeyID: vkit.KeyID(1), Sig: vkit.Sig(1, 1)}}}}
	case 2:
		hdr.PrevCommitProof = tmconsensus.CommitProof{Round: 0, PubKeyHash: "other",
			Proofs: map[string][]gcrypto.SparseSignature{"Q": {{KeyID: []byte{7}, Sig: vkit.Sig(0, 2)}}}}
	}
	ph := tmconsensus.ProposedHeader{Header: hdr, Round: r, ProposerPubKey: pk, Signature: []byte("ps")}

	var res tmconsensus.HandleProposedHeaderResult
	ok := verifrt.NoPanic("K8:proposed-header-handler-panics", func() {
		ok2 := verifrt.MustReturn("K8:proposed-header-handler-never-returns", func() {
			res = e.m.HandleProposedHeader(e.ctx, ph)
		})
		if !ok2 {
			res = tmconsensus.HandleProposedHeaderInternalError
		}
	})
	if !ok {
		return
	}
	verifrt.Reach("ph-handled")
	verifrt.Observe("ph-result", uint64(res))
	verifrt.Assert(res >= tmconsensus.HandleProposedHeaderAccepted && res <= tmconsensus.HandleProposedHeaderInternalError, "K8:ph-result-defined")
	var v tmconsensus.VersionedRoundView
	verifrt.Assert(e.m.VotingView(e.ctx, &v) == nil, "K8:kernel-still-serves-after-proposed-header")
	if res == tmconsensus.HandleProposedHeaderAccepted {
		verifrt.Reach("ph-accepted")
	}
}

// C09-K8b: a vote message for any height and round gets a defined result and the kernel keeps serving.
func VH_C09_K8_Votes() {
	n := 2
	keys := vkit.Keys(0, n)
	e := vhNewMirror(keys, []uint64{1, 1}, 1)
	h := verifrt.U64("h")
	r := verifrt.U32("r")
	verifrt.Assume(h < 1<<16)
	verifrt.Assume(r < 1<<8)
	hash := []string{"A", ""}[verifrt.Choose("hash", 2)]
	sg, _ := vhOffer(n, 1)
	proofs := map[string][]gcrypto.SparseSignature{hash: {sg}}
	pkh := string(e.vs.PubKeyHash)
	if verifrt.Choose("pubkeyhash", 2) == 1 {
		pkh = ""
	}
	var res tmconsensus.HandleVoteProofsResult
	precommit := verifrt.Choose("kind", 2) == 1
	ok := verifrt.NoPanic("K8:vote-handler-panics", func() {
		if precommit {
			res = e.m.HandlePrecommitProofs(e.ctx, tmconsensus.PrecommitSparseProof{Height: h, Round: r, PubKeyHash: pkh, Proofs: proofs})
		} else {
			res = e.m.HandlePrevoteProofs(e.ctx, tmconsensus.PrevoteSparseProof{Height: h, Round: r, PubKeyHash: pkh, Proofs: proofs})
		}
	})
	if !ok {
		return
	}
	verifrt.Reach("vote-handled")
	verifrt.Observe("vote-result", uint64(res))
	verifrt.Assert(res >= tmconsensus.HandleVoteProofsAccepted && res <= tmconsensus.HandleVoteProofsInternalError, "K8:vote-result-defined")
	var v tmconsensus.VersionedRoundView
	verifrt.Assert(e.m.VotingView(e.ctx, &v) == nil, "K8:kernel-still-serves-after-vote")
}
