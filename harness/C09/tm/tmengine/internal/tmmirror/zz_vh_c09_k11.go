package tmmirror

// C09-K11 ("a node lagging by rounds or heights", "driver responses however slow"): the state
// machine entered height 1 and then does nothing (a slow driver) while the network goes on: the
// real mirror commits heights 1, 2 and 3 from valid messages. The mirror has to keep serving,
// must not panic, and tells the lagging state machine exactly once that its height is on chain.

import (
	"github.com/gordian-engine/gordian/gcrypto"
	"github.com/gordian-engine/gordian/internal/verifrt"
	"github.com/gordian-engine/gordian/internal/verifrt/vkit"
	"github.com/gordian-engine/gordian/tm/tmconsensus"
	"github.com/gordian-engine/gordian/tm/tmengine/internal/tmeil"
)

// vhK11Commit delivers a proposed header for height h (round 0, hash, on top of prev) and a full
// precommit quorum for it.
func vhK11Commit(e *vhM, h uint64, hash, prev string) {
	keys := e.keys
	verifrt.Assume(verifrt.UFBool("hashok", vkit.Pack([]byte(hash)), h))
	psig := []byte("ps" + hash)
	verifrt.Assume(keys[0].Verify([]byte{'P', 0, byte(h), 0, hash[0]}, psig))
	pcp := tmconsensus.CommitProof{Proofs: map[string][]gcrypto.SparseSignature{}}
	if h > 1 {
		pcp = tmconsensus.CommitProof{Round: 0, PubKeyHash: string(e.vs.PubKeyHash),
			Proofs: map[string][]gcrypto.SparseSignature{prev: vhValidSigs(keys, vkit.PrecommitContent(h-1, 0, prev), 3, byte(h-1))}}
	}
	ph := tmconsensus.ProposedHeader{
		Header: tmconsensus.Header{Hash: []byte(hash), PrevBlockHash: []byte(prev), Height: h,
			ValidatorSet: e.vs, NextValidatorSet: e.vs, DataID: []byte("d"), PrevCommitProof: pcp},
		Round: 0, ProposerPubKey: keys[0], Signature: psig,
	}
	r := e.m.HandleProposedHeader(e.ctx, ph)
	verifrt.Assert(r == tmconsensus.HandleProposedHeaderAccepted, "K11:setup-header-accepted")
	rv := e.m.HandlePrecommitProofs(e.ctx, tmconsensus.PrecommitSparseProof{Height: h, Round: 0, PubKeyHash: string(e.vs.PubKeyHash),
		Proofs: map[string][]gcrypto.SparseSignature{hash: vhValidSigs(keys, vkit.PrecommitContent(h, 0, hash), 3, byte(h))}})
	verifrt.Assert(rv == tmconsensus.HandleVoteProofsAccepted, "K11:setup-precommits-accepted")
}

func VH_C09_K11_LaggingStateMachine() {
	n := 2
	keys := vkit.Keys(0, n)
	e := vhNewMirror(keys, []uint64{1, 1}, 1)

	hc := make(chan struct{})
	re := tmeil.StateMachineRoundEntrance{H: 1, R: 0, Actions: make(chan tmeil.StateMachineRoundAction, 3),
		HeightCommitted: hc, Response: make(chan tmeil.RoundEntranceResponse, 1)}
	e.smIn <- re
	<-re.Response

	closedAfter := 0
	isClosed := func() bool {
		select {
		case <-hc:
			return true
		default:
			return false
		}
	}
	ok := verifrt.NoPanic("K11:mirror-panics-while-the-state-machine-lags", func() {
		prev := "g"
		for h := uint64(1); h <= 3; h++ {
			hash := string([]byte{'A' + byte(h-1)})
			vhK11Commit(e, h, hash, prev)
			prev = hash
			// the state machine may or may not read what the mirror offers meanwhile
			if verifrt.Choose("state-machine-reads", 2) == 1 {
				for i := 0; i < 4; i++ {
					if _, got := e.tryRecvSM(); !got {
						break
					}
				}
			}
			if closedAfter == 0 && isClosed() {
				closedAfter = int(h)
			}
			var v tmconsensus.VersionedRoundView
			verifrt.Assert(e.m.VotingView(e.ctx, &v) == nil && v.Height == h+1, "K11:mirror-follows-the-network")
		}
	})
	if !ok {
		return
	}
	verifrt.Reach("K11:three-heights-committed-under-a-lagging-state-machine")
	// (when exactly the signal is given is the mirror's business; the documented moment is the
	// commit of height 2, when the committing view of height 1 is shifted out: observed only)
	verifrt.Observe("K11-height-committed-closed-after", uint64(closedAfter))
	verifrt.Assert(closedAfter != 0, "K11:lagging-state-machine-is-told-that-its-height-is-on-chain")
	var c tmconsensus.VersionedRoundView
	verifrt.Assert(e.m.CommittingView(e.ctx, &c) == nil && c.Height == 3, "K11:kernel-still-serves")
}
