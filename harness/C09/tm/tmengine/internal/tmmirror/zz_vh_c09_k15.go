package tmmirror

import (
	"github.com/gordian-engine/gordian/gcrypto"
	"github.com/gordian-engine/gordian/internal/verifrt"
	"github.com/gordian-engine/gordian/internal/verifrt/vkit"
	"github.com/gordian-engine/gordian/tm/tmconsensus"
	"github.com/gordian-engine/gordian/tm/tmengine/internal/tmeil"
)

// VH_C09_K15_StateMachineEntersARoundTheMirrorLeft: the network moves the mirror to a later
// round of the same height before the state machine's round entrance arrives - at start-up
// (a peer's vote outruns the state machine's first entrance) or whenever the state machine is
// slow (a driver that takes long over the previous height) while the network goes through nil
// or skipped rounds. Real Mirror + kernel goroutine, 2 validators: the mirror leaves round 0 of
// height 1 by a nil-precommit quorum or by a minority prevote for round 1; then the state
// machine enters (1,0). The kernel must answer (any defined response) and keep serving.
func VH_C09_K15_StateMachineEntersARoundTheMirrorLeft() {
	n := 2
	keys := vkit.Keys(0, n)
	e := vhNewMirror(keys, []uint64{1, 1}, 1)
	pkh := string(e.vs.PubKeyHash)
	how := verifrt.Choose("round-0-left-by", 2)
	if how == 0 {
		content := vkit.PrecommitContent(1, 0, "")
		sigs := vhValidSigs(keys, content, 3, 1)
		r := e.m.HandlePrecommitProofs(e.ctx, tmconsensus.PrecommitSparseProof{Height: 1, Round: 0, PubKeyHash: pkh,
			Proofs: map[string][]gcrypto.SparseSignature{"": sigs}})
		verifrt.Assert(r == tmconsensus.HandleVoteProofsAccepted, "K15:setup-nil-precommits-accepted")
	} else {
		content := vkit.PrevoteContent(1, 1, "")
		sigs := vhValidSigs(keys, content, 1, 2)
		r := e.m.HandlePrevoteProofs(e.ctx, tmconsensus.PrevoteSparseProof{Height: 1, Round: 1, PubKeyHash: pkh,
			Proofs: map[string][]gcrypto.SparseSignature{"": sigs}})
		verifrt.Assert(r == tmconsensus.HandleVoteProofsAccepted, "K15:setup-next-round-prevote-accepted")
	}
	var v tmconsensus.VersionedRoundView
	if e.m.VotingView(e.ctx, &v) != nil || v.Height != 1 || v.Round != 1 {
		verifrt.Fail("K15:setup-mirror-in-round-1")
		return
	}
	verifrt.Reach("K15-mirror-left-round-0")
	re := tmeil.StateMachineRoundEntrance{H: 1, R: 0, Actions: make(chan tmeil.StateMachineRoundAction, 3),
		HeightCommitted: make(chan struct{}), Response: make(chan tmeil.RoundEntranceResponse, 1)}
	answered := false
	if !verifrt.NoPanic("K15:kernel-panics-when-the-state-machine-enters-a-round-the-mirror-left", func() {
		e.smIn <- re
		<-re.Response
		answered = true
	}) {
		return
	}
	verifrt.Assert(answered && e.m.VotingView(e.ctx, &v) == nil, "K15:kernel-still-serves")
}
