package tmmirror

import (
	"github.com/gordian-engine/gordian/gcrypto"
	"github.com/gordian-engine/gordian/internal/verifrt"
	"github.com/gordian-engine/gordian/internal/verifrt/vkit"
	"github.com/gordian-engine/gordian/tm/tmconsensus"
)

// VH_C09_K12_BLSPrevCommitProof: a node running the aggregating BLS scheme (real Mirror +
// kernel goroutine, real gblsminsig on the blst model, 3 validators) has committed height 1.
// A proposed header for height 2, correctly signed by a validator, carries a previous-commit
// proof as a hostile peer may build it: the main entry's key id is 0..4 arbitrary bytes (signer
// count + combination index), its signature a symbolic group element or bytes that do not
// decompress; optionally a second block entry of the same kind. The handler returns (no panic,
// no endless loop) a defined result, the kernel keeps serving, and the header is accepted only
// if the main signature verifies under the aggregate of all three validators (the only set
// with more than two thirds of the power).
func VH_C09_K12_BLSPrevCommitProof() {
	b := vhNewBLS(3)
	e := vhNewMirrorBLS(b, []uint64{1, 1, 1})
	pkh := string(e.vs.PubKeyHash)
	verifrt.Assume(verifrt.UFBool("hashok", vkit.Pack([]byte("A")), 1))
	verifrt.Assume(verifrt.UFBool("hashok", vkit.Pack([]byte("B")), 2))
	phA := tmconsensus.ProposedHeader{
		Header: tmconsensus.Header{Hash: []byte("A"), PrevBlockHash: []byte("g"), Height: 1,
			ValidatorSet: e.vs, NextValidatorSet: e.vs, DataID: []byte("d"),
			PrevCommitProof: tmconsensus.CommitProof{Proofs: map[string][]gcrypto.SparseSignature{}}},
		Round: 0, ProposerPubKey: b.gkeys[0], Signature: b.honest(0, []byte{'P', 0, 1, 0, 'A'}),
	}
	if e.m.HandleProposedHeader(e.ctx, phA) != tmconsensus.HandleProposedHeaderAccepted {
		verifrt.Fail("K12:setup-header-accepted")
		return
	}
	pcA := vkit.PrecommitContent(1, 0, "A")
	res := e.m.HandlePrecommitProofs(e.ctx, tmconsensus.PrecommitSparseProof{Height: 1, Round: 0, PubKeyHash: pkh,
		Proofs: map[string][]gcrypto.SparseSignature{"A": b.honestSparse(7, pcA)}})
	verifrt.Assert(res == tmconsensus.HandleVoteProofsAccepted, "K12:setup-precommits-accepted")
	var v tmconsensus.VersionedRoundView
	if e.m.VotingView(e.ctx, &v) != nil || v.Height != 2 {
		verifrt.Fail("K12:setup-height-1-committed")
		return
	}

	hostile := func(name string) gcrypto.SparseSignature {
		lens := []int{0, 2, 3} // quick tier; the scheme-level harness VH_C13_B7 covers 0..4
		if verifrt.Thorough() {
			lens = []int{0, 1, 2, 3, 4}
		}
		l := lens[verifrt.Choose(name+"-idlen", len(lens))]
		return gcrypto.SparseSignature{KeyID: verifrt.Bytes(name+"-id", l), Sig: vhBLSSymSig(name)}
	}
	proofs := map[string][]gcrypto.SparseSignature{"A": {hostile("main")}}
	if verifrt.Thorough() && verifrt.Choose("second-block-entry", 2) == 1 {
		proofs["Z"] = []gcrypto.SparseSignature{hostile("rest")}
	}
	phB := tmconsensus.ProposedHeader{
		Header: tmconsensus.Header{Hash: []byte("B"), PrevBlockHash: []byte("A"), Height: 2,
			ValidatorSet: e.vs, NextValidatorSet: e.vs, DataID: []byte("d"),
			PrevCommitProof: tmconsensus.CommitProof{Round: 0, PubKeyHash: pkh, Proofs: proofs}},
		Round: 0, ProposerPubKey: b.gkeys[1], Signature: b.honest(1, []byte{'P', 0, 2, 0, 'B'}),
	}
	var hres tmconsensus.HandleProposedHeaderResult
	returned := false
	if !verifrt.NoPanic("K12:handle-proposed-header-panics", func() {
		returned = verifrt.MustReturn("K12:handle-proposed-header-does-not-return", func() { hres = e.m.HandleProposedHeader(e.ctx, phB) })
	}) || !returned {
		return
	}
	verifrt.Reach("K12-handled")
	verifrt.Observe("K12", uint64(hres))
	verifrt.Assert(hres >= tmconsensus.HandleProposedHeaderAccepted && hres <= tmconsensus.HandleProposedHeaderInternalError, "K12:result-defined")
	verifrt.Assert(e.m.VotingView(e.ctx, &v) == nil && v.Height == 2, "K12:kernel-still-serves")
	if hres == tmconsensus.HandleProposedHeaderAccepted {
		verifrt.Reach("K12-accepted")
		verifrt.Assert(b.aggKey(7).Verify(pcA, proofs["A"][0].Sig), "K12:accepted-previous-commit-proof-is-signed-by-more-than-two-thirds")
	}
}
