package tmi

import (
	"context"

	"github.com/gordian-engine/gordian/internal/verifrt"
	"github.com/gordian-engine/gordian/internal/verifrt/vkit"
	"github.com/gordian-engine/gordian/tm/tmconsensus"
)

// vhPositions builds a kState whose positions satisfy the kernel's
// representation invariant (C04): either no committing view yet and voting at
// the initial height, or voting exactly one above committing. Heights and rounds
// are full-width symbols below the no-wrap bounds (heights < 2^62, rounds < 2^30).
func vhPositions() (s *kState, initialHeight uint64) {
	s = &kState{}
	initialHeight = verifrt.U64("initialHeight")
	verifrt.Assume(initialHeight >= 1)
	verifrt.Assume(initialHeight < 1<<62)
	vr := verifrt.U32("votingRound")
	verifrt.Assume(vr < 1<<30)
	if verifrt.Bool("hasCommitting") {
		ch := verifrt.U64("committingHeight")
		cr := verifrt.U32("committingRound")
		verifrt.Assume(ch >= initialHeight)
		verifrt.Assume(ch < 1<<62)
		verifrt.Assume(cr < 1<<30)
		s.Committing.Height, s.Committing.Round = ch, cr
		s.Voting.Height = ch + 1
	} else {
		s.Voting.Height = initialHeight
	}
	s.Voting.Round = vr
	s.NextRound.Height = s.Voting.Height
	s.NextRound.Round = vr + 1
	return s, initialHeight
}

// C09-K1: kState.FindView is a total classification of every (height, round).
func VH_C09_K1_FindView() {
	s, _ := vhPositions()
	h := verifrt.U64("h")
	r := verifrt.U32("r")
	var vrv *tmconsensus.VersionedRoundView
	var id ViewID
	var st ViewLookupStatus
	ok := verifrt.NoPanic("K1:FindView-panics", func() {
		vrv, id, st = s.FindView(h, r, "harness")
	})
	if !ok {
		return
	}
	verifrt.Reach("classified")
	verifrt.Observe("findview", h, uint64(r), uint64(id), uint64(st))
	verifrt.Assert((vrv != nil) == (st == ViewFound), "K1:found-iff-view")
	if vrv != nil {
		verifrt.Reach("found")
		verifrt.Assert(verifrt.And(vrv.Height == h, vrv.Round == r), "K1:found-view-matches-request")
	}
}

// C09-K2: the proposed-header pre-check answers every (height, round) a peer can put
// into a proposed header with a defined status.
func VH_C09_K2_PHCheck() {
	s, initialHeight := vhPositions()
	keys := vkit.Keys(0, 2)
	vs := vkit.ValSet(keys, []uint64{1, 1})
	s.Committing.ValidatorSet, s.Voting.ValidatorSet, s.NextRound.ValidatorSet = vs, vs, vs
	k := &Kernel{log: verifrt.Logger(), initialHeight: initialHeight}

	h := verifrt.U64("h")
	r := verifrt.U32("r")
	proposer := verifrt.Choose("proposer", 3) // a member, the other member, a foreign key
	var pk vkit.SymKey
	switch proposer {
	case 0, 1:
		pk = vkit.SymKey{Set: 0, ID: byte(proposer)}
	default:
		pk = vkit.SymKey{Set: 9, ID: 0}
	}
	req := PHCheckRequest{
		PH: tmconsensus.ProposedHeader{
			Header:         tmconsensus.Header{Height: h, Hash: []byte("A")},
			Round:          r,
			ProposerPubKey: pk,
			Signature:      []byte("sig"),
		},
		Resp: make(chan PHCheckResponse, 1),
	}
	ok := verifrt.NoPanic("K2:PHCheck-panics", func() {
		k.sendPHCheckResponse(context.Background(), s, req)
	})
	if !ok {
		return
	}
	verifrt.Reach("answered")
	verifrt.Assert(len(req.Resp) == 1, "K2:response-sent")
	resp := <-req.Resp
	verifrt.Observe("phcheck", h, uint64(r), uint64(resp.Status))
	verifrt.Assert(resp.Status != PHCheckInvalid, "K2:status-defined")
	if resp.Status == PHCheckAcceptable {
		verifrt.Reach("acceptable")
		verifrt.Assert(proposer < 2, "K2:acceptable-only-for-member-proposer")
	}
}
