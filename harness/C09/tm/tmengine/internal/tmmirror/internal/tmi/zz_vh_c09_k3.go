package tmi

import "github.com/gordian-engine/gordian/internal/verifrt"

// C09-K3: no kernel entry panics for a request at any height/round relative to the node
// (same step alphabet and start states as C04; a panic is the violation here).
func VH_C09_K3_KernelSteps() {
	start := verifrt.Choose("start", 4)
	e, _ := vhStart(start)
	e.panicsAreViolations = true
	steps := 1
	if verifrt.Thorough() {
		steps = 2
	}
	for i := 0; i < steps; i++ {
		if !e.vhStep(i) {
			return
		}
		verifrt.Reach("step-survived")
		if e.voteAsked {
			// every add-vote request is answered, with a result the mirror's handlers know how to
			// digest (they panic on anything but accepted / conflict / out-of-date)
			verifrt.Assert(e.voteAnswered, "K3:add-vote-request-is-answered")
			if e.voteAnswered {
				okAns := e.voteAnswer == AddVoteAccepted || e.voteAnswer == AddVoteConflict || e.voteAnswer == AddVoteOutOfDate
				verifrt.Assert(okAns, "K3:add-vote-answer-is-one-the-mirror-handles")
			}
		}
	}
}
