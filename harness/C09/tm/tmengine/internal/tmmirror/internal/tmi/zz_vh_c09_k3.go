package tmi

import "github.com/gordian-engine/gordian/internal/verifrt"

// C09-K3: no kernel entry panics for a request at any height/round relative to the node
// (same step alphabet and start states as C04; a panic is the violation here).
func VH_C09_K3_KernelSteps() {
	start := verifrt.Choose("start", 4)
	e, _ := vhStart(start)
	e.panicsAreViolations = true
	steps := 1
	if verifrt.Thorough() {
		steps = 2
	}
	for i := 0; i < steps; i++ {
		if !e.vhStep(i) {
			return
		}
		verifrt.Reach("step-survived")
	}
}
