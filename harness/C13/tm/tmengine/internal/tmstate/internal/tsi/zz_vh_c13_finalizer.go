package tsi

import (
	"github.com/bits-and-blooms/bitset"

	"github.com/gordian-engine/gordian/gcrypto"
	"github.com/gordian-engine/gordian/internal/verifrt"
	"github.com/gordian-engine/gordian/internal/verifrt/vkit"
	"github.com/gordian-engine/gordian/tm/tmconsensus"
)

// C13 (finalizer part): CommitProofFinalizer.Finalize turns the precommit proofs of
// a committed round into a finalized commit proof that validates back (the way the
// mirror validates a proposed header's PrevCommitProof) to exactly the per-block
// signer sets it was built from, with double signers reported.

const (
	vhHeight = 5
	vhRound  = 1
	vhPKH    = "pkh"
)

var vhHashes = []string{"a", "", "b"} // "a" is the committed block, "" the nil vote

func vhN() int {
	if verifrt.Thorough() {
		return 3
	}
	return 2
}

func vhEntries(keys []gcrypto.PubKey, k int, w uint64, assume bool) (sigs []gcrypto.SparseSignature, allOK bool) {
	content := vkit.PrecommitContent(vhHeight, vhRound, vhHashes[k])
	allOK = true
	sigs = []gcrypto.SparseSignature{}
	for i := range keys {
		if w&(1<<uint(i)) == 0 {
			continue
		}
		sig := vkit.Sig(byte(i), byte(k))
		if assume {
			verifrt.Assume(keys[i].Verify(content, sig))
		} else if !keys[i].Verify(content, sig) {
			allOK = false
		}
		sigs = append(sigs, gcrypto.SparseSignature{KeyID: vkit.KeyID(i), Sig: sig})
	}
	return sigs, allOK
}

// vhSparseWord: key indices of sparse entries, each checked to verify.
func vhSparseWord(sigs []gcrypto.SparseSignature, keys []gcrypto.PubKey, k int, lbl string) uint64 {
	content := vkit.PrecommitContent(vhHeight, vhRound, vhHashes[k])
	var w uint64
	for _, e := range sigs {
		if len(e.KeyID) != 2 || int(e.KeyID[0])<<8|int(e.KeyID[1]) >= len(keys) {
			verifrt.Fail(lbl + ":bad-key-id-in-finalized-proof")
			continue
		}
		idx := int(e.KeyID[0])<<8 | int(e.KeyID[1])
		verifrt.Assert(keys[idx].Verify(content, e.Sig), lbl+":finalized-entry-does-not-verify")
		w |= 1 << uint(idx)
	}
	return w
}

func vhWord(bs *bitset.BitSet) uint64 {
	var w uint64
	for i := 0; i < 64; i++ {
		if bs.Test(uint(i)) {
			w |= 1 << uint(i)
		}
	}
	return w
}

// vhValidate does what the mirror does with a received PrevCommitProof.
func vhValidate(cp tmconsensus.CommitProof, keys []gcrypto.PubKey) (map[string]*bitset.BitSet, bool) {
	fin := gcrypto.FinalizedCommonMessageSignatureProof{
		Keys: keys, PubKeyHash: cp.PubKeyHash,
		MainMessage:    vkit.PrecommitContent(vhHeight, cp.Round, vhHashes[0]),
		MainSignatures: cp.Proofs[vhHashes[0]],
	}
	byContent := map[string]string{string(fin.MainMessage): vhHashes[0]}
	if len(cp.Proofs) > 1 {
		fin.Rest = map[string][]gcrypto.SparseSignature{}
		for _, h := range vhHashes[1:] {
			if sigs, ok := cp.Proofs[h]; ok {
				msg := vkit.PrecommitContent(vhHeight, cp.Round, h)
				fin.Rest[string(msg)] = sigs
				byContent[string(msg)] = h
			}
		}
	}
	return gcrypto.SimpleCommonMessageSignatureProofScheme{}.ValidateFinalizedProof(fin, byContent)
}

// VH_C13_T1_CommitProofFinalizer: committed block "a" plus 0..2 other voted blocks
// (nil, "b"), every block with an arbitrary non-empty signer set (the committed one
// may be empty: then an error is required); all signatures valid; all map orders.
func VH_C13_T1_CommitProofFinalizer() {
	verifrt.MapOrderFuncs("CommitProofFinalizer")
	n := vhN()
	keys := vkit.Keys(0, n)
	nother := verifrt.Choose("others", 3)
	sets := make([]uint64, 1+nother)
	cp := tmconsensus.CommitProof{Round: vhRound, PubKeyHash: vhPKH, Proofs: map[string][]gcrypto.SparseSignature{}}
	for k := range sets {
		if k == 0 {
			sets[k] = uint64(verifrt.Choose("main-signers", 1<<uint(n)))
		} else {
			sets[k] = 1 + uint64(verifrt.Choose("other-signers", 1<<uint(n)-1))
		}
		cp.Proofs[vhHashes[k]], _ = vhEntries(keys, k, sets[k], true)
	}
	f := CommitProofFinalizer{SigScheme: vkit.SigScheme{}, CMSPScheme: gcrypto.SimpleCommonMessageSignatureProofScheme{}}
	var out tmconsensus.CommitProof
	var err error
	if !verifrt.NoPanic("T1:finalize-panics", func() { out, err = f.Finalize(vhHeight, vhHashes[0], cp, keys) }) {
		return
	}
	if sets[0] == 0 {
		verifrt.Reach("T1-no-main-signature")
		verifrt.Assert(err != nil, "T1:commit-proof-without-signature-for-committed-block-accepted")
		return
	}
	verifrt.Reach("T1-finalized")
	verifrt.Assert(err == nil, "T1:valid-commit-proof-refused")
	if err != nil {
		return
	}
	verifrt.Assert(out.Round == vhRound && out.PubKeyHash == vhPKH, "T1:round-or-key-hash-changed")
	verifrt.Assert(len(out.Proofs) == len(sets), "T1:number-of-blocks-changed")
	for k, w := range sets {
		sigs, ok := out.Proofs[vhHashes[k]]
		verifrt.Assert(ok, "T1:block-missing-from-finalized-proof")
		got := vhSparseWord(sigs, keys, k, "T1")
		verifrt.Observe("finalized-block", uint64(k), w, got)
		verifrt.Assert(got == w, "T1:finalized-signer-set-differs")
	}
	// validate the way a receiving mirror does
	var bits map[string]*bitset.BitSet
	var unique bool
	if !verifrt.NoPanic("T1:validate-panics", func() { bits, unique = vhValidate(out, keys) }) {
		return
	}
	verifrt.Assert(bits != nil, "T1:finalized-proof-does-not-validate")
	if bits == nil {
		return
	}
	var seen uint64
	disjoint := true
	for k, w := range sets {
		bs := bits[vhHashes[k]]
		verifrt.Assert(bs != nil, "T1:block-missing-from-validation-result")
		if bs != nil {
			verifrt.Assert(vhWord(bs) == w, "T1:validated-signer-set-differs")
		}
		if seen&w != 0 {
			disjoint = false
		}
		seen |= w
	}
	verifrt.Assert(len(bits) == len(sets), "T1:validation-result-block-count")
	verifrt.Observe("finalized-unique", verifrt.B2U(unique), verifrt.B2U(disjoint))
	verifrt.Assert(unique == disjoint, "T1:double-signers-not-reported-exactly")
	if unique {
		verifrt.Reach("T1-unique")
	} else {
		verifrt.Reach("T1-double-signed")
	}
}

// VH_C13_T2_FinalizerInvalidSignature: committed block plus optionally the nil
// block, each signature verifying or not: an error (never a panic, never a proof)
// as soon as one signature is invalid.
func VH_C13_T2_FinalizerInvalidSignature() {
	n := vhN()
	keys := vkit.Keys(0, n)
	nother := verifrt.Choose("others", 2)
	cp := tmconsensus.CommitProof{Round: vhRound, PubKeyHash: vhPKH, Proofs: map[string][]gcrypto.SparseSignature{}}
	allOK := true
	mainSet := uint64(0)
	for k := 0; k <= nother; k++ {
		w := 1 + uint64(verifrt.Choose("signers", 1<<uint(n)-1))
		if k == 0 {
			mainSet = w
		}
		var ok bool
		cp.Proofs[vhHashes[k]], ok = vhEntries(keys, k, w, false)
		allOK = allOK && ok
	}
	f := CommitProofFinalizer{SigScheme: vkit.SigScheme{}, CMSPScheme: gcrypto.SimpleCommonMessageSignatureProofScheme{}}
	var out tmconsensus.CommitProof
	var err error
	if !verifrt.NoPanic("T2:finalize-panics", func() { out, err = f.Finalize(vhHeight, vhHashes[0], cp, keys) }) {
		return
	}
	verifrt.Observe("finalize-invalid", mainSet, verifrt.B2U(allOK), verifrt.B2U(err == nil))
	if allOK {
		verifrt.Reach("T2-accepted")
		verifrt.Assert(err == nil, "T2:valid-commit-proof-refused")
	} else {
		verifrt.Reach("T2-refused")
		verifrt.Assert(err != nil, "T2:commit-proof-with-invalid-signature-finalized")
		verifrt.Assert(len(out.Proofs) == 0, "T2:proof-returned-with-error")
	}
}
