package tsi

import (
	"context"

	"github.com/bits-and-blooms/bitset"
	blst "github.com/supranational/blst/bindings/go"

	"github.com/gordian-engine/gordian/gcrypto"
	"github.com/gordian-engine/gordian/gcrypto/gblsminsig"
	"github.com/gordian-engine/gordian/internal/verifrt"
	"github.com/gordian-engine/gordian/internal/verifrt/vkit"
	"github.com/gordian-engine/gordian/tm/tmconsensus"
)

// VH_C13_T3_CommitProofFinalizerBLS: the state machine's CommitProofFinalizer over the
// aggregating BLS scheme (real gblsminsig on the blst model), 4 validators: committed block
// "a" plus 0..2 other voted blocks, every block signed by a non-empty set, the sets pairwise
// disjoint (a double signer is known finding KF-C13-1, decided by VH_C13_B6). All signatures
// honest except one of the committed block's, whose group element and torsion tag are
// symbolic. Finalize fails exactly when that signature does not verify; otherwise the
// finalized commit proof validates - the way the mirror validates a PrevCommitProof - back to
// exactly the per-block signer sets, keyed by the right block hashes.
func VH_C13_T3_CommitProofFinalizerBLS() {
	const n = 4
	var signers []gblsminsig.Signer
	var keys []gcrypto.PubKey
	for i := 0; i < n; i++ {
		ikm := make([]byte, 32)
		ikm[0], ikm[31] = byte(i+1), 0x5a
		s, err := gblsminsig.NewSigner(ikm)
		if err != nil {
			panic(err)
		}
		signers = append(signers, s)
		keys = append(keys, s.PubKey())
	}
	nother := verifrt.Choose("others", 3)
	sets := make([]uint64, 1+nother)
	var seen uint64
	for k := range sets {
		sets[k] = 1 + uint64(verifrt.Choose("signers", 1<<n-1))
		if seen&sets[k] != 0 {
			return // overlapping sets: KF-C13-1 (VH_C13_B6)
		}
		seen |= sets[k]
	}
	verifrt.Reach("T3-disjoint-sets")
	cp := tmconsensus.CommitProof{Round: vhRound, PubKeyHash: vhPKH, Proofs: map[string][]gcrypto.SparseSignature{}}
	hostile := -1
	allOK := true
	for k, w := range sets {
		content := vkit.PrecommitContent(vhHeight, vhRound, vhHashes[k])
		sigs := []gcrypto.SparseSignature{}
		for i := 0; i < n; i++ {
			if w&(1<<uint(i)) == 0 {
				continue
			}
			sig, err := signers[i].Sign(context.Background(), content)
			if err != nil {
				panic(err)
			}
			if k == 0 && hostile < 0 {
				// the first signature of the committed block is what a peer chose to send
				hostile = i
				v := verifrt.U64("element")
				verifrt.Assume(v != 0)
				sig = make([]byte, blst.BLST_P1_COMPRESS_BYTES)
				sig[0] = 0x80
				for j := 0; j < 8; j++ {
					sig[1+j] = byte(v >> (56 - 8*uint(j)))
				}
				sig[9] = verifrt.U8("torsion")
				allOK = keys[i].Verify(content, sig)
			}
			sigs = append(sigs, gcrypto.SparseSignature{KeyID: []byte{0, byte(i)}, Sig: sig})
		}
		cp.Proofs[vhHashes[k]] = sigs
	}
	f := CommitProofFinalizer{SigScheme: vkit.SigScheme{}, CMSPScheme: gblsminsig.SignatureProofScheme{}}
	var out tmconsensus.CommitProof
	var err error
	if !verifrt.NoPanic("T3:finalize-panics", func() { out, err = f.Finalize(vhHeight, vhHashes[0], cp, keys) }) {
		return
	}
	verifrt.Observe("T3", verifrt.B2U(allOK), verifrt.B2U(err == nil))
	if !allOK {
		verifrt.Reach("T3-invalid-signature-refused")
		verifrt.Assert(err != nil, "T3:finalized-although-a-signature-does-not-verify")
		return
	}
	verifrt.Reach("T3-finalized")
	verifrt.Assert(err == nil, "T3:valid-proofs-refused")
	if err != nil {
		return
	}
	verifrt.Assert(len(out.Proofs) == len(sets), "T3:number-of-blocks-changed")
	verifrt.Assert(out.Round == vhRound && out.PubKeyHash == vhPKH, "T3:round-or-key-hash-changed")
	fin := gcrypto.FinalizedCommonMessageSignatureProof{
		Keys: keys, PubKeyHash: out.PubKeyHash,
		MainMessage:    vkit.PrecommitContent(vhHeight, out.Round, vhHashes[0]),
		MainSignatures: out.Proofs[vhHashes[0]],
	}
	byContent := map[string]string{string(fin.MainMessage): vhHashes[0]}
	if len(out.Proofs) > 1 {
		fin.Rest = map[string][]gcrypto.SparseSignature{}
		for _, h := range vhHashes[1:] {
			if sigs, ok := out.Proofs[h]; ok {
				msg := vkit.PrecommitContent(vhHeight, out.Round, h)
				fin.Rest[string(msg)] = sigs
				byContent[string(msg)] = h
			}
		}
	}
	var got map[string]*bitset.BitSet
	var unique bool
	if !verifrt.NoPanic("T3:validate-panics", func() {
		got, unique = gblsminsig.SignatureProofScheme{}.ValidateFinalizedProof(fin, byContent)
	}) {
		return
	}
	verifrt.Assert(got != nil && unique, "T3:finalized-proof-of-disjoint-sets-does-not-validate")
	if got == nil {
		return
	}
	for k, w := range sets {
		bs := got[vhHashes[k]]
		verifrt.Assert(bs != nil, "T3:block-missing-from-validated-proof")
		if bs != nil {
			verifrt.Assert(vhWord(bs) == w, "T3:signer-set-of-block-differs")
		}
	}
}
