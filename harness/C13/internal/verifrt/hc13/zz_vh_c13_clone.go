package hc13

import (
	"bytes"

	"github.com/gordian-engine/gordian/gcrypto"
	"github.com/gordian-engine/gordian/internal/verifrt"
	"github.com/gordian-engine/gordian/internal/verifrt/vkit"
)

// mutate adds signer i (signature tag 1, assumed valid) to p through one of the
// three mutating entry points.
func mutate(p gcrypto.CommonMessageSignatureProof, keys []gcrypto.PubKey, i int, how int) {
	sig := vkit.Sig(byte(i), 1)
	switch how {
	case 0:
		verifrt.Assume(p.AddSignature(sig, keys[i]) == nil)
	case 1:
		res := p.MergeSparse(gcrypto.SparseSignatureProof{
			PubKeyHash: pkh,
			Signatures: []gcrypto.SparseSignature{{KeyID: vkit.KeyID(i), Sig: sig}},
		})
		verifrt.Assume(res.AllValidSignatures)
	default:
		o := withSigners(msgA, keys, 1<<uint(i), 1)
		res := p.Merge(o)
		verifrt.Assume(res.AllValidSignatures)
	}
}

// snapshot is everything observable about a proof's signature state.
type snapshot struct {
	bits uint64
	nsig int
	sp   uint64
}

func snap(p gcrypto.CommonMessageSignatureProof, keys []gcrypto.PubKey, tag string) snapshot {
	sp := p.AsSparse()
	return snapshot{bits: bitsOf(p, len(keys), tag), nsig: len(sp.Signatures), sp: sparseWord(sp, msgA, keys, tag)}
}

// VH_C13_K1_CloneIndependent: a clone has the origin's signer set and signatures;
// mutating either one (through AddSignature, MergeSparse or Merge) leaves the other
// unchanged.
func VH_C13_K1_CloneIndependent() {
	n := nKeys()
	keys := vkit.Keys(0, n)
	a := uint64(verifrt.Choose("A", 1<<uint(n)))
	p := withSigners(msgA, keys, a, 0)
	c := p.Clone()
	verifrt.Assert(checkBacked(c, msgA, keys, "K1:clone") == a, "K1:clone-has-other-signer-set")
	verifrt.Assert(c.Matches(p), "K1:clone-does-not-match-origin")
	verifrt.Assert(bytes.Equal(c.Message(), msgA), "K1:clone-message")
	verifrt.Assert(string(c.PubKeyHash()) == pkh, "K1:clone-key-hash")
	verifrt.Assert(len(c.AsSparse().Signatures) == popcount(a), "K1:clone-signature-count")

	i := verifrt.Choose("id", n)
	how := verifrt.Choose("how", 3)
	target, other := c, p
	if verifrt.Choose("mutate-origin", 2) == 1 {
		target, other = p, c
		verifrt.Reach("K1-origin-mutated")
	} else {
		verifrt.Reach("K1-clone-mutated")
	}
	before := snap(other, keys, "K1:other-before")
	mutate(target, keys, i, how)
	after := snap(other, keys, "K1:other-after")
	tb := checkBacked(target, msgA, keys, "K1:target")
	verifrt.Observe("clone", a, uint64(i), uint64(how), tb, after.bits, uint64(after.nsig))
	verifrt.Assert(tb == a|1<<uint(i), "K1:mutation-did-not-take-effect")
	verifrt.Assert(after.bits == before.bits, "K1:mutation-shows-through-in-bits-of-the-other")
	verifrt.Assert(after.nsig == before.nsig && after.sp == before.sp, "K1:mutation-shows-through-in-signatures-of-the-other")
	verifrt.Assert(after.bits == a, "K1:other-no-longer-has-original-set")
	// the clone's message buffer is its own
	m := c.Message()
	if len(m) > 0 {
		m[0] ^= 0xff
		verifrt.Assert(p.Message()[0] == 'M', "K1:clone-shares-message-buffer")
		m[0] ^= 0xff
	}
}

// VH_C13_K2_DeriveEmpty: Derive gives an empty proof over the same message and keys,
// independent of its origin in both directions.
func VH_C13_K2_DeriveEmpty() {
	n := nKeys()
	keys := vkit.Keys(0, n)
	a := uint64(verifrt.Choose("A", 1<<uint(n)))
	p := withSigners(msgA, keys, a, 0)
	d := p.Derive()
	verifrt.Assert(checkBacked(d, msgA, keys, "K2:derived") == 0, "K2:derived-proof-not-empty")
	verifrt.Assert(len(d.AsSparse().Signatures) == 0, "K2:derived-proof-has-signatures")
	verifrt.Assert(d.Matches(p) && p.Matches(d), "K2:derived-does-not-match-origin")
	verifrt.Assert(checkBacked(p, msgA, keys, "K2:origin") == a, "K2:derive-changes-origin")

	i := verifrt.Choose("id", n)
	how := verifrt.Choose("how", 3)
	if verifrt.Choose("mutate-origin", 2) == 1 {
		verifrt.Reach("K2-origin-mutated")
		mutate(p, keys, i, how)
		verifrt.Assert(checkBacked(p, msgA, keys, "K2:origin") == a|1<<uint(i), "K2:mutation-did-not-take-effect")
		verifrt.Assert(checkBacked(d, msgA, keys, "K2:derived") == 0, "K2:origin-mutation-shows-in-derived")
		verifrt.Assert(len(d.AsSparse().Signatures) == 0, "K2:origin-mutation-adds-signature-to-derived")
	} else {
		verifrt.Reach("K2-derived-mutated")
		before := snap(p, keys, "K2:origin-before")
		mutate(d, keys, i, how)
		after := snap(p, keys, "K2:origin-after")
		verifrt.Assert(checkBacked(d, msgA, keys, "K2:derived") == 1<<uint(i), "K2:derived-accepts-exactly-the-new-signer")
		verifrt.Assert(after == before && after.bits == a, "K2:derived-mutation-shows-in-origin")
	}
}

// VH_C13_K3_SparseRebuild: a proof rebuilt from its own sparse form (New +
// MergeSparse) has the same signer set. The origin may hold two different
// signatures of one signer; sparse entries come out in key order.
func VH_C13_K3_SparseRebuild() {
	n := nKeys()
	keys := vkit.Keys(0, n)
	a := uint64(verifrt.Choose("A", 1<<uint(n)))
	p := withSigners(msgA, keys, a, 0)
	nsig := popcount(a)
	if extra := verifrt.Choose("second-signature-of", n+1); extra < n {
		verifrt.Assume(p.AddSignature(vkit.Sig(byte(extra), 1), keys[extra]) == nil)
		a |= 1 << uint(extra)
		nsig++
		verifrt.Reach("K3-two-signatures-of-one-key")
	}
	sp := p.AsSparse()
	verifrt.Assert(len(sp.Signatures) == nsig, "K3:sparse-form-drops-or-invents-signatures")
	for j := 1; j < len(sp.Signatures); j++ {
		verifrt.Assert(bytes.Compare(sp.Signatures[j-1].KeyID, sp.Signatures[j].KeyID) <= 0, "K3:sparse-form-not-in-key-order")
	}
	q := newProof(msgA, keys)
	var res gcrypto.SignatureProofMergeResult
	if !verifrt.NoPanic("K3:rebuild-panics", func() { res = q.MergeSparse(sp) }) {
		return
	}
	verifrt.Reach("K3-rebuilt")
	qb := checkBacked(q, msgA, keys, "K3:rebuilt")
	verifrt.Observe("rebuild", a, qb, flags(res))
	verifrt.Assert(qb == a, "K3:rebuilt-proof-has-other-signer-set")
	verifrt.Assert(checkBacked(p, msgA, keys, "K3:origin") == a, "K3:as-sparse-changes-origin")
	verifrt.Assert(res.AllValidSignatures, "K3:own-sparse-form-reported-invalid")
	verifrt.Assert(res.IncreasedSignatures == (a != 0), "K3:rebuild-increase-flag")
	verifrt.Assert(len(q.AsSparse().Signatures) == nsig, "K3:rebuilt-proof-signature-count")
	// and merging the rebuilt proof back teaches the origin nothing
	back := p.Merge(q)
	verifrt.Assert(!back.IncreasedSignatures && back.AllValidSignatures, "K3:rebuilt-proof-is-news-to-origin")
}

// VH_C13_K4_KeyIDDefinition: HasSparseKeyID and the scheme's KeyIDChecker agree with
// the definition "exactly two bytes, big endian, index below the number of keys" for
// arbitrary ids of 0..3 bytes, and "has" is the signer bit.
func VH_C13_K4_KeyIDDefinition() {
	n := nKeys()
	keys := vkit.Keys(0, n)
	a := uint64(verifrt.Choose("A", 1<<uint(n)))
	p := withSigners(msgA, keys, a, 0)
	l := verifrt.Choose("len", 4)
	id := verifrt.Bytes("id", l)
	wantValid, wantHas := false, false
	if l == 2 {
		idx := int(id[0])<<8 | int(id[1])
		wantValid = idx < n
		wantHas = verifrt.And(wantValid, verifrt.Bit(a, idx))
	}
	var has, valid, chk bool
	if !verifrt.NoPanic("K4:key-id-check-panics", func() {
		has, valid = p.HasSparseKeyID(id)
		chk = gcrypto.SimpleCommonMessageSignatureProofScheme{}.KeyIDChecker(keys).IsValid(id)
	}) {
		return
	}
	verifrt.Reach("K4-checked")
	verifrt.Observe("keyid", uint64(l), a, verifrt.B2U(has), verifrt.B2U(valid), verifrt.B2U(chk))
	verifrt.Assert(valid == wantValid, "K4:has-sparse-key-id-valid-flag")
	verifrt.Assert(has == wantHas, "K4:has-sparse-key-id-has-flag")
	verifrt.Assert(chk == wantValid, "K4:key-id-checker")
}
