package hc13

import (
	"github.com/gordian-engine/gordian/gcrypto"
	"github.com/gordian-engine/gordian/internal/verifrt"
	"github.com/gordian-engine/gordian/internal/verifrt/vkit"
)

var msgB = []byte{'M', 'b'}

func withSignersHash(msg []byte, keys []gcrypto.PubKey, hash string, w uint64, tag byte) gcrypto.CommonMessageSignatureProof {
	p, err := gcrypto.SimpleCommonMessageSignatureProofScheme{}.New(msg, keys, hash)
	if err != nil {
		panic(err)
	}
	for i := range keys {
		if w&(1<<uint(i)) != 0 {
			verifrt.Assume(p.AddSignature(vkit.Sig(byte(i), tag), keys[i]) == nil)
		}
	}
	return p
}

// VH_C13_M1_Merge: two full proofs over the same keys and message with independent
// signer sets A (receiver) and B (other). The other proof's signers use either the
// same signature bytes as the receiver's (tag 0) or different ones (tag 1).
func VH_C13_M1_Merge() {
	n := nKeys()
	keys := vkit.Keys(0, n)
	a := uint64(verifrt.Choose("A", 1<<uint(n)))
	b := uint64(verifrt.Choose("B", 1<<uint(n)))
	tagB := byte(verifrt.Choose("tagB", 2))
	p := withSigners(msgA, keys, a, 0)
	o := withSigners(msgA, keys, b, tagB)
	verifrt.Assert(p.Matches(o), "M1:same-message-and-keys-do-not-match")

	var res gcrypto.SignatureProofMergeResult
	if !verifrt.NoPanic("M1:merge-panics", func() { res = p.Merge(o) }) {
		return
	}
	after := checkBacked(p, msgA, keys, "M1:after")
	oAfter := checkBacked(o, msgA, keys, "M1:other-after")
	verifrt.Observe("merge", a, b, uint64(tagB), after, flags(res))
	verifrt.Assert(oAfter == b, "M1:merge-modifies-other")
	verifrt.Assert(after == a|b, "M1:bits-are-union")
	verifrt.Assert(res.AllValidSignatures, "M1:all-valid-false-though-every-offered-signature-verifies")
	// growth is always reported
	verifrt.Assert(verifrt.Implies(after != a, res.IncreasedSignatures), "M1:growth-not-reported")
	if tagB == 0 || a&b == 0 {
		verifrt.Assert(res.IncreasedSignatures == (after != a), "M1:increased-iff-strict-growth")
	} else {
		// A second, different signature of a signer the receiver already has: Merge
		// reports IncreasedSignatures although the signer set is unchanged, MergeSparse
		// does not. Recorded, not asserted (the doc comment can be read either way).
		verifrt.Observe("merge-increase-with-resigned-key", a, b, after, verifrt.B2U(res.IncreasedSignatures))
	}
	if a != 0 || b != 0 {
		verifrt.Assert(res.WasStrictSuperset == strictSuperset(b, a), "M1:strict-superset-flag")
	} else {
		// both empty: Merge says true, MergeSparse says false
		verifrt.Observe("merge-superset-both-empty", verifrt.B2U(res.WasStrictSuperset))
	}
	if res.IncreasedSignatures {
		verifrt.Reach("M1-increased")
	} else {
		verifrt.Reach("M1-not-increased")
	}
	if res.WasStrictSuperset {
		verifrt.Reach("M1-strict-superset")
	}

	// idempotence
	var res2 gcrypto.SignatureProofMergeResult
	if !verifrt.NoPanic("M1:second-merge-panics", func() { res2 = p.Merge(o) }) {
		return
	}
	again := checkBacked(p, msgA, keys, "M1:again")
	verifrt.Observe("merge-again", again, flags(res2))
	verifrt.Assert(again == after, "M1:second-merge-changes-bits")
	verifrt.Assert(!res2.IncreasedSignatures, "M1:second-merge-reports-increase")
	verifrt.Assert(res2.AllValidSignatures, "M1:second-merge-all-valid-false")

	// merging in the other direction gives the same set (commutes)
	var res3 gcrypto.SignatureProofMergeResult
	if !verifrt.NoPanic("M1:reverse-merge-panics", func() { res3 = o.Merge(p) }) {
		return
	}
	rev := checkBacked(o, msgA, keys, "M1:reverse")
	verifrt.Observe("merge-reverse", rev, flags(res3))
	verifrt.Assert(rev == after, "M1:merge-order-changes-union")
}

// VH_C13_M2_MergeMismatch: a proof over another message, another key hash or other
// candidate keys is refused as a whole: all flags false, nothing changes.
func VH_C13_M2_MergeMismatch() {
	n := nKeys()
	keys := vkit.Keys(0, n)
	a := uint64(verifrt.Choose("A", 1<<uint(n)))
	b := uint64(verifrt.Choose("B", 1<<uint(n)))
	p := withSigners(msgA, keys, a, 0)
	var o gcrypto.CommonMessageSignatureProof
	switch verifrt.Choose("mismatch", 4) {
	case 0:
		o = withSignersHash(msgB, keys, pkh, b, 1)
	case 1:
		o = withSignersHash(msgA, keys, "other", b, 1)
	case 2:
		o = withSignersHash(msgA, vkit.Keys(1, n), pkh, b, 1)
	default:
		o = withSignersHash(msgA, vkit.Keys(0, n+1), pkh, b, 1)
	}
	verifrt.Assert(!p.Matches(o), "M2:mismatched-proofs-match")
	var res gcrypto.SignatureProofMergeResult
	if !verifrt.NoPanic("M2:merge-panics", func() { res = p.Merge(o) }) {
		return
	}
	verifrt.Reach("M2-refused")
	after := checkBacked(p, msgA, keys, "M2:after")
	verifrt.Observe("mismatch", a, b, after, flags(res))
	verifrt.Assert(after == a, "M2:mismatched-merge-changes-bits")
	verifrt.Assert(flags(res) == 0, "M2:mismatched-merge-flags-not-all-false")
	var bs uint64 = bitsOf(o, n+1, "M2:other")
	verifrt.Assert(bs == b, "M2:mismatched-merge-modifies-other")
}
