package hc13

import (
	"github.com/bits-and-blooms/bitset"

	"github.com/gordian-engine/gordian/gcrypto"
	"github.com/gordian-engine/gordian/internal/verifrt"
	"github.com/gordian-engine/gordian/internal/verifrt/vkit"
)

var (
	finMsgs   = [][]byte{{'M', 'a'}, {'M', 'b'}, {'M', 'c'}}
	finHashes = []string{"ha", "hb", "hc"}
)

func hashMap(k int) map[string]string {
	m := map[string]string{}
	for j := 0; j < k; j++ {
		m[string(finMsgs[j])] = finHashes[j]
	}
	return m
}

// checkValidated compares the output of ValidateFinalizedProof with the expected
// per-message signer sets.
func checkValidated(lbl string, out map[string]*bitset.BitSet, unique bool, sets []uint64, n int) {
	verifrt.Assert(out != nil, lbl+":valid-proof-refused")
	if out == nil {
		return
	}
	verifrt.Assert(len(out) == len(sets), lbl+":number-of-blocks")
	var seen uint64
	disjoint := true
	for k, w := range sets {
		bs, ok := out[finHashes[k]]
		verifrt.Assert(ok && bs != nil, lbl+":block-missing-from-result")
		if ok && bs != nil {
			got := wordOf(bs, n, lbl)
			verifrt.Observe(lbl+"-block", uint64(k), w, got)
			verifrt.Assert(got == w, lbl+":signer-set-of-block-differs")
		}
		if seen&w != 0 {
			disjoint = false
		}
		seen |= w
	}
	verifrt.Observe(lbl+"-unique", verifrt.B2U(unique), verifrt.B2U(disjoint))
	verifrt.Assert(unique == disjoint, lbl+":all-unique-iff-no-validator-signed-two-blocks")
}

// VH_C13_F1_FinalizeRoundTrip: main proof + 0..2 rest proofs over distinct messages
// with arbitrary signer sets; Finalize then ValidateFinalizedProof gives back exactly
// those sets keyed by block hash, and reports double signers. All map iteration
// orders inside ValidateFinalizedProof are explored.
func VH_C13_F1_FinalizeRoundTrip() {
	verifrt.MapOrderFuncs("ValidateFinalizedProof")
	n := nKeys()
	keys := vkit.Keys(0, n)
	scheme := gcrypto.SimpleCommonMessageSignatureProofScheme{}
	nrest := verifrt.Choose("rest", 3)
	sets := make([]uint64, 1+nrest)
	proofs := make([]gcrypto.CommonMessageSignatureProof, 1+nrest)
	for k := range sets {
		sets[k] = uint64(verifrt.Choose("signers", 1<<uint(n)))
		proofs[k] = withSigners(finMsgs[k], keys, sets[k], byte(k))
	}
	var fin gcrypto.FinalizedCommonMessageSignatureProof
	if !verifrt.NoPanic("F1:finalize-panics", func() { fin = scheme.Finalize(proofs[0], proofs[1:]) }) {
		return
	}
	verifrt.Assert(len(fin.Rest) == nrest, "F1:finalized-rest-count")
	verifrt.Assert(len(fin.MainSignatures) == popcount(sets[0]), "F1:finalized-main-signature-count")
	var out map[string]*bitset.BitSet
	var unique bool
	if !verifrt.NoPanic("F1:validate-panics", func() { out, unique = scheme.ValidateFinalizedProof(fin, hashMap(1+nrest)) }) {
		return
	}
	if unique {
		verifrt.Reach("F1-unique")
	} else {
		verifrt.Reach("F1-double-signed")
	}
	checkValidated("F1", out, unique, sets, n)
	// the inputs of Finalize are untouched
	for k := range proofs {
		verifrt.Assert(checkBacked(proofs[k], finMsgs[k], keys, "F1:input") == sets[k], "F1:finalize-changes-input-proof")
	}
}

// finEntry is a well-formed sparse signature for message k: candidate i with a
// signature that may or may not verify, or an out-of-range 2-byte id.
func finEntry(name string, n, k int) (e gcrypto.SparseSignature, idx int) {
	c := verifrt.Choose(name+"-kind", n+1)
	if c < n {
		return gcrypto.SparseSignature{KeyID: vkit.KeyID(c), Sig: vkit.Sig(byte(c), byte(k))}, c
	}
	hi, lo := verifrt.U8(name+"-id-hi"), verifrt.U8(name+"-id-lo")
	verifrt.Assume(verifrt.Or(hi != 0, int(lo) >= n))
	return gcrypto.SparseSignature{KeyID: []byte{hi, lo}, Sig: vkit.Sig(0xee, byte(k))}, -1
}

// VH_C13_F2_ValidateArbitrary: a finalized proof as received from a peer (trusted
// keys, arbitrary well-formed sparse signatures: 0..2 for the main message, 0..1 for
// one other message) never panics; it is refused with (nil,false) as soon as one
// signature does not verify or one key id is out of range, and otherwise yields
// exactly the verified signer sets.
func VH_C13_F2_ValidateArbitrary() {
	n := nKeys()
	keys := vkit.Keys(0, n)
	scheme := gcrypto.SimpleCommonMessageSignatureProofScheme{}
	fin := gcrypto.FinalizedCommonMessageSignatureProof{Keys: keys, PubKeyHash: pkh, MainMessage: finMsgs[0]}
	allOK := true
	nmain := verifrt.Choose("main-entries", 3)
	hasRest := verifrt.Choose("rest-entries", 2) == 1
	sets := []uint64{0}
	add := func(name string, k int) gcrypto.SparseSignature {
		e, idx := finEntry(name, n, k)
		if idx < 0 {
			allOK = false
		} else if keys[idx].Verify(finMsgs[k], e.Sig) {
			sets[k] |= 1 << uint(idx)
		} else {
			allOK = false
		}
		return e
	}
	for j := 0; j < nmain; j++ {
		fin.MainSignatures = append(fin.MainSignatures, add("main", 0))
	}
	if hasRest {
		sets = append(sets, 0)
		fin.Rest = map[string][]gcrypto.SparseSignature{string(finMsgs[1]): {add("rest", 1)}}
	}
	var out map[string]*bitset.BitSet
	var unique bool
	if !verifrt.NoPanic("F2:validate-panics", func() { out, unique = scheme.ValidateFinalizedProof(fin, hashMap(len(sets))) }) {
		return
	}
	verifrt.Observe("validate", verifrt.B2U(allOK), verifrt.B2U(out != nil), verifrt.B2U(unique))
	if allOK {
		verifrt.Reach("F2-accepted")
		checkValidated("F2", out, unique, sets, n)
	} else {
		verifrt.Reach("F2-refused")
		verifrt.Assert(out == nil, "F2:result-map-despite-invalid-signature")
		verifrt.Assert(!unique, "F2:unique-flag-despite-invalid-signature")
	}
}

// VH_C13_F3_ValidateMalformedKeyID: the same entry point with one main-message key id
// of 0, 1 or 3 arbitrary bytes: must be refused without panicking.
func VH_C13_F3_ValidateMalformedKeyID() {
	n := nKeys()
	keys := vkit.Keys(0, n)
	scheme := gcrypto.SimpleCommonMessageSignatureProofScheme{}
	l := []int{0, 1, 3}[verifrt.Choose("len", 3)]
	fin := gcrypto.FinalizedCommonMessageSignatureProof{
		Keys: keys, PubKeyHash: pkh, MainMessage: finMsgs[0],
		MainSignatures: []gcrypto.SparseSignature{{KeyID: verifrt.Bytes("bad-id", l), Sig: vkit.Sig(0xdd, byte(l))}},
	}
	var out map[string]*bitset.BitSet
	var unique bool
	if !verifrt.NoPanic("F3:validate-panics", func() { out, unique = scheme.ValidateFinalizedProof(fin, hashMap(1)) }) {
		return
	}
	verifrt.Reach("F3-no-panic")
	verifrt.Observe("malformed", uint64(l), verifrt.B2U(out != nil), verifrt.B2U(unique))
	verifrt.Assert(out == nil && !unique, "F3:malformed-key-id-accepted")
}
