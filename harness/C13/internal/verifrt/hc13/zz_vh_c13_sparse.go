package hc13

import (
	"github.com/gordian-engine/gordian/gcrypto"
	"github.com/gordian-engine/gordian/internal/verifrt"
	"github.com/gordian-engine/gordian/internal/verifrt/vkit"
)

// sparseEntry is one offered entry together with what the oracle knows about it.
type sparseEntry struct {
	e        gcrypto.SparseSignature
	wellForm bool // key id is exactly 2 bytes
	inRange  bool // well formed and index < n
	idx      int  // valid if inRange
}

// wellFormedEntry: a 2-byte key id which is either the id of candidate key i with
// signature tag 0 (the one a prior signer already used) or 1 (a new one), or an
// arbitrary out-of-range 16-bit value.
func wellFormedEntry(name string, n int) sparseEntry {
	k := verifrt.Choose(name+"-kind", 3*n+1)
	if k < 2*n {
		i := k / 2
		return sparseEntry{
			e:        gcrypto.SparseSignature{KeyID: vkit.KeyID(i), Sig: vkit.Sig(byte(i), byte(k%2))},
			wellForm: true, inRange: true, idx: i,
		}
	}
	if k < 3*n {
		// replay: the signature bytes of ANOTHER candidate (the ones a prior signer used, so the
		// proof may hold them already) offered under this candidate's key id. A signature is
		// valid for at most one key (stated assumption), so it does not verify for this one.
		j := k - 2*n
		i := (j + 1) % n
		sig := vkit.Sig(byte(i), 0)
		verifrt.Assume(!vkit.Keys(0, n)[j].Verify(msgA, sig))
		return sparseEntry{
			e:        gcrypto.SparseSignature{KeyID: vkit.KeyID(j), Sig: sig},
			wellForm: true, inRange: true, idx: j,
		}
	}
	hi, lo := verifrt.U8(name+"-id-hi"), verifrt.U8(name+"-id-lo")
	verifrt.Assume(verifrt.Or(hi != 0, int(lo) >= n))
	return sparseEntry{
		e:        gcrypto.SparseSignature{KeyID: []byte{hi, lo}, Sig: vkit.Sig(0xee, 0)},
		wellForm: true,
	}
}

// checkMergeSparse runs p.MergeSparse(offer) twice and compares with the oracle.
// ok is false if a call panicked.
func checkMergeSparse(lbl string, p gcrypto.CommonMessageSignatureProof, keys []gcrypto.PubKey, ents []sparseEntry) (res gcrypto.SignatureProofMergeResult, ok bool) {
	n := len(keys)
	before := checkBacked(p, msgA, keys, lbl+":before")
	offer := gcrypto.SparseSignatureProof{PubKeyHash: pkh}
	var verified uint64
	allOK := true
	for _, se := range ents {
		offer.Signatures = append(offer.Signatures, se.e)
		if !se.inRange {
			allOK = false
			continue
		}
		if keys[se.idx].Verify(msgA, se.e.Sig) {
			verified |= 1 << uint(se.idx)
		} else {
			allOK = false
		}
	}
	if !verifrt.NoPanic(lbl+":merge-sparse-panics", func() { res = p.MergeSparse(offer) }) {
		return res, false
	}
	after := checkBacked(p, msgA, keys, lbl+":after")
	verifrt.Observe(lbl+"-merge", before, verified, after, flags(res), verifrt.B2U(allOK))
	verifrt.Assert(after == before|verified, lbl+":bits-are-union-of-prior-and-verified-offered")
	verifrt.Assert(res.AllValidSignatures == allOK, lbl+":all-valid-iff-every-entry-well-formed-in-range-verifying")
	verifrt.Assert(res.IncreasedSignatures == (after != before), lbl+":increased-iff-strict-growth")
	// WasStrictSuperset: MergeSparse and Merge agree with the doc comment only when
	// every offered signature is valid and the two sets are not both empty.
	if allOK && (before != 0 || verified != 0) {
		verifrt.Assert(res.WasStrictSuperset == strictSuperset(verified, before), lbl+":strict-superset-flag")
	} else {
		verifrt.Observe(lbl+"-superset-unasserted", before, verified, verifrt.B2U(allOK), verifrt.B2U(res.WasStrictSuperset))
	}

	// idempotence: the same operand again changes nothing and reports no increase
	var res2 gcrypto.SignatureProofMergeResult
	if !verifrt.NoPanic(lbl+":second-merge-sparse-panics", func() { res2 = p.MergeSparse(offer) }) {
		return res, false
	}
	again := checkBacked(p, msgA, keys, lbl+":again")
	verifrt.Observe(lbl+"-again", again, flags(res2))
	verifrt.Assert(again == after, lbl+":second-merge-changes-bits")
	verifrt.Assert(!res2.IncreasedSignatures, lbl+":second-merge-reports-increase")
	verifrt.Assert(res2.AllValidSignatures == allOK, lbl+":second-merge-all-valid-differs")
	_ = n
	return res, true
}

// VH_C13_S1_MergeSparseWellFormed: arbitrary prior signer set, 1..2 offered entries
// with well-formed (2-byte) key ids, in range or not, duplicates allowed, each
// signature verifying or not.
func VH_C13_S1_MergeSparseWellFormed() {
	n := nKeys()
	keys := vkit.Keys(0, n)
	prior := uint64(verifrt.Choose("prior", 1<<uint(n)))
	p := withSigners(msgA, keys, prior, 0)
	cnt := 1 + verifrt.Choose("entries", 2)
	var ents []sparseEntry
	for j := 0; j < cnt; j++ {
		ents = append(ents, wellFormedEntry("e", n))
	}
	res, ok := checkMergeSparse("S1", p, keys, ents)
	if !ok {
		return
	}
	if res.IncreasedSignatures {
		verifrt.Reach("S1-increased")
	} else {
		verifrt.Reach("S1-not-increased")
	}
	if res.AllValidSignatures {
		verifrt.Reach("S1-all-valid")
	} else {
		verifrt.Reach("S1-some-invalid")
	}
	if res.WasStrictSuperset {
		verifrt.Reach("S1-strict-superset")
	}
}

// VH_C13_S2_MergeSparseWrongKeyHash: a sparse proof for another key set is refused
// as a whole: all flags false, nothing changes.
func VH_C13_S2_MergeSparseWrongKeyHash() {
	n := nKeys()
	keys := vkit.Keys(0, n)
	prior := uint64(verifrt.Choose("prior", 1<<uint(n)))
	p := withSigners(msgA, keys, prior, 0)
	i := verifrt.Choose("id", n)
	offer := gcrypto.SparseSignatureProof{
		PubKeyHash: "other",
		Signatures: []gcrypto.SparseSignature{{KeyID: vkit.KeyID(i), Sig: vkit.Sig(byte(i), 1)}},
	}
	var res gcrypto.SignatureProofMergeResult
	if !verifrt.NoPanic("S2:merge-sparse-panics", func() { res = p.MergeSparse(offer) }) {
		return
	}
	verifrt.Reach("S2-refused")
	after := checkBacked(p, msgA, keys, "S2:after")
	verifrt.Observe("S2", prior, after, flags(res))
	verifrt.Assert(after == prior, "S2:wrong-key-hash-changes-bits")
	verifrt.Assert(flags(res) == 0, "S2:wrong-key-hash-flags-not-all-false")
}

// malformedEntry: key id of 0, 1 or 3 arbitrary bytes.
func malformedEntry(name string, l int) sparseEntry {
	id := verifrt.Bytes(name+"-id", l)
	return sparseEntry{e: gcrypto.SparseSignature{KeyID: id, Sig: vkit.Sig(0xdd, byte(l))}}
}

// VH_C13_S3_MergeSparseShortKeyID: a key id of 0 or 1 bytes (alone, or after a
// well-formed entry) must be refused (AllValidSignatures false, no bit for it)
// without panicking.
func VH_C13_S3_MergeSparseShortKeyID() {
	n := nKeys()
	keys := vkit.Keys(0, n)
	prior := uint64(verifrt.Choose("prior", 1<<uint(n)))
	p := withSigners(msgA, keys, prior, 0)
	var ents []sparseEntry
	if verifrt.Choose("lead", 2) == 1 {
		ents = append(ents, wellFormedEntry("e", n))
	}
	l := verifrt.Choose("len", 2)
	ents = append(ents, malformedEntry("bad", l))
	verifrt.Reach("S3-short-id-offered")
	checkMergeSparse("S3", p, keys, ents)
}

// VH_C13_S4_MergeSparseLongKeyID: a 3-byte key id is not a key id of this scheme
// (HasSparseKeyID and the KeyIDChecker say so); it must be refused, not truncated.
func VH_C13_S4_MergeSparseLongKeyID() {
	n := nKeys()
	keys := vkit.Keys(0, n)
	prior := uint64(verifrt.Choose("prior", 1<<uint(n)))
	p := withSigners(msgA, keys, prior, 0)
	var ents []sparseEntry
	if verifrt.Choose("lead", 2) == 1 {
		ents = append(ents, wellFormedEntry("e", n))
	}
	ents = append(ents, malformedEntry("bad", 3))
	if _, ok := checkMergeSparse("S4", p, keys, ents); ok {
		verifrt.Reach("S4-long-id-handled")
	}
}
