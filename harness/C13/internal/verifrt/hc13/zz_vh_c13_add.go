package hc13

import (
	"github.com/gordian-engine/gordian/gcrypto"
	"github.com/gordian-engine/gordian/internal/verifrt"
	"github.com/gordian-engine/gordian/internal/verifrt/vkit"
)

// VH_C13_A1_AddSignature: after 0..2 arbitrary earlier AddSignature calls (each may
// verify or not), AddSignature(sig,key) sets exactly bit i when key is candidate i and
// the signature verifies; otherwise nothing changes and the documented error is returned.
func VH_C13_A1_AddSignature() {
	n := nKeys()
	keys := vkit.Keys(0, n)
	p := newProof(msgA, keys)
	var want uint64
	nprior := verifrt.Choose("nprior", 3)
	for j := 0; j < nprior; j++ {
		id := verifrt.Choose("prior-id", n)
		sig := vkit.Sig(byte(id), byte(j))
		err := p.AddSignature(sig, keys[id])
		if keys[id].Verify(msgA, sig) {
			want |= 1 << uint(id)
			verifrt.Assert(err == nil, "A1:prior-valid-signature-rejected")
		} else {
			verifrt.Assert(err == gcrypto.ErrInvalidSignature, "A1:prior-invalid-signature-error")
		}
	}
	before := checkBacked(p, msgA, keys, "A1:before")
	verifrt.Assert(before == want, "A1:prior-state-is-set-of-verified-signers")

	which := verifrt.Choose("key", n+1) // n = a key outside the candidate set
	tag := byte(verifrt.Choose("tag", 3))
	var key gcrypto.PubKey
	if which < n {
		key = keys[which]
	} else {
		key = vkit.SymKey{Set: 9, ID: 0}
	}
	sig := vkit.Sig(byte(which), tag)
	var err error
	if !verifrt.NoPanic("A1:add-signature-panics", func() { err = p.AddSignature(sig, key) }) {
		return
	}
	after := checkBacked(p, msgA, keys, "A1:after")
	valid := key.Verify(msgA, sig)
	verifrt.Observe("add", before, after, uint64(which), verifrt.B2U(valid), verifrt.B2U(err == nil))
	switch {
	case which >= n:
		verifrt.Reach("add-foreign-key")
		verifrt.Assert(err == gcrypto.ErrUnknownKey, "A1:foreign-key-error-is-ErrUnknownKey")
		verifrt.Assert(after == before, "A1:foreign-key-changes-bits")
	case valid:
		verifrt.Reach("add-valid")
		verifrt.Assert(err == nil, "A1:valid-signature-rejected")
		verifrt.Assert(after == before|1<<uint(which), "A1:valid-signature-sets-exactly-its-bit")
	default:
		verifrt.Reach("add-invalid")
		verifrt.Assert(err == gcrypto.ErrInvalidSignature, "A1:invalid-signature-error-is-ErrInvalidSignature")
		verifrt.Assert(after == before, "A1:invalid-signature-changes-bits")
	}
	verifrt.Assert(after&before == before, "A1:monotone")
}
