// Package hc13 holds the C13 harnesses (simple, non-aggregating signature proof
// scheme). Only exported gcrypto API is used. Signature verification is the
// uninterpreted predicate of vkit.SymKey: honest, forged, foreign and bit-flipped
// signatures are all just points of that predicate.
package hc13

import (
	"github.com/bits-and-blooms/bitset"

	"github.com/gordian-engine/gordian/gcrypto"
	"github.com/gordian-engine/gordian/internal/verifrt"
	"github.com/gordian-engine/gordian/internal/verifrt/vkit"
)

const pkh = "pkh"

var msgA = []byte{'M', 'a'}

func nKeys() int {
	if verifrt.Thorough() {
		return 3
	}
	return 2
}

func fullMask(n int) uint64 { return 1<<uint(n) - 1 }

// wordOf returns the low 64 bits of a bit set and asserts nothing lives above
// bit n (the proof must never report a signer outside the candidate keys).
func wordOf(bs *bitset.BitSet, n int, tag string) uint64 {
	var w uint64
	for i := 0; i < 64; i++ {
		if bs.Test(uint(i)) {
			w |= 1 << uint(i)
		}
	}
	verifrt.Assert(uint(popcount(w)) == bs.Count(), tag+":bitset-has-bits-above-word")
	verifrt.Assert(w&^fullMask(n) == 0, tag+":bit-outside-candidate-keys")
	return w
}

func popcount(w uint64) int {
	c := 0
	for ; w != 0; w &= w - 1 {
		c++
	}
	return c
}

// bitsOf is the signer set of a proof as a word.
func bitsOf(p gcrypto.CommonMessageSignatureProof, n int, tag string) uint64 {
	var bs bitset.BitSet
	p.SignatureBitSet(&bs)
	return wordOf(&bs, n, tag)
}

func newProof(msg []byte, keys []gcrypto.PubKey) gcrypto.CommonMessageSignatureProof {
	p, err := gcrypto.SimpleCommonMessageSignatureProofScheme{}.New(msg, keys, pkh)
	if err != nil {
		panic(err)
	}
	return p
}

// withSigners builds a proof whose signer set is exactly w: signature
// vkit.Sig(i,tag) of every i in w is added and assumed to verify.
func withSigners(msg []byte, keys []gcrypto.PubKey, w uint64, tag byte) gcrypto.CommonMessageSignatureProof {
	p := newProof(msg, keys)
	for i := range keys {
		if w&(1<<uint(i)) != 0 {
			err := p.AddSignature(vkit.Sig(byte(i), tag), keys[i])
			verifrt.Assume(err == nil)
		}
	}
	return p
}

// sparseWord checks that every entry of the sparse form is a well-formed, in-range
// key id carrying a signature that verifies under that key, and returns the set of
// key indices mentioned.
func sparseWord(sp gcrypto.SparseSignatureProof, msg []byte, keys []gcrypto.PubKey, tag string) uint64 {
	var w uint64
	verifrt.Assert(sp.PubKeyHash == pkh, tag+":sparse-key-hash")
	for _, e := range sp.Signatures {
		if len(e.KeyID) != 2 {
			verifrt.Fail(tag + ":sparse-key-id-not-2-bytes")
			continue
		}
		idx := int(e.KeyID[0])<<8 | int(e.KeyID[1])
		if idx >= len(keys) {
			verifrt.Fail(tag + ":sparse-key-id-out-of-range")
			continue
		}
		verifrt.Assert(keys[idx].Verify(msg, e.Sig), tag+":sparse-entry-does-not-verify")
		w |= 1 << uint(idx)
	}
	return w
}

// checkBacked: every set bit is backed by a verifying signature in the sparse form
// and the sparse form mentions no key whose bit is clear.
func checkBacked(p gcrypto.CommonMessageSignatureProof, msg []byte, keys []gcrypto.PubKey, tag string) uint64 {
	w := bitsOf(p, len(keys), tag)
	sw := sparseWord(p.AsSparse(), msg, keys, tag)
	verifrt.Assert(sw == w, tag+":bits-equal-keys-of-verifying-sparse-entries")
	return w
}

func flags(r gcrypto.SignatureProofMergeResult) uint64 {
	return verifrt.B2U(r.AllValidSignatures) | verifrt.B2U(r.IncreasedSignatures)<<1 | verifrt.B2U(r.WasStrictSuperset)<<2
}

func strictSuperset(a, b uint64) bool { return a&b == b && a != b }
