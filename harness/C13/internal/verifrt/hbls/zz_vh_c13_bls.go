// Package hbls holds the C13 harnesses of the second shipped scheme: the aggregating BLS
// scheme gcrypto/gblsminsig (signature tree, sparse ids of aggregated nodes, combination-index
// finalized proofs). The cgo library blst has no Go IR; for these harnesses it is replaced -
// under gsx and in the native replay alike - by the pure-Go group model /verif/rt/blstmodel
// (config.json "replace"), against which the repository's own gblsminsig test suite passes
// (tools/blstmodel_selftest.sh). Everything above blst - gblsminsig, sigtree - is the real code.
//
// Keys and messages are concrete; every offered signature is 48 bytes whose group element is
// a symbolic 64-bit value (or a malformed byte string), so "verifies or not", "equals the held
// signature or not", "is the aggregate of these two or not" are solver decisions.
package hbls

import (
	"context"

	"github.com/bits-and-blooms/bitset"
	blst "github.com/supranational/blst/bindings/go"

	"github.com/gordian-engine/gordian/gcrypto"
	"github.com/gordian-engine/gordian/gcrypto/gblsminsig"
	"github.com/gordian-engine/gordian/internal/verifrt"
)

const pkh = "pkh"

var (
	msgs   = [][]byte{{'M', 'a'}, {'M', 'b'}, {'M', 'c'}}
	hashes = []string{"ha", "hb", "hc"}
)

type world struct {
	n       int
	signers []gblsminsig.Signer
	keys    []gblsminsig.PubKey
	gkeys   []gcrypto.PubKey
	width   int // leaves incl. padding
	nodes   int // 2*width-1
}

// nKeys: 3 keys (one padding leaf, node 5 aliases key 2) in the quick tier; 2, 3 or 4 in
// the thorough tier.
func nKeys() int {
	if verifrt.Thorough() {
		return 2 + verifrt.Choose("n", 3)
	}
	return 3
}

func newWorld(n int) *world {
	w := &world{n: n}
	for i := 0; i < n; i++ {
		ikm := make([]byte, 32)
		ikm[0] = byte(i + 1)
		ikm[31] = 0x5a
		s, err := gblsminsig.NewSigner(ikm)
		if err != nil {
			panic(err)
		}
		w.signers = append(w.signers, s)
		k := s.PubKey().(gblsminsig.PubKey)
		w.keys = append(w.keys, k)
		w.gkeys = append(w.gkeys, k)
	}
	w.width = 1
	for w.width < n {
		w.width <<= 1
	}
	w.nodes = 2*w.width - 1
	return w
}

func (w *world) full() uint64 { return 1<<uint(w.n) - 1 }

// leafSet is the set of real keys below tree node id (oracle, written from the layout in the
// package documentation: leaves first, then each layer of pairwise aggregates).
func (w *world) leafSet(id int) uint64 {
	start, width, span := 0, w.width, 1
	for id >= start+width {
		start += width
		width >>= 1
		span <<= 1
	}
	off := id - start
	var s uint64
	for i := off * span; i < (off+1)*span && i < w.n; i++ {
		s |= 1 << uint(i)
	}
	return s
}

// aggKey is the sum of the keys in set s (the zero key for the empty set).
func (w *world) aggKey(s uint64) gblsminsig.PubKey {
	acc := new(blst.P2)
	for i := 0; i < w.n; i++ {
		if s&(1<<uint(i)) != 0 {
			acc = acc.Add((*blst.P2Affine)(&w.keys[i]))
		}
	}
	return gblsminsig.PubKey(*acc.ToAffine())
}

func (w *world) honest(i int, msg []byte) []byte {
	sig, err := w.signers[i].Sign(context.Background(), msg)
	if err != nil {
		panic(err)
	}
	return sig
}

func (w *world) newProof(msg []byte) gcrypto.CommonMessageSignatureProof {
	p, err := gblsminsig.SignatureProofScheme{}.New(msg, w.gkeys, pkh)
	if err != nil {
		panic(err)
	}
	return p
}

// withSigners: a proof holding the honest signatures of exactly the keys in s, added one by
// one (so pairs aggregate on their own, as in production).
func (w *world) withSigners(msg []byte, s uint64) gcrypto.CommonMessageSignatureProof {
	p := w.newProof(msg)
	for i := 0; i < w.n; i++ {
		if s&(1<<uint(i)) != 0 {
			err := p.AddSignature(w.honest(i, msg), w.keys[i])
			verifrt.Assert(err == nil, "setup:honest-signature-refused")
		}
	}
	return p
}

func popcount(x uint64) int {
	c := 0
	for ; x != 0; x &= x - 1 {
		c++
	}
	return c
}

func wordOf(bs *bitset.BitSet, n int, tag string) uint64 {
	var x uint64
	for i := 0; i < 64; i++ {
		if bs.Test(uint(i)) {
			x |= 1 << uint(i)
		}
	}
	verifrt.Assert(uint(popcount(x)) == bs.Count(), tag+":bitset-has-bits-above-word")
	verifrt.Assert(x>>uint(n) == 0, tag+":bit-outside-candidate-keys")
	return x
}

func (w *world) bitsOf(p gcrypto.CommonMessageSignatureProof, tag string) uint64 {
	var bs bitset.BitSet
	p.SignatureBitSet(&bs)
	return wordOf(&bs, w.n, tag)
}

// checkBacked: the bit set equals the union of the leaf sets of the sparse entries, the
// entries are disjoint, each has a 2-byte in-range id of a node with at least one real key,
// and each signature verifies under the aggregate of exactly those keys. No bit without a
// verifying signature behind it.
func (w *world) checkBacked(p gcrypto.CommonMessageSignatureProof, msg []byte, tag string) uint64 {
	bits := w.bitsOf(p, tag)
	sp := p.AsSparse()
	verifrt.Assert(sp.PubKeyHash == pkh, tag+":sparse-key-hash")
	var union uint64
	for _, e := range sp.Signatures {
		if len(e.KeyID) != 2 {
			verifrt.Fail(tag + ":sparse-key-id-not-2-bytes")
			continue
		}
		id := int(e.KeyID[0])<<8 | int(e.KeyID[1])
		if id >= w.nodes {
			verifrt.Fail(tag + ":sparse-key-id-out-of-range")
			continue
		}
		ls := w.leafSet(id)
		verifrt.Assert(ls != 0, tag+":sparse-entry-for-a-padding-node")
		verifrt.Assert(union&ls == 0, tag+":sparse-entries-overlap")
		verifrt.Assert(w.aggKey(ls).Verify(msg, e.Sig), tag+":sparse-entry-does-not-verify")
		union |= ls
	}
	verifrt.Assert(union == bits, tag+":bits-equal-keys-of-verifying-sparse-entries")
	// HasSparseKeyID agrees for the leaves
	for i := 0; i < w.n; i++ {
		has, valid := p.HasSparseKeyID([]byte{0, byte(i)})
		verifrt.Assert(valid, tag+":leaf-id-reported-invalid")
		if has {
			verifrt.Assert(bits&(1<<uint(i)) != 0, tag+":has-sparse-key-id-without-bit")
		}
	}
	return bits
}

// symSig is an offered signature: form 0 = 48 bytes, compressed flag, symbolic non-zero group
// element and symbolic torsion tag (verifying, equal to a held one, an aggregate, a valid
// signature shifted by a small-order point, or garbage: the solver decides);
// form 1 = 5 bytes (does not decompress); form 2 (thorough) = 48 bytes with symbolic flag
// byte and a symbolic padding byte.
func symSig(name string) []byte {
	forms := 2
	if verifrt.Thorough() {
		forms = 3
	}
	switch verifrt.Choose(name+"-form", forms) {
	case 1:
		return []byte("short")
	case 2:
		b := make([]byte, blst.BLST_P1_COMPRESS_BYTES)
		b[0] = verifrt.U8(name + "-flag")
		putU64(b[1:9], verifrt.U64(name+"-v"))
		b[9] = verifrt.U8(name + "-pad")
		return b
	}
	v := verifrt.U64(name + "-v")
	verifrt.Assume(v != 0)
	b := make([]byte, blst.BLST_P1_COMPRESS_BYTES)
	b[0] = 0x80
	putU64(b[1:9], v)
	b[9] = verifrt.U8(name + "-torsion") // != 0: on the curve but outside the prime-order subgroup
	return b
}

func putU64(b []byte, v uint64) {
	for i := 0; i < 8; i++ {
		b[i] = byte(v >> (56 - 8*uint(i)))
	}
}

func flags(r gcrypto.SignatureProofMergeResult) uint64 {
	return verifrt.B2U(r.AllValidSignatures) | verifrt.B2U(r.IncreasedSignatures)<<1 | verifrt.B2U(r.WasStrictSuperset)<<2
}

type offer struct {
	e     gcrypto.SparseSignature
	leafs uint64 // leaf set of the node named, 0 if malformed / out of range / padding
}

// sparseOffer: a node id of the tree (leaf, aggregate, alias or padding node), or an
// arbitrary out-of-range 16-bit id, with a symbolic signature.
func (w *world) sparseOffer(name string) offer {
	k := verifrt.Choose(name+"-node", w.nodes+1)
	sig := symSig(name)
	if k < w.nodes {
		return offer{e: gcrypto.SparseSignature{KeyID: []byte{byte(k >> 8), byte(k)}, Sig: sig}, leafs: w.leafSet(k)}
	}
	hi, lo := verifrt.U8(name+"-id-hi"), verifrt.U8(name+"-id-lo")
	verifrt.Assume(verifrt.Or(hi != 0, int(lo) >= w.nodes))
	return offer{e: gcrypto.SparseSignature{KeyID: []byte{hi, lo}, Sig: sig}}
}

func (w *world) checkMergeSparse(lbl string, p gcrypto.CommonMessageSignatureProof, msg []byte, offers []offer) bool {
	before := w.checkBacked(p, msg, lbl+":before")
	sp := gcrypto.SparseSignatureProof{PubKeyHash: pkh}
	var verified uint64
	allOK := true
	for _, o := range offers {
		sp.Signatures = append(sp.Signatures, o.e)
		if o.leafs != 0 && w.aggKey(o.leafs).Verify(msg, o.e.Sig) {
			verified |= o.leafs
		} else {
			allOK = false
		}
	}
	var res gcrypto.SignatureProofMergeResult
	if !verifrt.NoPanic(lbl+":merge-sparse-panics", func() { res = p.MergeSparse(sp) }) {
		return false
	}
	after := w.checkBacked(p, msg, lbl+":after")
	verifrt.Observe(lbl+"-merge", before, verified, after, flags(res), verifrt.B2U(allOK))
	verifrt.Assert(after == before|verified, lbl+":bits-are-union-of-prior-and-verified-offered")
	verifrt.Assert(res.AllValidSignatures == allOK, lbl+":all-valid-iff-every-entry-well-formed-in-range-verifying")
	verifrt.Assert(res.IncreasedSignatures == (after != before), lbl+":increased-iff-strict-growth")
	var res2 gcrypto.SignatureProofMergeResult
	if !verifrt.NoPanic(lbl+":second-merge-sparse-panics", func() { res2 = p.MergeSparse(sp) }) {
		return false
	}
	again := w.checkBacked(p, msg, lbl+":again")
	verifrt.Assert(again == after, lbl+":second-merge-changes-bits")
	verifrt.Assert(!res2.IncreasedSignatures, lbl+":second-merge-reports-increase")
	verifrt.Assert(res2.AllValidSignatures == allOK, lbl+":second-merge-all-valid-differs")
	if res.IncreasedSignatures {
		verifrt.Reach(lbl + "-increased")
	}
	if !res.AllValidSignatures {
		verifrt.Reach(lbl + "-some-invalid")
	}
	return true
}

// VH_C13_B1_MergeSparse: arbitrary prior signer set; 1..2 offered sparse entries naming any
// tree node (leaf, aggregate, the alias of a lone key, the padding leaf) or an out-of-range
// id, each with a symbolic or malformed signature. Afterwards the signer set is the union of
// the prior set and the leaf sets of the entries that verify, the flags say what happened,
// every bit is backed by a verifying (aggregated) signature, and a second merge is a no-op.
func VH_C13_B1_MergeSparse() {
	w := newWorld(nKeys())
	prior := uint64(verifrt.Choose("prior", 1<<uint(w.n)))
	p := w.withSigners(msgs[0], prior)
	cnt := 1 + verifrt.Choose("entries", 2)
	var offers []offer
	for j := 0; j < cnt; j++ {
		offers = append(offers, w.sparseOffer("e"))
	}
	w.checkMergeSparse("B1", p, msgs[0], offers)
	verifrt.Reach("B1-done")
}

// VH_C13_B2_MergeSparseHostileIDs: key ids of 0, 1 or 3 arbitrary bytes, and a sparse proof
// for another key set: refused, nothing changes, no panic.
func VH_C13_B2_MergeSparseHostileIDs() {
	w := newWorld(nKeys())
	prior := uint64(verifrt.Choose("prior", 1<<uint(w.n)))
	p := w.withSigners(msgs[0], prior)
	if verifrt.Choose("wrong-hash", 2) == 1 {
		var res gcrypto.SignatureProofMergeResult
		sp := gcrypto.SparseSignatureProof{PubKeyHash: "other", Signatures: []gcrypto.SparseSignature{{KeyID: []byte{0, 0}, Sig: w.honest(0, msgs[0])}}}
		if !verifrt.NoPanic("B2:merge-sparse-panics", func() { res = p.MergeSparse(sp) }) {
			return
		}
		verifrt.Reach("B2-wrong-hash")
		verifrt.Assert(w.checkBacked(p, msgs[0], "B2:after") == prior, "B2:wrong-key-hash-changes-bits")
		verifrt.Assert(flags(res) == 0, "B2:wrong-key-hash-flags-not-all-false")
		return
	}
	l := []int{0, 1, 3}[verifrt.Choose("len", 3)]
	o := offer{e: gcrypto.SparseSignature{KeyID: verifrt.Bytes("bad-id", l), Sig: w.honest(0, msgs[0])}}
	if w.checkMergeSparse("B2", p, msgs[0], []offer{o}) {
		verifrt.Reach("B2-malformed-id-handled")
	}
}

// VH_C13_B3_AddSignature: a member key, the aggregate of keys 0 and 1 (a key of the tree), a
// foreign BLS key or a key of another type; symbolic or malformed signature; arbitrary prior
// set. Accepted iff the key is in the tree and the signature verifies under it (equivalently
// equals the one held); the bits grow by exactly that node's keys; never a panic.
func VH_C13_B3_AddSignature() {
	w := newWorld(nKeys())
	prior := uint64(verifrt.Choose("prior", 1<<uint(w.n)))
	p := w.withSigners(msgs[0], prior)
	before := w.checkBacked(p, msgs[0], "B3:before")
	var key gcrypto.PubKey
	var leafs uint64
	kind := verifrt.Choose("key", w.n+3)
	switch {
	case kind < w.n:
		key, leafs = w.keys[kind], 1<<uint(kind)
	case kind == w.n:
		leafs = 3
		key = w.aggKey(3)
	case kind == w.n+1:
		f := newWorld(w.n + 1)
		key = f.keys[w.n]
	default:
		key = otherKey{}
	}
	sig := symSig("s")
	var err error
	if !verifrt.NoPanic("B3:add-signature-panics", func() { err = p.AddSignature(sig, key) }) {
		return
	}
	after := w.checkBacked(p, msgs[0], "B3:after")
	ok := leafs != 0 && key.Verify(msgs[0], sig)
	verifrt.Observe("B3", before, leafs, after, verifrt.B2U(ok), verifrt.B2U(err == nil))
	if ok {
		verifrt.Reach("B3-accepted")
		verifrt.Assert(err == nil, "B3:verifying-signature-of-a-tree-key-refused")
		verifrt.Assert(after == before|leafs, "B3:bits-grow-by-the-signers")
	} else {
		verifrt.Reach("B3-refused")
		verifrt.Assert(err != nil, "B3:non-verifying-or-foreign-signature-accepted")
		verifrt.Assert(after == before, "B3:refused-signature-changes-bits")
	}
}

type otherKey struct{}

func (otherKey) PubKeyBytes() []byte         { return []byte("other") }
func (otherKey) Equal(o gcrypto.PubKey) bool { _, ok := o.(otherKey); return ok }
func (otherKey) Verify(msg, sig []byte) bool { return true }
func (otherKey) TypeName() string            { return "other" }

// VH_C13_B4_Merge: two proofs over the same message with arbitrary honest signer sets (built
// leaf by leaf, or - other side - from a sparse proof that may carry an aggregate): union,
// flags, idempotence, the operand is untouched.
func VH_C13_B4_Merge() {
	w := newWorld(nKeys())
	a := uint64(verifrt.Choose("a", 1<<uint(w.n)))
	b := uint64(verifrt.Choose("b", 1<<uint(w.n)))
	p := w.withSigners(msgs[0], a)
	o := w.withSigners(msgs[0], b)
	var res gcrypto.SignatureProofMergeResult
	if !verifrt.NoPanic("B4:merge-panics", func() { res = p.Merge(o) }) {
		return
	}
	after := w.checkBacked(p, msgs[0], "B4:after")
	verifrt.Observe("B4", a, b, after, flags(res))
	verifrt.Assert(after == a|b, "B4:bits-are-union")
	verifrt.Assert(res.AllValidSignatures, "B4:honest-operand-reported-invalid")
	verifrt.Assert(res.IncreasedSignatures == (after != a), "B4:increased-iff-strict-growth")
	if a != 0 || b != 0 {
		verifrt.Assert(res.WasStrictSuperset == (b&a == a && b != a), "B4:strict-superset-flag")
	}
	verifrt.Assert(w.checkBacked(o, msgs[0], "B4:operand") == b, "B4:merge-changes-operand")
	res2 := p.Merge(o)
	verifrt.Assert(w.checkBacked(p, msgs[0], "B4:again") == after, "B4:second-merge-changes-bits")
	verifrt.Assert(!res2.IncreasedSignatures, "B4:second-merge-reports-increase")
	// a proof over another message or key hash is refused as a whole
	other := w.withSigners(msgs[1], b)
	res3 := p.Merge(other)
	verifrt.Assert(flags(res3) == 0, "B4:other-message-flags-not-all-false")
	verifrt.Assert(w.checkBacked(p, msgs[0], "B4:other") == after, "B4:other-message-changes-bits")
	verifrt.Reach("B4-done")
}

// VH_C13_B5_CloneDeriveSparseRebuild: a clone is independent of its origin in both
// directions, Derive is empty over the same keys, and a proof rebuilt from its own sparse
// form has the same signer set.
func VH_C13_B5_CloneDeriveSparseRebuild() {
	w := newWorld(nKeys())
	a := uint64(verifrt.Choose("a", 1<<uint(w.n)))
	p := w.withSigners(msgs[0], a)
	c := p.Clone()
	d := p.Derive()
	verifrt.Assert(w.checkBacked(c, msgs[0], "B5:clone") == a, "B5:clone-differs")
	verifrt.Assert(w.checkBacked(d, msgs[0], "B5:derive") == 0, "B5:derived-proof-not-empty")
	i := verifrt.Choose("add", w.n)
	if verifrt.Choose("to-clone", 2) == 1 {
		c.AddSignature(w.honest(i, msgs[0]), w.keys[i])
		verifrt.Assert(w.checkBacked(c, msgs[0], "B5:clone-after") == a|1<<uint(i), "B5:clone-add")
		verifrt.Assert(w.checkBacked(p, msgs[0], "B5:origin-after") == a, "B5:adding-to-clone-changes-origin")
	} else {
		p.AddSignature(w.honest(i, msgs[0]), w.keys[i])
		verifrt.Assert(w.checkBacked(p, msgs[0], "B5:origin-after") == a|1<<uint(i), "B5:origin-add")
		verifrt.Assert(w.checkBacked(c, msgs[0], "B5:clone-after") == a, "B5:adding-to-origin-changes-clone")
	}
	verifrt.Assert(w.checkBacked(d, msgs[0], "B5:derive-after") == 0, "B5:derived-proof-shares-signatures")
	// rebuild
	cur := w.bitsOf(p, "B5:cur")
	r := w.newProof(msgs[0])
	res := r.MergeSparse(p.AsSparse())
	verifrt.Assert(w.checkBacked(r, msgs[0], "B5:rebuilt") == cur, "B5:rebuilt-proof-signer-set")
	verifrt.Assert(res.AllValidSignatures, "B5:own-sparse-form-reported-invalid")
	verifrt.Reach("B5-done")
}

func hashMap(k int) map[string]string {
	m := map[string]string{}
	for j := 0; j < k; j++ {
		m[string(msgs[j])] = hashes[j]
	}
	return m
}

// VH_C13_B6_FinalizeRoundTrip: main proof (non-empty signer set) + 0..2 rest proofs over
// other messages with arbitrary non-empty signer sets. Finalize then ValidateFinalizedProof
// gives back exactly those sets keyed by block hash. A validator that signed two messages
// must be reported (allSignaturesUnique false), not crash the node.
func VH_C13_B6_FinalizeRoundTrip() {
	// 4 keys (5 in the thorough tier): the smallest size at which two rest proofs with
	// different signer counts fit beside the main proof, so that the order in which Finalize
	// and ValidateFinalizedProof walk the rest entries matters.
	nk := 4
	if verifrt.Thorough() {
		nk = 5
	}
	w := newWorld(nk)
	scheme := gblsminsig.SignatureProofScheme{}
	nrest := verifrt.Choose("rest", 3)
	sets := make([]uint64, 1+nrest)
	proofs := make([]gcrypto.CommonMessageSignatureProof, 1+nrest)
	var seen uint64
	disjoint := true
	for k := range sets {
		sets[k] = 1 + uint64(verifrt.Choose("signers", 1<<uint(w.n)-1))
		proofs[k] = w.withSigners(msgs[k], sets[k])
		if seen&sets[k] != 0 {
			disjoint = false
		}
		seen |= sets[k]
	}
	var fin gcrypto.FinalizedCommonMessageSignatureProof
	rest := append([]gcrypto.CommonMessageSignatureProof(nil), proofs[1:]...)
	if !disjoint {
		// a validator signed two of the messages (equivocation): the property wants it
		// reported by ValidateFinalizedProof, at the very least Finalize must not crash
		if verifrt.Panics(func() { fin = scheme.Finalize(proofs[0], rest) }) {
			verifrt.Fail("B6:double-signer:finalize-panics-instead-of-reporting-the-double-signer")
			return
		}
	} else if !verifrt.NoPanic("B6:finalize-panics", func() { fin = scheme.Finalize(proofs[0], rest) }) {
		return
	}
	verifrt.Assert(len(fin.MainSignatures) == 1, "B6:finalized-main-is-one-aggregate")
	verifrt.Assert(len(fin.Rest) == nrest, "B6:finalized-rest-count")
	var out map[string]*bitset.BitSet
	var unique bool
	if !verifrt.NoPanic("B6:validate-panics", func() { out, unique = scheme.ValidateFinalizedProof(fin, hashMap(1+nrest)) }) {
		return
	}
	verifrt.Observe("B6", verifrt.B2U(out != nil), verifrt.B2U(unique), verifrt.B2U(disjoint))
	verifrt.Assert(unique == disjoint, "B6:all-unique-iff-no-validator-signed-two-blocks")
	if disjoint {
		verifrt.Reach("B6-unique")
		verifrt.Assert(out != nil, "B6:valid-proof-refused")
		if out != nil {
			verifrt.Assert(len(out) == len(sets), "B6:number-of-blocks")
			for k, s := range sets {
				bs := out[hashes[k]]
				verifrt.Assert(bs != nil, "B6:block-missing-from-result")
				if bs != nil {
					verifrt.Assert(wordOf(bs, w.n, "B6") == s, "B6:signer-set-of-block-differs")
				}
			}
		}
	}
	for k := range proofs {
		verifrt.Assert(w.checkBacked(proofs[k], msgs[k], "B6:input") == sets[k], "B6:finalize-changes-input-proof")
	}
}

// hostileFinEntry: a finalized entry as a peer may send it: key id = 16-bit count k (symbolic)
// followed by 0..2 symbolic combination-index bytes, or shorter than 2 bytes; symbolic or
// malformed signature.
func hostileFinEntry(name string) gcrypto.SparseSignature {
	l := verifrt.Choose(name+"-idlen", 5) // 0,1: too short; 2,3,4: count + 0..2 index bytes
	return gcrypto.SparseSignature{KeyID: verifrt.Bytes(name+"-id", l), Sig: symSig(name)}
}

// VH_C13_B7_ValidateHostileFinalized: ValidateFinalizedProof on a finalized proof received
// from a peer (trusted keys; arbitrary main entry, optionally one arbitrary rest entry):
// returns (no panic, no endless loop); whatever it accepts is backed: each reported set is a
// set of real keys whose aggregate verifies the entry's signature for that message, and with
// allSignaturesUnique the sets are disjoint.
func VH_C13_B7_ValidateHostileFinalized() {
	w := newWorld(nKeys())
	scheme := gblsminsig.SignatureProofScheme{}
	fin := gcrypto.FinalizedCommonMessageSignatureProof{Keys: w.gkeys, PubKeyHash: pkh, MainMessage: msgs[0]}
	nm := verifrt.Choose("main-entries", 3)
	for j := 0; j < nm; j++ {
		if j == 0 {
			fin.MainSignatures = append(fin.MainSignatures, hostileFinEntry("main"))
		} else {
			fin.MainSignatures = append(fin.MainSignatures, gcrypto.SparseSignature{KeyID: []byte{0, 1}, Sig: w.honest(0, msgs[0])})
		}
	}
	hasRest := verifrt.Choose("rest", 2) == 1
	nh := 1
	if hasRest {
		nh = 2
		fin.Rest = map[string][]gcrypto.SparseSignature{string(msgs[1]): {hostileFinEntry("rest")}}
	}
	var out map[string]*bitset.BitSet
	var unique bool
	returned := false
	if !verifrt.NoPanic("B7:validate-panics", func() {
		returned = verifrt.MustReturn("B7:validate-does-not-return", func() { out, unique = scheme.ValidateFinalizedProof(fin, hashMap(nh)) })
	}) {
		return
	}
	if !returned {
		return
	}
	verifrt.Observe("B7", verifrt.B2U(out != nil), verifrt.B2U(unique))
	if out == nil {
		verifrt.Reach("B7-refused")
		verifrt.Assert(!unique, "B7:unique-flag-without-result")
		return
	}
	verifrt.Reach("B7-result")
	verifrt.Assert(nm == 1, "B7:accepted-with-other-than-one-main-entry")
	var seen uint64
	for k := 0; k < nh; k++ {
		bs := out[hashes[k]]
		if bs == nil {
			verifrt.Assert(k != 0 && !unique, "B7:block-missing-from-accepted-result")
			continue
		}
		s := wordOf(bs, w.n, "B7")
		var sig []byte
		if k == 0 {
			sig = fin.MainSignatures[0].Sig
		} else {
			sig = fin.Rest[string(msgs[1])][0].Sig
		}
		verifrt.Assert(s != 0, "B7:empty-signer-set-accepted")
		verifrt.Assert(w.aggKey(s).Verify(msgs[k], sig), "B7:reported-signers-do-not-verify-the-signature")
		if unique {
			verifrt.Assert(seen&s == 0, "B7:unique-although-sets-overlap")
		}
		seen |= s
	}
	if unique {
		verifrt.Reach("B7-unique")
	}
}
