package tmi

import (
	"github.com/gordian-engine/gordian/internal/verifrt"
	"github.com/gordian-engine/gordian/internal/verifrt/vkit"
	"github.com/gordian-engine/gordian/tm/tmconsensus"
)

// vhSameSet: identical keys (same order), identical powers, identical hashes.
func vhSameSet(a, b tmconsensus.ValidatorSet) bool {
	if len(a.Validators) != len(b.Validators) || len(a.PubKeys) != len(b.PubKeys) || len(a.PubKeys) != len(a.Validators) {
		return false
	}
	ok := string(a.PubKeyHash) == string(b.PubKeyHash) && string(a.VotePowerHash) == string(b.VotePowerHash)
	for i := range a.Validators {
		ok = verifrt.And(ok, a.Validators[i].Power == b.Validators[i].Power)
		ok = verifrt.And(ok, a.Validators[i].PubKey.Equal(b.Validators[i].PubKey))
		ok = verifrt.And(ok, a.PubKeys[i].Equal(b.PubKeys[i]))
	}
	return ok
}

func vhSumPow(vs tmconsensus.ValidatorSet) uint64 {
	var sum uint64
	for _, v := range vs.Validators {
		sum += v.Power
	}
	return sum
}

// VH_C07_CommitAdoptsNextSet: two heights are committed through the real kernel handlers;
// the application changes keys and powers at every height (three pairwise different sets with
// symbolic powers). After each commit the voting and next-round views use exactly the committed
// header's NextValidatorSet, and the committing view keeps the set it was voted with. A second
// proposed header of the same round carrying another next set does not influence the result.
func VH_C07_CommitAdoptsNextSet() {
	verifrt.Summarize("ByzantineThresholds")
	n := 2
	if verifrt.Thorough() {
		n = 3
	}
	e := vhNewEnv(n, vkit.Powers("p0", n), 1)
	all := 1<<uint(n) - 1
	v0 := e.vs
	v1 := vkit.ValSet(vkit.OkKeys(n+1)[1:], vkit.Powers("p1", n)) // keys 1,2
	if verifrt.Choose("next-set-keeps-the-keys", 2) == 1 {
		// same keys in the same order, other powers: only the power hash tells the sets apart
		v1 = vkit.ValSet(vkit.OkKeys(n), vkit.Powers("p1", n))
		verifrt.Reach("same-keys-other-powers")
	}
	v2 := vkit.ValSet(vkit.OkKeys(n+2)[2:], vkit.Powers("p2", n)) // keys 2,3
	vx := vkit.ValSet(vkit.OkKeys(n), vkit.Powers("px", n))       // decoy

	// height 1: A (next set v1) and the decoy B (next set vx); which arrives first is a choice
	a := e.linkedProposed("A", 1, 0, 0)
	a.Header.NextValidatorSet = v1
	b := e.linkedProposed("B", 1, 0, 1)
	b.Header.NextValidatorSet = vx
	if verifrt.Choose("order", 2) == 0 {
		e.k.addProposedHeader(e.ctx, e.s, a)
		e.k.addProposedHeader(e.ctx, e.s, b)
	} else {
		e.k.addProposedHeader(e.ctx, e.s, b)
		e.k.addProposedHeader(e.ctx, e.s, a)
	}
	e.k.addPrecommit(e.ctx, e.s, AddPrecommitRequest{H: 1, R: 0,
		PrecommitUpdates: map[string]VoteUpdate{"A": {Proof: e.voteProof(true, 1, 0, "A", all)}}, Response: make(chan AddVoteResult, 1)})
	verifrt.Assert(e.s.Committing.Height == 1 && string(e.s.CommittingHeader.Hash) == "A", "C07:setup-height-1-committed")
	verifrt.Reach("height-1-committed")
	verifrt.Assert(vhSameSet(e.s.Voting.ValidatorSet, v1), "C07:voting-set-is-committed-headers-next-set")
	verifrt.Assert(vhSameSet(e.s.NextRound.ValidatorSet, v1), "C07:next-round-set-is-committed-headers-next-set")
	verifrt.Assert(vhSameSet(e.s.Committing.ValidatorSet, v0), "C07:committing-view-keeps-its-set")
	verifrt.Assert(e.s.Voting.VoteSummary.AvailablePower == vhSumPow(v1), "C07:available-power-is-the-new-sets")
	verifrt.Assert(e.s.NextRound.VoteSummary.AvailablePower == vhSumPow(v1), "C07:next-round-available-power-is-the-new-sets")

	// height 2 is voted by v1: its validators sign, and the header prescribes v2
	e2 := *e
	e2.keys, e2.vs, e2.pows = v1.PubKeys, v1, tmconsensus.ValidatorsToVotePowers(v1.Validators)
	c := e2.linkedProposed("C", 2, 0, 0)
	c.Header.NextValidatorSet = v2
	e.k.addProposedHeader(e.ctx, e.s, c)
	e.k.addPrecommit(e.ctx, e.s, AddPrecommitRequest{H: 2, R: 0,
		PrecommitUpdates: map[string]VoteUpdate{"C": {Proof: e2.voteProof(true, 2, 0, "C", all)}}, Response: make(chan AddVoteResult, 1)})
	verifrt.Assert(e.s.Committing.Height == 2 && string(e.s.CommittingHeader.Hash) == "C", "C07:setup-height-2-committed")
	verifrt.Reach("height-2-committed")
	verifrt.Assert(vhSameSet(e.s.Voting.ValidatorSet, v2), "C07:voting-set-is-committed-headers-next-set")
	verifrt.Assert(vhSameSet(e.s.NextRound.ValidatorSet, v2), "C07:next-round-set-is-committed-headers-next-set")
	verifrt.Assert(vhSameSet(e.s.Committing.ValidatorSet, v1), "C07:committing-view-keeps-its-set")
	p2sum := vhSumPow(v2)
	verifrt.Assert(e.s.Voting.VoteSummary.AvailablePower == p2sum, "C07:available-power-is-the-new-sets")
	verifrt.Assert(e.s.NextRound.VoteSummary.AvailablePower == p2sum, "C07:next-round-available-power-is-the-new-sets")

	// after a nil round the sets stay
	e3 := *e
	e3.keys, e3.vs = v2.PubKeys, v2
	e.k.addPrecommit(e.ctx, e.s, AddPrecommitRequest{H: 3, R: 0,
		PrecommitUpdates: map[string]VoteUpdate{"": {Proof: e3.voteProof(true, 3, 0, "", all)}}, Response: make(chan AddVoteResult, 1)})
	verifrt.Assert(e.s.Voting.Height == 3 && e.s.Voting.Round == 1, "C07:setup-nil-round-advanced")
	verifrt.Reach("round-advanced")
	verifrt.Assert(vhSameSet(e.s.Voting.ValidatorSet, v2), "C07:set-survives-round-advance")
	verifrt.Assert(vhSameSet(e.s.NextRound.ValidatorSet, v2), "C07:set-survives-round-advance")
	verifrt.Assert(e.s.Voting.VoteSummary.AvailablePower == p2sum && e.s.NextRound.VoteSummary.AvailablePower == p2sum, "C07:available-power-survives-round-advance")
}
