package tmmirror

import (
	"github.com/gordian-engine/gordian/gcrypto"
	"github.com/gordian-engine/gordian/internal/verifrt"
	"github.com/gordian-engine/gordian/internal/verifrt/vkit"
	"github.com/gordian-engine/gordian/tm/tmconsensus"
)

// vhListsMatchHashes: the set's lists hash to the hashes it carries, and PubKeys is the key
// column of Validators.
func vhListsMatchHashes(hs vkit.HashScheme, vs tmconsensus.ValidatorSet) bool {
	if len(vs.PubKeys) != len(vs.Validators) {
		return false
	}
	for i := range vs.Validators {
		if !vs.PubKeys[i].Equal(vs.Validators[i].PubKey) {
			return false
		}
	}
	kh, _ := hs.PubKeys(tmconsensus.ValidatorsToPubKeys(vs.Validators))
	ph, _ := hs.VotePowers(tmconsensus.ValidatorsToVotePowers(vs.Validators))
	return string(kh) == string(vs.PubKeyHash) && string(ph) == string(vs.VotePowerHash)
}

// VH_C07_ForgedValidatorLists: a proposed header whose validator LISTS were altered in
// transit while its hashes, block hash and signature stay valid (the block hash covers the
// validator hashes, not the lists). The forged copy arrives before or after the original;
// then the block is committed by valid precommits. The set the node adopts for the next height
// must be the one whose contents match the hashes covered by the committed block hash.
func VH_C07_ForgedValidatorLists() {
	n := 2
	hs := vkit.HashScheme{PowerSensitive: true}
	keys := vkit.Keys(0, n)
	e := vhNewMirrorHS(keys, []uint64{1, 1}, 1, hs)

	next := vkit.ValSetHS(vkit.Keys(1, n), []uint64{2, 3}, hs) // what the chain prescribes for height 2
	if verifrt.Choose("next-set-unchanged", 2) == 1 {
		// the usual case: the header carries the current set forward (same hashes twice)
		next = e.vs
		verifrt.Reach("next-set-is-the-current-set")
	}
	orig := tmconsensus.ProposedHeader{
		Header: tmconsensus.Header{
			Hash: []byte("A"), PrevBlockHash: []byte("g"), Height: 1,
			ValidatorSet: e.vs, NextValidatorSet: next, DataID: []byte("d"),
			PrevCommitProof: tmconsensus.CommitProof{Proofs: map[string][]gcrypto.SparseSignature{}},
		},
		Round: 0, ProposerPubKey: keys[0], Signature: []byte("ps"),
	}
	// the forgery: same hashes, block hash and signature; one list altered
	forged := orig
	switch verifrt.Choose("forgery", 4) {
	case 0: // next set: a power raised
		f := next
		f.Validators = []tmconsensus.Validator{{PubKey: next.Validators[0].PubKey, Power: 200}, next.Validators[1]}
		forged.Header.NextValidatorSet = f
	case 1: // next set: a key replaced by the attacker's
		f := next
		evil := vkit.SymKey{Set: 6, ID: 6}
		f.Validators = []tmconsensus.Validator{{PubKey: evil, Power: next.Validators[0].Power}, next.Validators[1]}
		f.PubKeys = []gcrypto.PubKey{evil, next.PubKeys[1]}
		forged.Header.NextValidatorSet = f
	case 2: // current set: powers altered
		f := e.vs
		f.Validators = []tmconsensus.Validator{{PubKey: keys[0], Power: 100}, e.vs.Validators[1]}
		forged.Header.ValidatorSet = f
	default: // next set: PubKeys column differs from Validators column
		f := next
		f.PubKeys = []gcrypto.PubKey{next.PubKeys[1], next.PubKeys[0]}
		forged.Header.NextValidatorSet = f
	}
	// block hash and proposer signature are valid for both (they do not cover the lists)
	verifrt.Assume(verifrt.UFBool("hashok", vkit.Pack([]byte("A")), 1))
	verifrt.Assume(keys[0].Verify([]byte{'P', 0, 1, 0, 'A'}, []byte("ps")))

	forgedFirst := verifrt.Choose("forged-first", 2) == 0
	var rf, ro tmconsensus.HandleProposedHeaderResult
	if forgedFirst {
		rf = e.m.HandleProposedHeader(e.ctx, forged)
		ro = e.m.HandleProposedHeader(e.ctx, orig)
	} else {
		ro = e.m.HandleProposedHeader(e.ctx, orig)
		rf = e.m.HandleProposedHeader(e.ctx, forged)
	}
	verifrt.Reach("headers-delivered")
	verifrt.Observe("results", uint64(rf), uint64(ro))
	verifrt.Assert(rf != tmconsensus.HandleProposedHeaderAccepted, "C07:forged-validator-lists-not-accepted")

	// commit A with valid precommits from both validators
	var sigs []gcrypto.SparseSignature
	for i := 0; i < n; i++ {
		sig := vkit.Sig(byte(i), 3)
		verifrt.Assume(keys[i].Verify(vkit.PrecommitContent(1, 0, "A"), sig))
		sigs = append(sigs, gcrypto.SparseSignature{KeyID: vkit.KeyID(i), Sig: sig})
	}
	res := e.m.HandlePrecommitProofs(e.ctx, tmconsensus.PrecommitSparseProof{Height: 1, Round: 0, PubKeyHash: string(e.vs.PubKeyHash),
		Proofs: map[string][]gcrypto.SparseSignature{"A": sigs}})
	verifrt.Assert(res == tmconsensus.HandleVoteProofsAccepted, "C07:setup-precommits-accepted")
	var v tmconsensus.VersionedRoundView
	verifrt.Assert(e.m.VotingView(e.ctx, &v) == nil, "C07:kernel-serves")
	if v.Height == 2 {
		verifrt.Reach("committed")
		verifrt.Assert(vhListsMatchHashes(hs, v.ValidatorSet), "C07:adopted-set-matches-its-hashes")
		verifrt.Assert(string(v.ValidatorSet.PubKeyHash) == string(next.PubKeyHash) && string(v.ValidatorSet.VotePowerHash) == string(next.VotePowerHash),
			"C07:adopted-set-is-the-committed-headers-next-set")
	}
}
