package tmstate

// C07, state-machine half: "the set the state machine proposes and votes with at h+2 is exactly
// what the driver returned when finalizing h". The shared state-machine kit (real handlers,
// harness mirror / strategy / driver / timer) is driven through up to four heights; the driver
// returns a set of its choice at every finalization (same keys, other powers; a set with a
// third validator; a set without the local validator) and the mirror shows, for every height,
// the sets the property prescribes. After every event: a stored finalization carries exactly
// the driver's set for that height; the lifecycle's current and next set are the prescribed
// ones (they are what the state machine filters proposed headers by, decides participation
// with and writes into its own proposals); every proposed header it signed names them. A
// process death after any height followed by a restart on the same stores is one of the choices.

import (
	"github.com/gordian-engine/gordian/internal/verifrt"
	"github.com/gordian-engine/gordian/internal/verifrt/vkit"
	"github.com/gordian-engine/gordian/tm/tmconsensus"
)

func vhC07Sets(e *vhSM) []tmconsensus.ValidatorSet {
	k3 := vkit.OkKeys(3)
	return []tmconsensus.ValidatorSet{
		e.vs, // the genesis set (powers 1,1)
		vkit.ValSet(e.keys, []uint64{2, 1}),
		vkit.ValSet(k3, []uint64{1, 1, 1}),
		vkit.ValSet(k3[1:], []uint64{1, 1}), // without the local validator
	}
}

func (e *vhSM) checkC07Sets(tag string) {
	// what is stored for a height is what the driver returned for it
	for h, want := range e.drv {
		if _, _, got, _, err := e.fs.LoadFinalizationByHeight(e.ctx, h); err == nil {
			verifrt.Assert(got.Equal(want), "C07:sm:"+tag+":stored-finalization-carries-the-drivers-set")
		}
	}
	if !e.alive || !e.haveCur {
		return
	}
	h := e.cur.h
	verifrt.Assert(e.rlc.CurValSet.Equal(e.valSetAt(h)), "C07:sm:"+tag+":current-set-is-what-the-driver-returned-two-heights-before")
	if !e.rlc.IsReplaying() {
		verifrt.Assert(e.rlc.PrevFinNextValSet.Equal(e.nextValSetAt(h)), "C07:sm:"+tag+":next-set-is-what-the-driver-returned-one-height-before")
	}
	// proposals the local validator signed
	for _, sv := range e.saves {
		if sv.kind != 'P' || !sv.ok {
			continue
		}
		ra, err := e.as.ActionStore.LoadActions(e.ctx, sv.hr.h, sv.hr.r)
		if err != nil || ra.ProposedHeader.Header.Height == 0 {
			continue
		}
		hd := ra.ProposedHeader.Header
		verifrt.Assert(hd.ValidatorSet.Equal(e.valSetAt(hd.Height)), "C07:sm:"+tag+":own-proposal-names-the-prescribed-set")
		verifrt.Assert(hd.NextValidatorSet.Equal(e.nextValSetAt(hd.Height)), "C07:sm:"+tag+":own-proposal-names-the-prescribed-next-set")
	}
}

// oneHeight: a view with new precommit numbers (paths on which it does not lead to a finalize
// request are dropped: C08 explores them), the driver's answer, the commit-wait timer.
func (e *vhSM) c07OneHeight() bool {
	h := e.cur.h
	before := len(e.finReqs)
	e.run(chkC08, []int{evViewPC}, 1)
	e.checkC07Sets("after-view")
	if !e.alive || len(e.finReqs) == before {
		return false
	}
	e.run(chkC08, []int{evFinalization}, 1)
	e.checkC07Sets("after-finalization")
	if !e.alive {
		return false
	}
	if e.cur.h == h {
		e.run(chkC08, []int{evTimer}, 1)
		e.checkC07Sets("after-commit-wait")
	}
	return e.alive && e.cur.h == h+1
}

// VH_C07_SM_SetsFollowTheDriver: heights 1..3 (quick) / 1..4 (thorough) are committed one
// after the other; the driver's set at each finalization is a free choice among four.
func VH_C07_SM_SetsFollowTheDriver() {
	vhOpts()
	e := vhNewSM(true)
	e.symEntrances = 0
	e.laterEntrancePHs = true
	e.proposalAnyHeight = true
	sets := vhC07Sets(e)
	e.finChoice = func(h uint64) tmconsensus.ValidatorSet {
		return sets[verifrt.Choose("drivers-set", len(sets))]
	}
	if !e.start() {
		return
	}
	e.checkC07Sets("start")
	heights := 3
	if verifrt.Thorough() {
		heights = 4
	}
	dieAfter := verifrt.Choose("process-dies-after-height", heights+1) // heights: never
	for i := 0; i < heights; i++ {
		if !e.c07OneHeight() {
			return
		}
		if i == dieAfter {
			if !e.restart() {
				return
			}
			verifrt.Reach("C07-sm:restarted-on-the-same-stores")
			e.check(chkC08)
			e.checkC07Sets("after-restart")
		}
	}
	verifrt.Reach("C07-sm:reached-the-height-that-uses-a-set-the-driver-returned")
	if len(e.drv) >= 2 {
		a, b := e.drv[1], e.drv[2]
		if !a.Equal(e.vs) && a.Equal(b) {
			verifrt.Reach("C07-sm:driver-returned-the-same-changed-set-twice")
		}
	}
	// the strategy proposes at this height: the header the state machine builds and signs
	nsaves := len(e.saves)
	e.run(chkC08, []int{evProposal}, 1)
	e.checkC07Sets("after-proposal")
	if len(e.saves) > nsaves {
		verifrt.Reach("C07-sm:own-proposal-above-the-initial-height")
	}
	e.finish()
}
