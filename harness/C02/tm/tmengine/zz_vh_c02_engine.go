package tmengine

// C02 end to end: a complete *validating* engine (tmengine.New with a signer; mirror kernel,
// state machine kernel, consensus manager from source) takes part in height 1 round 0: a
// peer's proposed header A arrives, the harness strategy prevotes A, the other validators'
// prevotes arrive, the strategy precommits A, the other precommits arrive. The process stops
// after one of these stages and a second engine is built on the same stores with the same
// signer and gets everything again. Over both lives the local key signs at most one prevote
// and one precommit for (1,0), for the hash the strategy chose; and whenever a view handed to
// the gossip strategy carries a signature of the local key, the action store already records
// exactly that signature.

import (
	"context"

	"github.com/gordian-engine/gordian/gcrypto"
	"github.com/gordian-engine/gordian/internal/verifrt"
	"github.com/gordian-engine/gordian/internal/verifrt/vkit"
	"github.com/gordian-engine/gordian/tm/tmconsensus"
	"github.com/gordian-engine/gordian/tm/tmengine/tmelink"
)

type vhE3Sign struct {
	kind byte
	h    uint64
	r    uint32
	hash string
	sig  string
}

type vhE3Signer struct {
	key   gcrypto.PubKey
	calls *[]vhE3Sign
}

func (s vhE3Signer) sign(kind byte, vt tmconsensus.VoteTarget) []byte {
	sig := []byte{'S', kind, byte('a' + len(*s.calls))}
	*s.calls = append(*s.calls, vhE3Sign{kind, vt.Height, vt.Round, vt.BlockHash, string(sig)})
	return sig
}
func (s vhE3Signer) Prevote(ctx context.Context, vt tmconsensus.VoteTarget) ([]byte, []byte, error) {
	return vkit.PrevoteContent(vt.Height, vt.Round, vt.BlockHash), s.sign('V', vt), nil
}
func (s vhE3Signer) Precommit(ctx context.Context, vt tmconsensus.VoteTarget) ([]byte, []byte, error) {
	return vkit.PrecommitContent(vt.Height, vt.Round, vt.BlockHash), s.sign('C', vt), nil
}
func (s vhE3Signer) SignProposedHeader(ctx context.Context, ph *tmconsensus.ProposedHeader) error {
	ph.Signature = s.sign('P', tmconsensus.VoteTarget{Height: ph.Header.Height, Round: ph.Round, BlockHash: string(ph.Header.Hash)})
	return nil
}
func (s vhE3Signer) PubKey() gcrypto.PubKey { return s.key }

// vhE3CS prevotes the first proposed header it is shown and precommits the most prevoted block.
type vhE3CS struct{}

func (vhE3CS) EnterRound(context.Context, tmconsensus.RoundView, chan<- tmconsensus.Proposal) error {
	return nil
}
func (vhE3CS) ConsiderProposedBlocks(_ context.Context, phs []tmconsensus.ProposedHeader, _ tmconsensus.ConsiderProposedBlocksReason) (string, error) {
	if len(phs) == 0 {
		return "", tmconsensus.ErrProposedBlockChoiceNotReady
	}
	return string(phs[0].Header.Hash), nil
}
func (vhE3CS) ChooseProposedBlock(_ context.Context, phs []tmconsensus.ProposedHeader) (string, error) {
	if len(phs) == 0 {
		return "", nil
	}
	return string(phs[0].Header.Hash), nil
}
func (vhE3CS) DecidePrecommit(_ context.Context, vs tmconsensus.VoteSummary) (string, error) {
	return vs.MostVotedPrevoteHash, nil
}

// vhE3GS checks every view handed to gossip: a signature of the local key (key id 0) in it is
// already in the action store.
type vhE3GS struct {
	st   *vhEngStores
	seen *int
}

func (g vhE3GS) Start(ch <-chan tmelink.NetworkViewUpdate) {
	go func() {
		for u := range ch {
			for _, v := range []*tmconsensus.VersionedRoundView{u.Committing, u.Voting, u.NextRound, u.NilVotedRound} {
				if v != nil {
					g.check(v)
				}
			}
		}
	}()
}
func (g vhE3GS) Wait() {}

func (g vhE3GS) check(v *tmconsensus.VersionedRoundView) {
	own := func(proofs map[string]gcrypto.CommonMessageSignatureProof) (string, string, bool) {
		for hash, p := range proofs {
			for _, sg := range p.AsSparse().Signatures {
				if len(sg.KeyID) == 2 && sg.KeyID[0] == 0 && sg.KeyID[1] == 0 {
					return hash, string(sg.Sig), true
				}
			}
		}
		return "", "", false
	}
	ra, err := g.st.as.LoadActions(context.Background(), v.Height, v.Round)
	if hash, sig, ok := own(v.PrevoteProofs); ok {
		*g.seen++
		verifrt.Assert(err == nil && ra.PrevoteSignature == sig && ra.PrevoteTarget == hash, "E3:own-prevote-released-to-gossip-before-it-was-recorded")
	}
	if hash, sig, ok := own(v.PrecommitProofs); ok {
		*g.seen++
		verifrt.Assert(err == nil && ra.PrecommitSignature == sig && ra.PrecommitTarget == hash, "E3:own-precommit-released-to-gossip-before-it-was-recorded")
	}
}

func VH_C02_E3_EngineSignsOncePerRound() {
	verifrt.Summarize("ByzantineThresholds")
	verifrt.Summarize("SMQuietSendGuardTimers") // stated assumption, as in the state-machine kit
	const n = 3
	keys := vkit.OkKeys(n)
	pows := vkit.Powers("power", n)
	vs := vkit.ValSet(keys, pows)
	st := vhNewEngStores()
	var calls []vhE3Sign
	signer := vhE3Signer{key: keys[0], calls: &calls}
	seen := 0
	verifrt.Assume(verifrt.UFBool("hashok", vkit.Pack([]byte("A")), 1))
	phA := tmconsensus.ProposedHeader{
		Header: tmconsensus.Header{Hash: []byte("A"), PrevBlockHash: []byte("g"), Height: 1,
			ValidatorSet: vs, NextValidatorSet: vs, DataID: []byte("d"), PrevAppStateHash: []byte("app"),
			PrevCommitProof: tmconsensus.CommitProof{Proofs: map[string][]gcrypto.SparseSignature{}}},
		Round: 0, ProposerPubKey: keys[1], Signature: []byte("psA"),
	}
	others := func(tag byte) []gcrypto.SparseSignature {
		return []gcrypto.SparseSignature{{KeyID: vkit.KeyID(1), Sig: []byte{tag, 1}}, {KeyID: vkit.KeyID(2), Sig: []byte{tag, 2}}}
	}
	pkh := string(vs.PubKeyHash)
	deliver := func(l *vhEngLife, upTo int) {
		if upTo >= 1 {
			l.e.HandleProposedHeader(l.ctx, phA)
			vhSettle()
		}
		if upTo >= 2 {
			l.e.HandlePrevoteProofs(l.ctx, tmconsensus.PrevoteSparseProof{Height: 1, Round: 0, PubKeyHash: pkh,
				Proofs: map[string][]gcrypto.SparseSignature{"A": others('v')}})
			vhSettle()
		}
		if upTo >= 3 {
			l.e.HandlePrecommitProofs(l.ctx, tmconsensus.PrecommitSparseProof{Height: 1, Round: 0, PubKeyHash: pkh,
				Proofs: map[string][]gcrypto.SparseSignature{"A": others('c')}})
			vhSettle()
		}
	}
	l1, err := vhStartEngineWith(st, vs, vhE3CS{}, vhE3GS{st: st, seen: &seen}, signer)
	if err != nil || l1 == nil {
		verifrt.Fail("E3:first-life-does-not-start")
		return
	}
	stage := 1 + verifrt.Choose("process-stops-after-stage", 3)
	deliver(l1, stage)
	if !l1.stop("E3:first-life-does-not-shut-down") {
		return
	}
	verifrt.Reach("E3-first-life-stopped")
	l2, err := vhStartEngineWith(st, vs, vhE3CS{}, vhE3GS{st: st, seen: &seen}, signer)
	if err != nil || l2 == nil {
		verifrt.Fail("E3:restart-on-the-same-stores-fails")
		return
	}
	deliver(l2, 3)
	if req, ok := vhE1Poll(l2.finCh); ok {
		verifrt.Reach("E3-driver-asked-to-finalize")
		verifrt.Assert(string(req.Header.Hash) == "A", "E3:finalize-request-for-another-block")
	}
	var nV, nC, nP int
	for _, c := range calls {
		verifrt.Assert(c.h == 1 && c.r == 0, "E3:signature-for-another-round-than-the-one-it-is-in")
		verifrt.Assert(c.hash == "A", "E3:signed-target-not-the-strategys-choice")
		switch c.kind {
		case 'V':
			nV++
		case 'C':
			nC++
		default:
			nP++
		}
	}
	verifrt.Observe("E3", uint64(stage), uint64(nV), uint64(nC), uint64(nP), verifrt.B2U(seen > 0))
	verifrt.Assert(nV <= 1, "E3:at-most-one-prevote-signed-per-round-over-both-lives")
	verifrt.Assert(nC <= 1, "E3:at-most-one-precommit-signed-per-round-over-both-lives")
	verifrt.Assert(nP == 0, "E3:proposal-signed-without-a-proposal-from-the-strategy")
	if nV == 1 && nC == 1 {
		verifrt.Reach("E3-prevote-and-precommit-signed-once")
	}
	if seen > 0 {
		verifrt.Reach("E3-own-signature-seen-by-gossip")
	}
	l2.stop("E3:second-life-does-not-shut-down")
}
