package tmstate

// C02: the local validator never signs two proposals or votes in one round, and every
// signature is recorded in the action store before it is released to the mirror.
// Oracles: chkC02Sign (recording signer: at most one Sign* per kind per round, over the
// whole history including restarts) and chkC02Save (every released action was preceded
// by its successful Save*Action; all releases of one kind in a round carry one signature).

import (
	"github.com/gordian-engine/gordian/internal/verifrt"
)

const vhC02 = chkC02Sign | chkC02Save

// VH_C02_Seq: one process life. Height 1 round 0 entered with no votes yet (0/1 header),
// then 3 events of any kind (thorough: plus 1 event without new vote numbers): view updates, timeouts, strategy
// answers (any hash, late, duplicate), proposal, block data, finalization, jump-ahead.
// At most one of the events is a view update with new vote numbers.
func VH_C02_Seq() {
	vhOpts()
	e := vhNewSM(true)
	e.symEntrances = 0
	e.viewsLeft = 1
	if !e.start() {
		return
	}
	e.check(vhC02)
	e.run(vhC02, vhEvents(), 3)
	if verifrt.Thorough() && e.alive {
		// (a 4th event of any kind did not finish within the thorough budget: 203846 paths in
		// 1500 s; the 4th event is one that brings no new vote numbers)
		e.run(vhC02, vhTailEvents, 1)
	}
	if e.seen&vhSeenVoteReleased != 0 {
		verifrt.Reach("C02-seq:vote-released")
	}
	if e.seen&vhSeenProposalReleased != 0 {
		verifrt.Reach("C02-seq:proposal-released")
	}
	e.finish()
}

// VH_C02_StartAny: start-up answered with an arbitrary view, then 2 events (thorough: plus 1
// event without new vote numbers), at most one with new vote numbers (precommit answers in rounds entered late).
func VH_C02_StartAny() {
	vhOpts()
	e := vhNewSM(true)
	e.viewsLeft = 1
	if !e.start() {
		return
	}
	e.check(vhC02)
	e.run(vhC02, vhEvents(), 2)
	if verifrt.Thorough() && e.alive {
		// (3 events of any kind: 139740 paths in 1500 s without finishing; reduced)
		e.run(vhC02, vhTailEvents, 1)
	}
	if e.seen&vhSeenVoteReleased != 0 {
		verifrt.Reach("C02-start:vote-released")
	}
	e.finish()
}

// vhRestartRun: up to k1 events, then the process dies - either between two events or
// inside the last one right after the action-store save and before the release - and
// comes up again through the real initializeRLC on the same stores (the harness mirror
// answers the round entrance; its view may or may not contain the node's own proposed
// header); then up to k2 more events. The obligations span the whole history.
func vhRestartRun(tag string, kinds []int) *vhSM {
	vhOpts()
	e := vhNewSM(true)
	e.symEntrances = 0
	e.ownPHInRestart = true
	e.viewsLeft = 1 // per process life
	if !e.start() {
		return nil
	}
	e.check(vhC02)
	k := 2
	if verifrt.Thorough() {
		k = 3 // events after the restart
	}
	k1 := 1 + verifrt.Choose("events-before-restart", 2)
	midSave := verifrt.Choose("killed-right-after-save", 2) == 1
	for i := 0; i < k1; i++ {
		if midSave && i == k1-1 {
			e.crashOnSave = true
		}
		ok := e.step(kinds)
		e.check(vhC02)
		if e.crashed {
			break
		}
		if !ok {
			return nil
		}
	}
	if midSave && !e.crashed {
		return nil // the last event saved nothing: same as the other case
	}
	if len(e.signs) == 0 {
		return nil // nothing signed in the first life: the restart is a fresh start (VH_C02_Seq)
	}
	e.crashOnSave, e.crashed = false, false
	e.viewsLeft = 1
	if verifrt.Thorough() && tag == "precommit" {
		// the mirror kept collecting votes while the process was down: the view the
		// restarted state machine is given carries arbitrary vote numbers
		e.symEntrances = verifrt.Choose("restart-view-has-votes", 2)
	}
	withVotes := e.symEntrances > 0
	if !e.restart() {
		return nil
	}
	e.check(vhC02)
	if withVotes {
		// (3 more events after a restart view with arbitrary vote numbers did not finish within
		// the thorough budget: 73200 paths in 1500 s; reduced to 1)
		k = 1
	}
	e.run(vhC02, kinds, k)
	return e
}

// VH_C02_RestartProposal: proposal family of events.
func VH_C02_RestartProposal() {
	e := vhRestartRun("proposal", []int{evProposal, evHeader, evTimer, evViewPV})
	if e == nil {
		return
	}
	if e.seen&vhSeenProposalReleased != 0 {
		verifrt.Reach("C02-restart-proposal:released")
	}
	e.finish()
}

// VH_C02_RestartPrevote: prevote family of events.
func VH_C02_RestartPrevote() {
	e := vhRestartRun("prevote", []int{evHeader, evTimer, evPrevoteAnswer, evBlockData})
	if e == nil {
		return
	}
	verifrt.Reach("C02-restart-prevote:continued")
	e.finish()
}

// VH_C02_RestartPrecommit: precommit family of events.
func VH_C02_RestartPrecommit() {
	e := vhRestartRun("precommit", []int{evViewPC, evPrecommitAnswer, evTimer})
	if e == nil {
		return
	}
	verifrt.Reach("C02-restart-precommit:continued")
	e.finish()
}

// VH_C02_RestartLateProposal: a scripted history across the three kinds of action in one round.
// The proposal timer elapses and the prevote is recorded and released; the strategy's own
// proposal arrives late in the same round and is recorded too (optionally the precommit after a
// prevote-delay path is skipped: the script stays in round 0); the process dies; the new process
// resumes the round, its proposal timer elapses again and the strategy answers again with any
// hash. Every record of the round has to survive the later saves, so nothing is signed twice.
func VH_C02_RestartLateProposal() {
	vhOpts()
	e := vhNewSM(true)
	e.symEntrances = 0
	e.entrancePHs = 0
	e.ownPHInRestart = true
	e.viewsLeft = 0
	if !e.start() {
		return
	}
	e.check(vhC02)
	script := []int{evTimer, evPrevoteAnswer, evProposal}
	if verifrt.Choose("proposal-before-prevote", 2) == 1 {
		script = []int{evProposal, evTimer, evPrevoteAnswer}
	}
	for _, k := range script {
		if !e.step([]int{k}) {
			return
		}
		e.check(vhC02)
	}
	verifrt.Reach("C02-late-proposal:prevote-and-proposal-recorded")
	if !e.restart() {
		return
	}
	e.check(vhC02)
	for _, k := range []int{evTimer, evPrevoteAnswer, evProposal} {
		if !e.step([]int{k}) {
			break
		}
		e.check(vhC02)
	}
	verifrt.Reach("C02-late-proposal:second-life-ran")
	e.finish()
}
