package tmp2ptest

// C20, in-memory connections: the real DaisyChainNetwork kernel and the real background
// goroutines of three connections A - B - C. A (or C) publishes one consensus message; B's
// handler is absent, installed before, or installed/replaced/cleared while the message is under
// way (every schedule at channel operations); its verdict is a symbolic byte. The far end may
// see the message only if B's handler was consulted and answered FeedbackAccepted.

import (
	"context"
	"sync"
	"time"

	"github.com/gordian-engine/gordian/gexchange"
	"github.com/gordian-engine/gordian/internal/verifrt"
	"github.com/gordian-engine/gordian/tm/tmconsensus"
)

type vhDCHandler struct {
	name    string
	verdict gexchange.Feedback
	calls   *[]string
}

var vhDCMu sync.Mutex

func (h vhDCHandler) note(kind string) gexchange.Feedback {
	vhDCMu.Lock()
	*h.calls = append(*h.calls, h.name+":"+kind)
	vhDCMu.Unlock()
	return h.verdict
}
func (h vhDCHandler) HandleProposedHeader(context.Context, tmconsensus.ProposedHeader) gexchange.Feedback {
	return h.note("ph")
}
func (h vhDCHandler) HandlePrevoteProofs(context.Context, tmconsensus.PrevoteSparseProof) gexchange.Feedback {
	return h.note("pv")
}
func (h vhDCHandler) HandlePrecommitProofs(context.Context, tmconsensus.PrecommitSparseProof) gexchange.Feedback {
	return h.note("pc")
}

func vhDCCount(calls []string, prefix string) int {
	n := 0
	for _, c := range calls {
		if len(c) >= len(prefix) && c[:len(prefix)] == prefix {
			n++
		}
	}
	return n
}

func VH_C20_DaisyChain() {
	ctx, cancel := context.WithCancel(context.Background())
	n := &DaisyChainNetwork{
		log:             verifrt.Logger(),
		newConnRequests: make(chan dcConnectRequest),
		done:            make(chan struct{}),
	}
	go n.kernel(ctx)
	a, _ := n.Connect(ctx)
	b, _ := n.Connect(ctx)
	c, _ := n.Connect(ctx)

	var calls []string
	far := vhDCHandler{name: "far", verdict: gexchange.FeedbackAccepted, calls: &calls}
	src, dst := a, c
	if verifrt.Choose("direction", 2) == 1 {
		src, dst = c, a
	}
	dst.SetConsensusHandler(ctx, far)

	// B's verdicts: arbitrary bytes (defined values and out-of-range ones)
	v1 := gexchange.Feedback(verifrt.U8("verdict-1"))
	v2 := gexchange.Feedback(verifrt.U8("verdict-2"))
	h1 := vhDCHandler{name: "b1", verdict: v1, calls: &calls}
	h2 := vhDCHandler{name: "b2", verdict: v2, calls: &calls}

	send := func() {
		switch verifrt.Choose("message", 3) {
		case 0:
			src.ConsensusBroadcaster().OutgoingProposedHeaders() <- tmconsensus.ProposedHeader{Round: 3}
		case 1:
			src.ConsensusBroadcaster().OutgoingPrevoteProofs() <- tmconsensus.PrevoteSparseProof{Height: 4}
		default:
			src.ConsensusBroadcaster().OutgoingPrecommitProofs() <- tmconsensus.PrecommitSparseProof{Height: 5}
		}
	}

	mode := verifrt.Choose("b-handler", 7)
	switch mode {
	case 0: // never installed
		verifrt.Reach("daisy:no-handler")
		send()
	case 1: // installed before the message
		b.SetConsensusHandler(ctx, h1)
		verifrt.Reach("daisy:handler-installed-before")
		send()
	case 2: // installed while the message is under way
		verifrt.SchedNondet(true, 1)
		done := make(chan struct{})
		go func() { send(); close(done) }()
		b.SetConsensusHandler(ctx, h1)
		<-done
		verifrt.SchedNondet(false, 0)
		verifrt.Reach("daisy:handler-installed-concurrently")
	case 3: // replaced while the message is under way
		b.SetConsensusHandler(ctx, h1)
		verifrt.SchedNondet(true, 1)
		done := make(chan struct{})
		go func() { send(); close(done) }()
		b.SetConsensusHandler(ctx, h2)
		<-done
		verifrt.SchedNondet(false, 0)
		verifrt.Reach("daisy:handler-replaced-concurrently")
	case 4: // cleared while the message is under way
		b.SetConsensusHandler(ctx, h1)
		verifrt.SchedNondet(true, 1)
		done := make(chan struct{})
		go func() { send(); close(done) }()
		b.SetConsensusHandler(ctx, nil)
		<-done
		verifrt.SchedNondet(false, 0)
		verifrt.Reach("daisy:handler-cleared-concurrently")
	case 5: // installed, then cleared; the message comes afterwards
		b.SetConsensusHandler(ctx, h1)
		b.SetConsensusHandler(ctx, nil)
		verifrt.Reach("daisy:handler-cleared-before")
		send()
	case 6: // installed, then replaced; the message comes afterwards
		b.SetConsensusHandler(ctx, h1)
		b.SetConsensusHandler(ctx, h2)
		verifrt.Reach("daisy:handler-replaced-before")
		send()
	}

	// let the chain settle: a request/response with every connection's goroutine in turn makes
	// each of them finish what it was doing (their loops are sequential)
	for i := 0; i < 3; i++ {
		a.SetConsensusHandler(ctx, nil)
		b.SetConsensusHandler(ctx, nil)
		if dst == c {
			c.SetConsensusHandler(ctx, far)
		} else {
			c.SetConsensusHandler(ctx, nil)
		}
		if dst == a {
			a.SetConsensusHandler(ctx, far)
		}
	}

	if !verifrt.Symbolic() {
		// natively the connection goroutines run on their own: give the message time to travel
		time.Sleep(150 * time.Millisecond)
	}
	vhDCMu.Lock()
	defer vhDCMu.Unlock()
	seenFar := vhDCCount(calls, "far:")
	n1, n2 := vhDCCount(calls, "b1:"), vhDCCount(calls, "b2:")
	verifrt.Observe("daisy", uint64(mode), uint64(seenFar), uint64(n1), uint64(n2), uint64(v1), uint64(v2))
	accepted := (n1 >= 1 && v1 == gexchange.FeedbackAccepted) || (n2 >= 1 && v2 == gexchange.FeedbackAccepted)
	verifrt.Assert(verifrt.Implies(seenFar > 0, accepted), "D:relayed-only-if-the-middle-handler-accepted-it")
	// a handler that was cleared or replaced before the message came is out of the game
	if mode == 5 {
		verifrt.Assert(n1 == 0 && seenFar == 0, "D:cleared-handler-is-not-consulted-and-nothing-is-relayed")
	}
	if mode == 6 {
		verifrt.Assert(n1 == 0 && verifrt.Implies(seenFar > 0, n2 >= 1 && v2 == gexchange.FeedbackAccepted), "D:replaced-handler-is-not-consulted")
	}
	if seenFar > 0 {
		verifrt.Reach("daisy:relayed")
	}
	vhDCMu.Unlock()
	cancel()
	n.Wait()
	vhDCMu.Lock()
	verifrt.Reach("daisy:network-stopped")
}
