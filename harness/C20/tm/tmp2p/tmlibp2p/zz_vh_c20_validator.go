package tmlibp2p

// C20 (first two bullets): what the libp2p topic validator lets gossipsub relay.
// pubsub.ValidationAccept is the only result after which gossipsub forwards a message.

import (
	"context"
	"errors"

	"github.com/gordian-engine/gordian/gexchange"
	"github.com/gordian-engine/gordian/internal/verifrt"
	"github.com/gordian-engine/gordian/tm/tmcodec"
	"github.com/gordian-engine/gordian/tm/tmconsensus"
	pubsub "github.com/libp2p/go-libp2p-pubsub"
	pb "github.com/libp2p/go-libp2p-pubsub/pb"
	p2phost "github.com/libp2p/go-libp2p/core/host"
	"github.com/libp2p/go-libp2p/core/peer"
)

// VH_C20_FeedbackMapping: (*Connection).exchangeFeedbackToLibp2p over all 256 feedback
// values: Accept iff FeedbackAccepted, Reject iff FeedbackRejected, everything else
// (FeedbackIgnored, FeedbackUnspecified, FeedbackRejectAndDisconnect and every undefined
// value) is Ignore; never panics.
func VH_C20_FeedbackMapping() {
	c := &Connection{log: verifrt.Logger()}
	f := gexchange.Feedback(verifrt.U8("feedback"))
	var r pubsub.ValidationResult
	if !verifrt.NoPanic("F:feedback-mapping-panics", func() { r = c.exchangeFeedbackToLibp2p(f) }) {
		return
	}
	verifrt.Reach("feedback-mapped")
	verifrt.Observe("feedback", uint64(f), uint64(r))
	verifrt.Assert(verifrt.Iff(r == pubsub.ValidationAccept, f == gexchange.FeedbackAccepted), "F:accept-iff-feedback-accepted")
	verifrt.Assert(verifrt.Iff(r == pubsub.ValidationReject, f == gexchange.FeedbackRejected), "F:reject-iff-feedback-rejected")
	outOfRange := verifrt.Or(f == gexchange.FeedbackUnspecified, f > gexchange.FeedbackRejectAndDisconnect)
	verifrt.Assert(verifrt.Implies(outOfRange, r == pubsub.ValidationIgnore), "F:out-of-range-feedback-is-ignore")
	verifrt.Assert(verifrt.Or(r == pubsub.ValidationAccept, verifrt.Or(r == pubsub.ValidationReject, r == pubsub.ValidationIgnore)), "F:result-is-a-defined-validation-result")
}

// vhHost: a libp2p host that only knows its own id (every other method: nil interface).
type vhHost struct {
	p2phost.Host
	id peer.ID
}

func (h vhHost) ID() peer.ID { return h.id }

// vhCodec: decoding either fails or yields the chosen set of message fields.
type vhCodec struct {
	tmcodec.MarshalCodec
	fail  bool
	mask  int
	calls *int
	seen  *[]byte
}

var (
	vhPH = tmconsensus.ProposedHeader{Round: 7}
	vhPV = tmconsensus.PrevoteSparseProof{Height: 8}
	vhPC = tmconsensus.PrecommitSparseProof{Height: 9}
)

func (c vhCodec) UnmarshalConsensusMessage(b []byte, m *tmcodec.ConsensusMessage) error {
	*c.calls++
	*c.seen = b
	if c.fail {
		return errors.New("vh: undecodable")
	}
	if c.mask&1 != 0 {
		ph := vhPH
		m.ProposedHeader = &ph
	}
	if c.mask&2 != 0 {
		pv := vhPV
		m.PrevoteProof = &pv
	}
	if c.mask&4 != 0 {
		pc := vhPC
		m.PrecommitProof = &pc
	}
	return nil
}

// vhHandler: records which method was called with what, answers with an arbitrary verdict per method.
type vhHandler struct {
	verdict [3]gexchange.Feedback
	calls   *[3]int
	argOK   *bool
}

func (h vhHandler) HandleProposedHeader(_ context.Context, ph tmconsensus.ProposedHeader) gexchange.Feedback {
	h.calls[0]++
	*h.argOK = ph.Round == vhPH.Round
	return h.verdict[0]
}
func (h vhHandler) HandlePrevoteProofs(_ context.Context, p tmconsensus.PrevoteSparseProof) gexchange.Feedback {
	h.calls[1]++
	*h.argOK = p.Height == vhPV.Height
	return h.verdict[1]
}
func (h vhHandler) HandlePrecommitProofs(_ context.Context, p tmconsensus.PrecommitSparseProof) gexchange.Feedback {
	h.calls[2]++
	*h.argOK = p.Height == vhPC.Height
	return h.verdict[2]
}

// VH_C20_TopicValidator: the closure returned by (*Connection).libp2pConsensusMessageValidator.
// Nondeterministic: delivering peer (self = our own publication / another peer), the origin the
// message claims in its From field (self / other, independently), decode failure, which fields the decoded
// message has (all 8 subsets), handler nil or present, the handler's verdict (any uint8,
// independent per method). For a message from another peer:
//   Accept  =>  decoding succeeded, a handler is installed, exactly one handler method was
//               called, with the decoded value, and its verdict was FeedbackAccepted.
func VH_C20_TopicValidator() {
	const self, other = peer.ID("peer-self"), peer.ID("peer-other")
	codecCalls := 0
	var seen []byte
	codec := vhCodec{
		fail:  verifrt.Choose("decode-fails", 2) == 1,
		mask:  verifrt.Choose("decoded-fields", 8),
		calls: &codecCalls,
		seen:  &seen,
	}
	c := &Connection{
		log:   verifrt.Logger(),
		codec: codec,
		h:     &Host{h: vhHost{id: self}, ps: new(pubsub.PubSub)},
	}
	var calls [3]int
	argOK := false
	var h tmconsensus.ConsensusHandler
	hasHandler := verifrt.Choose("handler-installed", 2) == 1
	hv := vhHandler{calls: &calls, argOK: &argOK}
	hv.verdict[0] = gexchange.Feedback(verifrt.U8("verdict-proposed-header"))
	hv.verdict[1] = gexchange.Feedback(verifrt.U8("verdict-prevote"))
	hv.verdict[2] = gexchange.Feedback(verifrt.U8("verdict-precommit"))
	if hasHandler {
		h = hv
	}
	fromSelf := verifrt.Choose("from-self", 2) == 1
	from := other
	if fromSelf {
		from = self
	}
	// the origin the message CLAIMS (its From field) is independent of the peer that delivered
	// it: a peer may replay a message this node authored, or forge the field
	origin := other
	if verifrt.Choose("origin-claims-self", 2) == 1 {
		origin = self
	}
	data := []byte{0xde, 0xad}
	msg := &pubsub.Message{Message: &pb.Message{Data: data, From: []byte(origin)}, ReceivedFrom: from}

	var r pubsub.ValidationResult
	if !verifrt.NoPanic("V:topic-validator-panics", func() {
		v := c.libp2pConsensusMessageValidator(h)
		r = v(context.Background(), from, msg)
	}) {
		return
	}
	nCalls := calls[0] + calls[1] + calls[2]
	verifrt.Observe("validator", uint64(r), uint64(codecCalls), uint64(nCalls), uint64(codec.mask))
	verifrt.Assert(verifrt.Or(r == pubsub.ValidationAccept, verifrt.Or(r == pubsub.ValidationReject, r == pubsub.ValidationIgnore)), "V:result-is-a-defined-validation-result")
	if fromSelf {
		// our own publication: accepted without consulting codec or handler (it is not a received message)
		verifrt.Reach("own-message")
		verifrt.Assert(r == pubsub.ValidationAccept, "V:own-message-not-accepted")
		verifrt.Assert(codecCalls == 0 && nCalls == 0, "V:own-message-handled")
		return
	}
	verifrt.Reach("peer-message")
	verifrt.Assert(codecCalls == 1 && len(seen) == 2 && seen[0] == 0xde && seen[1] == 0xad, "V:payload-not-decoded-exactly-once")
	// which verdict was obtained (if a handler method ran)
	var verdict gexchange.Feedback
	for i := range calls {
		if calls[i] == 1 {
			verdict = hv.verdict[i]
		}
	}
	accepted := r == pubsub.ValidationAccept
	verifrt.Assert(verifrt.Implies(accepted, !codec.fail), "V:relayed-undecodable-message")
	verifrt.Assert(verifrt.Implies(accepted, hasHandler), "V:relayed-without-handler")
	verifrt.Assert(verifrt.Implies(accepted, nCalls == 1 && argOK), "V:relayed-without-exactly-one-handler-call")
	verifrt.Assert(verifrt.Implies(accepted, verifrt.And(nCalls == 1, verdict == gexchange.FeedbackAccepted)), "V:relayed-although-handler-did-not-accept")
	// an out-of-range verdict is treated as ignore
	outOfRange := verifrt.Or(verdict == gexchange.FeedbackUnspecified, verdict > gexchange.FeedbackRejectAndDisconnect)
	verifrt.Assert(verifrt.Implies(verifrt.And(nCalls == 1, outOfRange), r == pubsub.ValidationIgnore), "V:out-of-range-verdict-not-ignored")
	// nothing is handled at all when decoding fails or no handler is installed
	if codec.fail || !hasHandler {
		verifrt.Assert(nCalls == 0, "V:handler-called-without-decoded-message-or-handler")
	}
	if codec.fail {
		verifrt.Reach("undecodable")
		verifrt.Assert(r == pubsub.ValidationIgnore, "V:undecodable-not-ignored")
	}
	if !codec.fail && hasHandler && codec.mask != 0 {
		verifrt.Reach("handled")
		verifrt.Assert(nCalls == 1, "V:decoded-message-not-handled-exactly-once")
		// the first set field decides which method runs
		want := 2
		if codec.mask&1 != 0 {
			want = 0
		} else if codec.mask&2 != 0 {
			want = 1
		}
		verifrt.Assert(calls[want] == 1, "V:wrong-handler-method")
		verifrt.Assert(verifrt.Iff(accepted, verdict == gexchange.FeedbackAccepted), "V:accept-iff-verdict-accepted")
	}
}
