package tmlibp2p

// C20, third part: "messages arriving while no handler is installed or while the handler is
// being replaced are never relayed ... for all timings of SetConsensusHandler relative to
// message arrival".
//
// Under the engine the real NewConnection, (*Connection).background and SetConsensusHandler run
// against a model of the few libp2p-pubsub calls they make (gsx/intrinsics_c20.go: a table of
// registered topic validators per PubSub; Join/Subscribe mark the topic subscribed). A network
// goroutine delivers one message from another peer at an arbitrary moment (every schedule at
// channel operations and at the pubsub calls, which are blocking request/responses in libp2p).
// libp2p forwards a received message iff NO validator is registered for the topic or the
// registered validator returns ValidationAccept. The message may be forwarded only if a
// handler was consulted for it and answered FeedbackAccepted.
//
// Natively (confirmation of a counterexample) three real libp2p hosts on the loopback
// interface form a line A - B - C; A publishes continuously, B's handler (which rejects
// everything) is replaced over and over, C counts what reaches it.

import (
	"context"
	"fmt"
	"sync/atomic"
	"time"

	"github.com/gordian-engine/gordian/gexchange"
	"github.com/gordian-engine/gordian/internal/verifrt"
	"github.com/gordian-engine/gordian/tm/tmcodec"
	"github.com/gordian-engine/gordian/tm/tmconsensus"
	"github.com/libp2p/go-libp2p"
	pubsub "github.com/libp2p/go-libp2p-pubsub"
	pb "github.com/libp2p/go-libp2p-pubsub/pb"
	"github.com/libp2p/go-libp2p/core/network"
	"github.com/libp2p/go-libp2p/core/peer"
	"github.com/libp2p/go-libp2p/p2p/net/conngater"
	"github.com/libp2p/go-libp2p/p2p/transport/tcp"
)

// vhPubsubValidate is an engine intrinsic (see the file comment); it has no native meaning.
func vhPubsubValidate(ps *pubsub.PubSub, topic string, ctx context.Context, from peer.ID, msg *pubsub.Message) (res int, state int) {
	panic("vhPubsubValidate: engine only")
}

// vhWHandler answers every message with a fixed verdict and counts its calls.
type vhWHandler struct {
	verdict gexchange.Feedback
	calls   *int32
}

func (h vhWHandler) HandleProposedHeader(context.Context, tmconsensus.ProposedHeader) gexchange.Feedback {
	atomic.AddInt32(h.calls, 1)
	return h.verdict
}
func (h vhWHandler) HandlePrevoteProofs(context.Context, tmconsensus.PrevoteSparseProof) gexchange.Feedback {
	atomic.AddInt32(h.calls, 1)
	return h.verdict
}
func (h vhWHandler) HandlePrecommitProofs(context.Context, tmconsensus.PrecommitSparseProof) gexchange.Feedback {
	atomic.AddInt32(h.calls, 1)
	return h.verdict
}

func VH_C20_HandlerWindow() {
	if !verifrt.Symbolic() {
		vhC20WindowNative()
		return
	}
	const self, other = peer.ID("peer-self"), peer.ID("peer-other")
	ctx := context.Background()
	codecCalls := 0
	var seen []byte
	codec := vhCodec{mask: 1, calls: &codecCalls, seen: &seen}
	host := &Host{h: vhHost{id: self}, ps: new(pubsub.PubSub)}

	var calls1, calls2 int32
	v1 := gexchange.Feedback(verifrt.U8("verdict-1"))
	v2 := gexchange.Feedback(verifrt.U8("verdict-2"))
	h1 := vhWHandler{verdict: v1, calls: &calls1}
	h2 := vhWHandler{verdict: v2, calls: &calls2}

	// the network: one message from another peer, at any moment from now on
	msg := &pubsub.Message{Message: &pb.Message{Data: []byte{1, 2}, From: []byte(other)}, ReceivedFrom: other}
	res, state := 0, -1
	delivered := make(chan struct{})
	verifrt.SchedNondet(true, 0)
	go func() {
		res, state = vhPubsubValidate(host.ps, topicConsensus, ctx, other, msg)
		close(delivered)
	}()

	c, err := NewConnection(ctx, verifrt.Logger(), host, codec)
	if err != nil {
		verifrt.Fail("W:new-connection-failed")
		return
	}
	switch verifrt.Choose("handler-changes", 4) {
	case 0: // no handler is ever installed
		verifrt.Reach("window:no-handler")
	case 1: // installed once
		c.SetConsensusHandler(ctx, h1)
		verifrt.Reach("window:installed")
	case 2: // installed, then replaced
		c.SetConsensusHandler(ctx, h1)
		c.SetConsensusHandler(ctx, h2)
		verifrt.Reach("window:replaced")
	case 3: // installed, then cleared
		c.SetConsensusHandler(ctx, h1)
		c.SetConsensusHandler(ctx, nil)
		verifrt.Reach("window:cleared")
	}
	<-delivered
	verifrt.SchedNondet(false, 0)

	verifrt.Observe("window", uint64(state), uint64(res), uint64(calls1), uint64(calls2))
	if state == 0 {
		verifrt.Reach("window:arrived-before-subscription")
		return
	}
	forwarded := state == 1 || res == int(pubsub.ValidationAccept)
	accepted := (calls1 >= 1 && v1 == gexchange.FeedbackAccepted) || (calls2 >= 1 && v2 == gexchange.FeedbackAccepted)
	verifrt.Assert(state != 1, "W:topic-has-a-validator-whenever-a-message-can-arrive")
	verifrt.Assert(verifrt.Implies(forwarded, accepted), "W:forwarded-only-if-a-handler-accepted-it")
	if forwarded {
		verifrt.Reach("window:forwarded")
	}
	if state == 2 && calls1+calls2 == 0 {
		verifrt.Reach("window:ignored-without-handler")
	}
}

// ---- native confirmation with real libp2p hosts

type vhPlainCodec struct{ tmcodec.MarshalCodec }

func (vhPlainCodec) MarshalConsensusMessage(m tmcodec.ConsensusMessage) ([]byte, error) {
	return []byte(fmt.Sprintf("ph-%d", m.ProposedHeader.Round)), nil
}
func (vhPlainCodec) UnmarshalConsensusMessage(b []byte, m *tmcodec.ConsensusMessage) error {
	m.ProposedHeader = &tmconsensus.ProposedHeader{}
	return nil
}

// the gater of each end refuses every connection with the other end (set once the hosts exist):
// the two ends of the line must never talk to each other directly, whatever the DHT suggests.
func vhC20Host(ctx context.Context, g *conngater.BasicConnectionGater) (*Host, error) {
	params := pubsub.DefaultGossipSubParams()
	params.HeartbeatInitialDelay = 8 * time.Millisecond
	params.HeartbeatInterval = 45 * time.Millisecond
	return NewHost(ctx, HostOptions{
		Options: []libp2p.Option{
			libp2p.ListenAddrStrings("/ip4/127.0.0.1/tcp/0"),
			libp2p.Transport(tcp.NewTCPTransport),
			libp2p.ForceReachabilityPublic(),
			libp2p.ConnectionGater(g),
		},
		PubSubOptions: []pubsub.Option{pubsub.WithGossipSubParams(params), pubsub.WithFloodPublish(true)},
	})
}

// vhC20WindowNative: A - B - C on loopback TCP (A and C are not connected to each other). B's
// handlers reject everything; what reaches C was forwarded by B without an accepting handler.
func vhC20WindowNative() {
	ctx, cancel := context.WithCancel(context.Background())
	defer cancel()
	var hosts [3]*Host
	var conns [3]*Connection
	var gaters [3]*conngater.BasicConnectionGater
	for i := range hosts {
		g, err := conngater.NewBasicConnectionGater(nil)
		if err != nil {
			fmt.Println("VERIF-ERROR native libp2p gater:", err)
			return
		}
		gaters[i] = g
		h, err := vhC20Host(ctx, gaters[i])
		if err != nil {
			fmt.Println("VERIF-ERROR native libp2p host:", err)
			return
		}
		hosts[i] = h
	}
	_ = gaters[0].BlockPeer(hosts[2].Libp2pHost().ID())
	_ = gaters[2].BlockPeer(hosts[0].Libp2pHost().ID())
	link := func(a, b *Host) error {
		return a.Libp2pHost().Connect(ctx, peer.AddrInfo{ID: b.Libp2pHost().ID(), Addrs: b.Libp2pHost().Addrs()})
	}
	if err := link(hosts[0], hosts[1]); err != nil {
		fmt.Println("VERIF-ERROR native libp2p connect:", err)
		return
	}
	if err := link(hosts[1], hosts[2]); err != nil {
		fmt.Println("VERIF-ERROR native libp2p connect:", err)
		return
	}
	for i := range hosts {
		c, err := NewConnection(ctx, verifrt.Logger(), hosts[i], vhPlainCodec{})
		if err != nil {
			fmt.Println("VERIF-ERROR native libp2p connection:", err)
			return
		}
		conns[i] = c
	}
	var atA, atB1, atB2, atC int32
	// (a connection's own publications pass its validator only once a handler is installed)
	conns[0].SetConsensusHandler(ctx, vhWHandler{verdict: gexchange.FeedbackAccepted, calls: &atA})
	conns[2].SetConsensusHandler(ctx, vhWHandler{verdict: gexchange.FeedbackAccepted, calls: &atC})
	hb1 := vhWHandler{verdict: gexchange.FeedbackRejected, calls: &atB1}
	hb2 := vhWHandler{verdict: gexchange.FeedbackIgnored, calls: &atB2}
	conns[1].SetConsensusHandler(ctx, hb1)
	time.Sleep(300 * time.Millisecond) // let the gossipsub meshes form

	stop := make(chan struct{})
	go func() { // A publishes distinct messages as fast as the connection takes them
		for i := uint32(0); ; i++ {
			select {
			case <-stop:
				return
			case conns[0].OutgoingProposedHeaders() <- tmconsensus.ProposedHeader{Round: i}:
			}
		}
	}()
	deadline := time.Now().Add(25 * time.Second)
	for i := 0; time.Now().Before(deadline) && atomic.LoadInt32(&atC) == 0; i++ {
		switch i % 3 {
		case 0:
			conns[1].SetConsensusHandler(ctx, hb2)
		case 1:
			conns[1].SetConsensusHandler(ctx, nil)
		default:
			conns[1].SetConsensusHandler(ctx, hb1)
		}
	}
	close(stop)
	seenAtB := atomic.LoadInt32(&atB1) + atomic.LoadInt32(&atB2)
	verifrt.Observe("window-native", uint64(seenAtB), uint64(atomic.LoadInt32(&atC)))
	direct := hosts[0].Libp2pHost().Network().Connectedness(hosts[2].Libp2pHost().ID()) == network.Connected
	if direct {
		fmt.Println("VERIF-ERROR native libp2p: the two ends of the line are connected directly")
		return
	}
	if atomic.LoadInt32(&atC) > 0 {
		verifrt.Fail("W:topic-has-a-validator-whenever-a-message-can-arrive")
		verifrt.Fail("W:forwarded-only-if-a-handler-accepted-it")
	}
}
