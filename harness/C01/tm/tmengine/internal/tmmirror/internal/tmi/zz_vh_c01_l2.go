package tmi

import (
	"github.com/gordian-engine/gordian/gcrypto"
	"github.com/gordian-engine/gordian/internal/verifrt"
	"github.com/gordian-engine/gordian/internal/verifrt/vkit"
	"github.com/gordian-engine/gordian/tm/tmconsensus"
)

// VH_C01_L2_Replay: a replayed header with its commit proof is accepted (err == nil, or the
// node's committed state changes) only if signatures that verify under the keys of the node's
// own validator set for that height, for exactly (height, proof round, header hash), carry
// more than 2/3 of that set's power.
func VH_C01_L2_Replay() {
	verifrt.Summarize("ByzantineThresholds")
	n := 3
	pows := vkit.Powers("power", n)
	e := vhNewEnvSym(n, pows, 1)
	total := e.totalPower()

	// the validator set embedded in the replayed header
	var hvs tmconsensus.ValidatorSet
	which := verifrt.Choose("header-valset", 4)
	switch which {
	case 0:
		hvs = e.vs // the node's set
	case 1:
		hvs = vkit.ValSet(vkit.Keys(7, n), vkit.Powers("foreignpower", n)) // disjoint foreign keys
	case 2:
		hvs = vkit.ValSet(e.keys, vkit.Powers("otherpower", n)) // same keys, other powers
	default:
		// the node's validators and hashes, but the PubKeys column replaced by foreign keys
		hvs = e.vs
		hvs.PubKeys = vkit.Keys(7, n)
	}
	round := uint32(verifrt.Choose("proof-round", 2))
	hdr := e.header("A", 1, e.vs)
	hdr.ValidatorSet = hvs

	content := vkit.PrecommitContent(1, round, "A")
	var sigs []gcrypto.SparseSignature
	var validPow uint64 // power of the node's validators whose offered signature verifies under the node's keys
	for i := 0; i < n; i++ {
		if !verifrt.Bool("offered") {
			continue
		}
		sig := vkit.Sig(byte(i), 1)
		sigs = append(sigs, gcrypto.SparseSignature{KeyID: vkit.KeyID(i), Sig: sig})
		validPow += verifrt.Ite64(e.keys[i].Verify(content, sig), pows[i], 0)
	}
	proofs := map[string][]gcrypto.SparseSignature{}
	if len(sigs) > 0 || verifrt.Bool("empty-entry") {
		proofs["A"] = sigs
	}
	proof := tmconsensus.CommitProof{Round: round, PubKeyHash: string(hvs.PubKeyHash), Proofs: proofs}

	var err error
	ok := verifrt.NoPanic("L2:replay-panics", func() {
		err = e.k.handleReplayedHeader(e.ctx, e.s, hdr, proof)
	})
	if !ok {
		return
	}
	c := e.commitAt(1)
	accepted := err == nil
	if accepted {
		verifrt.Reach("replay-accepted")
	} else {
		verifrt.Reach("replay-rejected")
	}
	verifrt.Assert(verifrt.Implies(c.happened || c.stored, accepted), "L2:commit-only-when-accepted")
	if accepted || c.happened || c.stored {
		verifrt.Assert(moreThanTwoThirds(validPow, total), "L2:accepted-needs-two-thirds-of-own-set")
		// a header carrying other keys can never be accepted (equal powers with the same keys is the node's set)
		// (a replaced PubKeys column on an otherwise equal set is ignored by the node, which counts
		// the proof against its own keys: the two-thirds obligation above covers that variant)
		verifrt.Assert(which != 1, "L2:accepted-header-carries-the-nodes-keys")
	}
	if accepted {
		verifrt.Assert(c.happened && c.stored && c.hash == "A", "L2:accepted-means-committed")
	}
}
