package tmi

import (
	"bytes"

	"github.com/gordian-engine/gordian/gcrypto"
	"github.com/gordian-engine/gordian/internal/verifrt"
	"github.com/gordian-engine/gordian/internal/verifrt/vkit"
	"github.com/gordian-engine/gordian/tm/tmconsensus"
)

// VH_C01_L1_CommitRule: precommits for up to two blocks and nil arrive through the real
// addPrecommit entry (any signer subset per target, any powers, 0-2 proposed headers known,
// any map iteration order). Whenever the kernel then treats a header as committed (committing
// header, committed-header store, network height/round), the hash is non-nil, is a proposed
// header of that round, and its admitted signers hold more than 2/3 of the total power.
func VH_C01_L1_CommitRule() {
	// map iteration order: insertion order here; order independence of the vote summary is C06-H1
	verifrt.Summarize("ByzantineThresholds")
	n := 3
	pows := vkit.Powers("power", n)
	e := vhNewEnv(n, pows, 1)
	total := e.totalPower()

	// which proposed headers the node already holds
	havePH := verifrt.Choose("have-headers", 4) // none, A, B, A+B
	if havePH&1 != 0 {
		e.k.addProposedHeader(e.ctx, e.s, e.proposed("A", 1, 0, 0, e.vs))
	}
	if havePH&2 != 0 {
		e.k.addProposedHeader(e.ctx, e.s, e.proposed("B", 1, 0, 1, e.vs))
	}

	// one precommit message with entries for a subset of {nil, A, B}
	hashes := []string{"", "A", "B"}
	signers := make([]int, 3)
	updates := map[string]VoteUpdate{}
	for t := 0; t <= 2; t++ {
		var w int
		if t == 2 && !verifrt.Thorough() {
			// quick: B is absent, signed by the last validator only, or by everybody
			w = []int{0, 1 << uint(n-1), 1<<uint(n) - 1}[verifrt.Choose("signers-B", 3)]
		} else {
			w = verifrt.Choose("signers-"+hashes[t], 1<<uint(n))
		}
		signers[t] = w
		if w == 0 {
			continue
		}
		updates[hashes[t]] = VoteUpdate{Proof: e.voteProof(true, 1, 0, hashes[t], w), PrevVersion: 0}
	}
	if len(updates) == 0 {
		return
	}
	verifrt.Reach("precommits-built")
	resp := make(chan AddVoteResult, 1)
	e.k.addPrecommit(e.ctx, e.s, AddPrecommitRequest{H: 1, R: 0, PrecommitUpdates: updates, Response: resp})
	verifrt.Assert(len(resp) == 1, "L1:response-sent")

	c := e.commitAt(1)
	vh, vr, ch, cr, err := e.ms.NetworkHeightRound(e.ctx)
	verifrt.Assert(err == nil, "L1:mirror-store-readable")
	verifrt.Assert(c.happened == c.stored, "L1:committing-header-iff-stored")
	verifrt.Assert((ch == 1) == c.happened, "L1:network-height-round-iff-committed")
	_ = vr
	_ = cr
	if !c.happened {
		verifrt.Reach("no-commit")
		verifrt.Assert(vh == 1, "L1:voting-height-unchanged-without-commit")
		return
	}
	verifrt.Reach("committed")
	verifrt.Assert(vh == 2, "L1:voting-height-advances-by-one")
	verifrt.Assert(c.hash != "", "L1:nil-never-committed")
	verifrt.Assert(c.storeHash == c.hash, "L1:store-holds-the-committing-header")
	t := -1
	for i, h := range hashes {
		if h == c.hash {
			t = i
		}
	}
	verifrt.Assert(t > 0, "L1:committed-hash-was-voted")
	if t <= 0 {
		return
	}
	verifrt.Assert(havePH&(1<<uint(t-1)) != 0, "L1:committed-header-was-proposed")
	verifrt.Assert(moreThanTwoThirds(e.signerPower(signers[t]), total), "L1:commit-needs-more-than-two-thirds")
	// the proof handed on as previous-commit proof contains exactly the admitted signers
	sigs := e.s.Voting.PrevCommitProof.Proofs[c.hash]
	verifrt.Assert(len(sigs) == popcount(signers[t]), "L1:prev-commit-proof-has-the-signers")
	for _, sg := range sigs {
		id := int(sg.KeyID[0])<<8 | int(sg.KeyID[1])
		verifrt.Assert(signers[t]&(1<<uint(id)) != 0, "L1:prev-commit-proof-only-signers")
		verifrt.Assert(bytes.Equal(sg.Sig, vkit.Sig(byte(id), 0)), "L1:prev-commit-proof-signature-bytes")
	}
}

func popcount(w int) int {
	c := 0
	for ; w != 0; w &= w - 1 {
		c++
	}
	return c
}

var _ = gcrypto.ErrUnknownKey
var _ tmconsensus.Header
