package tmmirror

import (
	"github.com/gordian-engine/gordian/gcrypto"
	"github.com/gordian-engine/gordian/internal/verifrt"
	"github.com/gordian-engine/gordian/internal/verifrt/vkit"
	"github.com/gordian-engine/gordian/tm/tmconsensus"
)

// VH_C01_L3_PrevCommitProof: height 1 is committed (block A) through the real mirror; then a
// proposed header for height 2 arrives whose previous-commit proof is arbitrary: any subset of
// validators offered, each signature valid or not (uninterpreted), claimed previous block hash
// A or another hash, right or wrong validator-set hash. If the mirror accepts the header, the
// proof carries valid precommit signatures for exactly (height 1, proof round, claimed previous
// hash) from more than 2/3 of the previous validator set's power, and the claimed previous hash
// is the block the node committed at height 1 (C04's hash link at the mirror layer).
func VH_C01_L3_PrevCommitProof() {
	verifrt.Summarize("ByzantineThresholds")
	n := 3
	keys := vkit.Keys(0, n)
	pows := vkit.Powers("power", n)
	e := vhNewMirror(keys, pows, 1)
	var total uint64
	for _, p := range pows {
		total += p
	}

	// commit A at height 1
	verifrt.Assume(verifrt.UFBool("hashok", vkit.Pack([]byte("A")), 1))
	verifrt.Assume(verifrt.UFBool("hashok", vkit.Pack([]byte("B")), 2))
	verifrt.Assume(keys[0].Verify([]byte{'P', 0, 1, 0, 'A'}, []byte("psA")))
	verifrt.Assume(keys[1].Verify([]byte{'P', 0, 2, 0, 'B'}, []byte("psB")))
	phA := tmconsensus.ProposedHeader{
		Header: tmconsensus.Header{Hash: []byte("A"), PrevBlockHash: []byte("g"), Height: 1,
			ValidatorSet: e.vs, NextValidatorSet: e.vs, DataID: []byte("d"),
			PrevCommitProof: tmconsensus.CommitProof{Proofs: map[string][]gcrypto.SparseSignature{}}},
		Round: 0, ProposerPubKey: keys[0], Signature: []byte("psA"),
	}
	verifrt.Assert(e.m.HandleProposedHeader(e.ctx, phA) == tmconsensus.HandleProposedHeaderAccepted, "L3:setup-header-A-accepted")
	res := e.m.HandlePrecommitProofs(e.ctx, tmconsensus.PrecommitSparseProof{Height: 1, Round: 0, PubKeyHash: string(e.vs.PubKeyHash),
		Proofs: map[string][]gcrypto.SparseSignature{"A": vhValidSigs(keys, vkit.PrecommitContent(1, 0, "A"), 7, 1)}})
	verifrt.Assert(res == tmconsensus.HandleVoteProofsAccepted, "L3:setup-precommits-accepted")
	var v tmconsensus.VersionedRoundView
	verifrt.Assert(e.m.VotingView(e.ctx, &v) == nil && v.Height == 2, "L3:setup-height-1-committed")

	// the header for height 2 and its previous-commit proof
	prev := []string{"A", "Z"}[verifrt.Choose("claimed-prev-hash", 2)]
	pkh := string(e.vs.PubKeyHash)
	if verifrt.Choose("proof-pubkeyhash", 2) == 1 {
		pkh = "other"
	}
	content := vkit.PrecommitContent(1, 0, prev)
	var sigs []gcrypto.SparseSignature
	var validPow uint64
	for i := 0; i < n; i++ {
		if verifrt.Choose("offered", 2) == 0 {
			continue
		}
		sig := vkit.Sig(byte(i), 9)
		sigs = append(sigs, gcrypto.SparseSignature{KeyID: vkit.KeyID(i), Sig: sig})
		validPow += verifrt.Ite64(keys[i].Verify(content, sig), pows[i], 0)
	}
	phB := tmconsensus.ProposedHeader{
		Header: tmconsensus.Header{Hash: []byte("B"), PrevBlockHash: []byte(prev), Height: 2,
			ValidatorSet: e.vs, NextValidatorSet: e.vs, DataID: []byte("d"),
			PrevCommitProof: tmconsensus.CommitProof{Round: 0, PubKeyHash: pkh, Proofs: map[string][]gcrypto.SparseSignature{prev: sigs}}},
		Round: 0, ProposerPubKey: keys[1], Signature: []byte("psB"),
	}
	var r tmconsensus.HandleProposedHeaderResult
	ok := verifrt.NoPanic("L3:handler-panics", func() { r = e.m.HandleProposedHeader(e.ctx, phB) })
	if !ok {
		return
	}
	verifrt.Reach("header-handled")
	verifrt.Observe("result", uint64(r))
	if r == tmconsensus.HandleProposedHeaderAccepted {
		verifrt.Reach("header-accepted")
		verifrt.Assert(moreThan23(validPow, total), "L3:accepted-needs-two-thirds-valid-previous-commit")
		verifrt.Assert(pkh == string(e.vs.PubKeyHash), "L3:accepted-needs-the-previous-validator-set-hash")
		verifrt.Assert(prev == "A", "L3:accepted-header-extends-the-committed-block")
	}
}

func moreThan23(x, total uint64) bool {
	h3, l3 := verifrt.MulU(3, x)
	h2, l2 := verifrt.MulU(2, total)
	return verifrt.Gt128(h3, l3, h2, l2)
}
