package tmmirror

import (
	"github.com/gordian-engine/gordian/gcrypto"
	"github.com/gordian-engine/gordian/internal/verifrt"
	"github.com/gordian-engine/gordian/internal/verifrt/vkit"
	"github.com/gordian-engine/gordian/tm/tmconsensus"
)

// VH_C01_L4_PrescribedSetAcrossHeights: the certificate for height 2 is counted against the
// validator set the chain prescribes for height 2 (the next set of the header committed at
// height 1, whose hashes the block hash covers) - even when a copy of that header with an altered
// validator list (one power inflated) was delivered first or second. A minority of the
// prescribed set (validator 0: power 2 of 5) must not be able to commit height 2 alone.
func VH_C01_L4_PrescribedSetAcrossHeights() {
	n := 2
	hs := vkit.HashScheme{PowerSensitive: true}
	keys := vkit.Keys(0, n)
	e := vhNewMirrorHS(keys, []uint64{1, 1}, 1, hs)
	nkeys := vkit.Keys(1, n)
	next := vkit.ValSetHS(nkeys, []uint64{2, 3}, hs)
	orig := tmconsensus.ProposedHeader{
		Header: tmconsensus.Header{Hash: []byte("A"), PrevBlockHash: []byte("g"), Height: 1,
			ValidatorSet: e.vs, NextValidatorSet: next, DataID: []byte("d"),
			PrevCommitProof: tmconsensus.CommitProof{Proofs: map[string][]gcrypto.SparseSignature{}}},
		Round: 0, ProposerPubKey: keys[0], Signature: []byte("ps"),
	}
	forged := orig
	f := next
	f.Validators = []tmconsensus.Validator{{PubKey: next.Validators[0].PubKey, Power: 200}, next.Validators[1]}
	forged.Header.NextValidatorSet = f
	verifrt.Assume(verifrt.UFBool("hashok", vkit.Pack([]byte("A")), 1))
	verifrt.Assume(verifrt.UFBool("hashok", vkit.Pack([]byte("B")), 2))
	verifrt.Assume(keys[0].Verify([]byte{'P', 0, 1, 0, 'A'}, []byte("ps")))
	verifrt.Assume(nkeys[0].Verify([]byte{'P', 0, 2, 0, 'B'}, []byte("psB")))
	if verifrt.Choose("forged-first", 2) == 0 {
		e.m.HandleProposedHeader(e.ctx, forged)
		e.m.HandleProposedHeader(e.ctx, orig)
	} else {
		e.m.HandleProposedHeader(e.ctx, orig)
		e.m.HandleProposedHeader(e.ctx, forged)
	}
	res := e.m.HandlePrecommitProofs(e.ctx, tmconsensus.PrecommitSparseProof{Height: 1, Round: 0, PubKeyHash: string(e.vs.PubKeyHash),
		Proofs: map[string][]gcrypto.SparseSignature{"A": vhValidSigs(keys, vkit.PrecommitContent(1, 0, "A"), 3, 1)}})
	verifrt.Assert(res == tmconsensus.HandleVoteProofsAccepted, "L4:setup-height-1-precommits-accepted")
	var v tmconsensus.VersionedRoundView
	verifrt.Assert(e.m.VotingView(e.ctx, &v) == nil && v.Height == 2, "L4:setup-height-1-committed")
	verifrt.Reach("height-1-committed")

	// height 2: block B proposed by validator 0 of the next set, carrying the commit proof of A
	phB := tmconsensus.ProposedHeader{
		Header: tmconsensus.Header{Hash: []byte("B"), PrevBlockHash: []byte("A"), Height: 2,
			ValidatorSet: v.ValidatorSet, NextValidatorSet: next, DataID: []byte("d"),
			PrevCommitProof: tmconsensus.CommitProof{Round: 0, PubKeyHash: string(e.vs.PubKeyHash),
				Proofs: map[string][]gcrypto.SparseSignature{"A": vhValidSigs(keys, vkit.PrecommitContent(1, 0, "A"), 3, 1)}}},
		Round: 0, ProposerPubKey: nkeys[0], Signature: []byte("psB"),
	}
	e.m.HandleProposedHeader(e.ctx, phB)
	// only validator 0 of the prescribed set (power 2 of 5) precommits B
	e.m.HandlePrecommitProofs(e.ctx, tmconsensus.PrecommitSparseProof{Height: 2, Round: 0, PubKeyHash: string(v.ValidatorSet.PubKeyHash),
		Proofs: map[string][]gcrypto.SparseSignature{"B": vhValidSigs(nkeys, vkit.PrecommitContent(2, 0, "B"), 1, 2)}})
	var v2, c2 tmconsensus.VersionedRoundView
	verifrt.Assert(e.m.VotingView(e.ctx, &v2) == nil && e.m.CommittingView(e.ctx, &c2) == nil, "L4:kernel-serves")
	verifrt.Reach("minority-precommitted")
	_, err := e.hs.LoadCommittedHeader(e.ctx, 2)
	verifrt.Assert(v2.Height == 2 && c2.Height == 1 && err != nil, "L4:minority-of-the-prescribed-set-cannot-commit")
}
