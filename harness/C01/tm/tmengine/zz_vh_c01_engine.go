package tmengine

// C01 end to end: a complete engine (tmengine.New: mirror kernel, state machine kernel,
// consensus manager, all from source) follows the chain as a non-validator. The network
// delivers a valid proposed header for block A at (1,0) and precommit messages in which any
// subset of the three validators signs A and any subset signs nil (equivocation allowed);
// validator powers are full-width symbols. If the engine hands a block to the driver for
// finalization, or records a committed header, then it is block A and the validators that
// signed A hold more than two thirds of the total power.

import (
	"github.com/gordian-engine/gordian/gcrypto"
	"github.com/gordian-engine/gordian/internal/verifrt"
	"github.com/gordian-engine/gordian/internal/verifrt/vkit"
	"github.com/gordian-engine/gordian/tm/tmconsensus"
)

func VH_C01_E1_EngineFinalizesOnlyOnCertificate() {
	verifrt.Summarize("ByzantineThresholds")
	// stated assumption (as in the state-machine kit): the 100 ms blocked-send guards of
	// handleProposalViewUpdate never fire (the consensus manager takes every request in time)
	verifrt.Summarize("SMQuietSendGuardTimers")
	const n = 3
	keys := vkit.OkKeys(n)
	pows := vkit.Powers("power", n)
	vs := vkit.ValSet(keys, pows)
	var total uint64
	for _, p := range pows {
		total += p
	}
	st := vhNewEngStores()
	l, err := vhStartEngine(st, vs)
	if err != nil || l == nil {
		verifrt.Fail("E1:engine-does-not-start")
		return
	}
	e, ctx, finCh, chs := l.e, l.ctx, l.finCh, st.chs
	verifrt.Assume(verifrt.UFBool("hashok", vkit.Pack([]byte("A")), 1))
	phA := tmconsensus.ProposedHeader{
		Header: tmconsensus.Header{Hash: []byte("A"), PrevBlockHash: []byte("g"), Height: 1,
			ValidatorSet: vs, NextValidatorSet: vs, DataID: []byte("d"), PrevAppStateHash: []byte("app"),
			PrevCommitProof: tmconsensus.CommitProof{Proofs: map[string][]gcrypto.SparseSignature{}}},
		Round: 0, ProposerPubKey: keys[0], Signature: []byte("psA"),
	}
	withHeader := verifrt.Choose("header-delivered", 2) == 1
	if withHeader {
		r := e.HandleProposedHeader(ctx, phA)
		verifrt.Observe("header", uint64(r))
	}
	sA := uint64(verifrt.Choose("signers-of-A", 1<<n))
	var sNil uint64
	if verifrt.Thorough() {
		sNil = uint64(verifrt.Choose("signers-of-nil", 1<<n))
	} else {
		// quick tier: nobody, everybody, or exactly the signers of A (all of them equivocate)
		sNil = []uint64{0, 1<<n - 1, sA}[verifrt.Choose("signers-of-nil", 3)]
	}
	mk := func(s uint64, hash string) []gcrypto.SparseSignature {
		var out []gcrypto.SparseSignature
		for i := 0; i < n; i++ {
			if s&(1<<uint(i)) != 0 {
				out = append(out, gcrypto.SparseSignature{KeyID: vkit.KeyID(i), Sig: []byte{'s', byte(i), byte(len(hash))}})
			}
		}
		return out
	}
	proofs := map[string][]gcrypto.SparseSignature{}
	if sA != 0 {
		proofs["A"] = mk(sA, "A")
	}
	if sNil != 0 {
		proofs[""] = mk(sNil, "")
	}
	if len(proofs) > 0 {
		r := e.HandlePrecommitProofs(ctx, tmconsensus.PrecommitSparseProof{Height: 1, Round: 0, PubKeyHash: string(vs.PubKeyHash), Proofs: proofs})
		verifrt.Observe("votes", uint64(r))
	}
	var powA uint64
	for i := 0; i < n; i++ {
		if sA&(1<<uint(i)) != 0 {
			powA += pows[i]
		}
	}
	h3, l3 := verifrt.MulU(3, powA)
	h2, l2 := verifrt.MulU(2, total)
	certificate := verifrt.Gt128(h3, l3, h2, l2) // 3*powA > 2*total in 128 bits
	req, asked := vhE1Poll(finCh)
	if asked {
		verifrt.Reach("E1-driver-asked-to-finalize")
		verifrt.Assert(string(req.Header.Hash) == "A" && req.Header.Height == 1, "E1:finalize-request-is-for-the-certified-block")
		verifrt.Assert(certificate, "E1:driver-asked-to-finalize-without-a-two-thirds-certificate")
		verifrt.Assert(withHeader, "E1:finalize-request-for-a-header-never-delivered")
	} else {
		verifrt.Reach("E1-driver-not-asked")
	}
	if ch, err := chs.LoadCommittedHeader(ctx, 1); err == nil {
		verifrt.Reach("E1-committed-header-recorded")
		verifrt.Assert(string(ch.Header.Hash) == "A", "E1:committed-header-is-the-certified-block")
		verifrt.Assert(certificate, "E1:committed-header-recorded-without-a-two-thirds-certificate")
	}
	verifrt.Observe("E1", verifrt.B2U(asked), verifrt.B2U(certificate))
	l.stop("E1:engine-does-not-shut-down")
}
