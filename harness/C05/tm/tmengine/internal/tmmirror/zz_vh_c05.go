package tmmirror

import (
	"github.com/gordian-engine/gordian/gcrypto"
	"github.com/gordian-engine/gordian/internal/verifrt"
	"github.com/gordian-engine/gordian/internal/verifrt/vkit"
	"github.com/gordian-engine/gordian/tm/tmconsensus"
)

// vhVotes is the body shared by the C05 harnesses.
// rich=false: every position / kind / validator-set hash, one block entry with 1-2 signatures.
// rich=true: voting round only, right validator-set hash, 2 block entries.
func vhVotes(rich bool) {
	n := 2
	pows := []uint64{1, 1}
	if verifrt.Thorough() {
		n, pows = 3, []uint64{1, 1, 1}
	}
	keys := vkit.Keys(0, n)
	e := vhNewMirror(keys, pows, 1)

	precommit := verifrt.Choose("kind", 2) == 1
	h, r := uint64(1), uint32(0)
	pkh := string(e.vs.PubKeyHash)
	if !rich {
		switch verifrt.Choose("position", 5) {
		case 0:
			h, r = 1, 0 // voting
		case 1:
			h, r = 1, 1 // next round
		case 2:
			h, r = 1, 3 // future round
		case 3:
			h, r = 2, 0 // future height
		default:
			h, r = 0, 0 // below the chain
		}
		if verifrt.Choose("pubkeyhash", 2) == 1 {
			pkh = "wrong"
		}
	}

	// optionally a valid earlier vote by validator 0 for A in the voting round
	if verifrt.Choose("earlier-valid-vote", 2) == 1 {
		sig := vkit.Sig(0, 7)
		verifrt.Assume(keys[0].Verify(vkit.PrevoteContent(1, 0, "A"), sig))
		res := e.m.HandlePrevoteProofs(e.ctx, tmconsensus.PrevoteSparseProof{Height: 1, Round: 0, PubKeyHash: string(e.vs.PubKeyHash),
			Proofs: map[string][]gcrypto.SparseSignature{"A": {{KeyID: vkit.KeyID(0), Sig: sig}}}})
		verifrt.Assert(res == tmconsensus.HandleVoteProofsAccepted, "C05:setup-valid-vote-accepted")
	}

	hashes := []string{"A", "", "Z"}
	first := verifrt.Choose("hash", 3)
	nEntries := 1
	if rich {
		nEntries = 2
	}
	proofs := map[string][]gcrypto.SparseSignature{}
	anyValid := false // some offered signature verifies under a member key for this exact target
	for i := 0; i < nEntries; i++ {
		hash := hashes[(first+i)%3]
		nSigs := 1
		if i == 0 {
			maxSigs := 2
			if verifrt.Thorough() {
				maxSigs = 3
			}
			nSigs = 1 + verifrt.Choose("sigs", maxSigs)
		}
		var sigs []gcrypto.SparseSignature
		for j := 0; j < nSigs; j++ {
			sg, member := vhOffer(n, byte(10*i+j))
			sigs = append(sigs, sg)
			if member >= 0 {
				var content []byte
				if precommit {
					content = vkit.PrecommitContent(h, r, hash)
				} else {
					content = vkit.PrevoteContent(h, r, hash)
				}
				anyValid = verifrt.Or(anyValid, keys[member].Verify(content, sg.Sig))
			}
		}
		proofs[hash] = sigs
	}

	vBefore, cBefore := e.views()
	var res tmconsensus.HandleVoteProofsResult
	ok := verifrt.NoPanic("C05:handler-panics", func() {
		if precommit {
			res = e.m.HandlePrecommitProofs(e.ctx, tmconsensus.PrecommitSparseProof{Height: h, Round: r, PubKeyHash: pkh, Proofs: proofs})
		} else {
			res = e.m.HandlePrevoteProofs(e.ctx, tmconsensus.PrevoteSparseProof{Height: h, Round: r, PubKeyHash: pkh, Proofs: proofs})
		}
	})
	if !ok {
		return
	}
	verifrt.Reach("handled")
	verifrt.Observe("result", uint64(res))
	verifrt.Assert(res >= tmconsensus.HandleVoteProofsAccepted && res <= tmconsensus.HandleVoteProofsInternalError, "C05:result-defined")

	var v, c tmconsensus.VersionedRoundView
	verifrt.Assert(e.m.VotingView(e.ctx, &v) == nil, "C05:kernel-still-serves")
	verifrt.Assert(e.m.CommittingView(e.ctx, &c) == nil, "C05:kernel-still-serves")
	e.verifyViewSignatures("C05:voting", &v)
	e.verifyViewSignatures("C05:committing", &c)
	e.verifyStoredSignatures("C05", 1, 0)
	if h != 1 || r != 0 {
		e.verifyStoredSignatures("C05", h, r)
	}

	accepted := res == tmconsensus.HandleVoteProofsAccepted || res == tmconsensus.HandleVoteProofsFutureVerified
	if accepted {
		verifrt.Reach("accepted")
	}
	vAfter, cAfter := e.digest(&v), e.digest(&c)
	unchanged := vBefore.same(vAfter) && cBefore.same(cAfter)
	verifrt.Assert(verifrt.Implies(verifrt.Not(anyValid), !accepted), "C05:no-authentic-signature-is-not-accepted")
	verifrt.Assert(verifrt.Implies(verifrt.Not(anyValid), unchanged), "C05:no-authentic-signature-leaves-views-unchanged")
	if pkh == "wrong" && (h != 1 || r <= 1) {
		// (for a future round of the voting height the node fills in its own validator set and
		// never compares the claimed hash; the signatures must still verify — observation in DESIGN.md)
		verifrt.Assert(!accepted && unchanged, "C05:wrong-validator-set-hash-rejected")
	}
}

// VH_C05_Positions: one prevote or precommit message for the voting round, the next round, a
// future round, a future height or height 0, right or wrong validator-set hash, one block
// entry (A / nil / unknown hash) with 1-2 signatures (member / out-of-range / malformed key
// ids; validity of every signature is an uninterpreted predicate), optionally preceded by a
// valid vote. Afterwards every signature in the views and in the round store re-verifies for
// the target it is filed under, and a message without any verifying member signature leaves
// the views unchanged and is not reported as accepted.
func VH_C05_Positions() { vhVotes(false) }

// VH_C05_TwoEntries: the same obligations for messages with two block entries in the voting round.
func VH_C05_TwoEntries() { vhVotes(true) }
