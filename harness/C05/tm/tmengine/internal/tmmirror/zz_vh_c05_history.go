package tmmirror

import (
	"github.com/gordian-engine/gordian/gcrypto"
	"github.com/gordian-engine/gordian/internal/verifrt"
	"github.com/gordian-engine/gordian/internal/verifrt/vkit"
	"github.com/gordian-engine/gordian/tm/tmconsensus"
)

// VH_C05_History: authentic votes over a multi-step history (one validator set throughout):
//   script 0: a prevote for the NEXT round is admitted, then the height commits in the current
//             round (the next-round view is recycled for the new height);
//   script 1: round 0 ends with a nil-precommit majority, the block commits in round 1;
// then optionally the mirror is restarted on the same stores. Afterwards every vote signature
// in the views, in everything that was offered to the gossip strategy, in the round store and
// in the previous-commit proofs the node built must verify for exactly the kind, height,
// round and hash it is filed under.
func VH_C05_History() {
	n := 4
	keys := vkit.Keys(0, n)
	e := vhNewMirror(keys, []uint64{1, 1, 1, 1}, 1)
	pkh := string(e.vs.PubKeyHash)
	script := verifrt.Choose("script", 2)
	commitRound := uint32(0)
	verifrt.Assume(verifrt.UFBool("hashok", vkit.Pack([]byte("A")), 1))
	if script == 0 {
		// a single prevote for B in round 1 of height 1 (below every threshold)
		e.m.HandlePrevoteProofs(e.ctx, tmconsensus.PrevoteSparseProof{Height: 1, Round: 1, PubKeyHash: pkh,
			Proofs: map[string][]gcrypto.SparseSignature{"B": vhValidSigs(keys, vkit.PrevoteContent(1, 1, "B"), 1, 5)}})
	} else {
		e.m.HandlePrecommitProofs(e.ctx, tmconsensus.PrecommitSparseProof{Height: 1, Round: 0, PubKeyHash: pkh,
			Proofs: map[string][]gcrypto.SparseSignature{"": vhValidSigs(keys, vkit.PrecommitContent(1, 0, ""), 15, 6)}})
		commitRound = 1
	}
	verifrt.Assume(keys[0].Verify([]byte{'P', 0, 1, byte(commitRound), 'A'}, []byte("psA")))
	phA := tmconsensus.ProposedHeader{
		Header: tmconsensus.Header{Hash: []byte("A"), PrevBlockHash: []byte("g"), Height: 1,
			ValidatorSet: e.vs, NextValidatorSet: e.vs, DataID: []byte("d"),
			PrevCommitProof: tmconsensus.CommitProof{Proofs: map[string][]gcrypto.SparseSignature{}}},
		Round: commitRound, ProposerPubKey: keys[0], Signature: []byte("psA"),
	}
	verifrt.Assert(e.m.HandleProposedHeader(e.ctx, phA) == tmconsensus.HandleProposedHeaderAccepted, "C05:setup-header-accepted")
	res := e.m.HandlePrecommitProofs(e.ctx, tmconsensus.PrecommitSparseProof{Height: 1, Round: commitRound, PubKeyHash: pkh,
		Proofs: map[string][]gcrypto.SparseSignature{"A": vhValidSigs(keys, vkit.PrecommitContent(1, commitRound, "A"), 15, 1)}})
	verifrt.Assert(res == tmconsensus.HandleVoteProofsAccepted, "C05:setup-precommits-accepted")

	// a lagging validator's authentic vote for the decided height in a LATER round than the one
	// it was decided in, for a target the committing view has no proof for yet
	switch verifrt.Choose("late-vote-for-a-later-round-of-the-decided-height", 3) {
	case 1:
		e.m.HandlePrevoteProofs(e.ctx, tmconsensus.PrevoteSparseProof{Height: 1, Round: commitRound + 1, PubKeyHash: pkh,
			Proofs: map[string][]gcrypto.SparseSignature{"B": vhValidSigs(keys, vkit.PrevoteContent(1, commitRound+1, "B"), 8, 7)}})
		verifrt.Reach("late-prevote-delivered")
	case 2:
		e.m.HandlePrecommitProofs(e.ctx, tmconsensus.PrecommitSparseProof{Height: 1, Round: commitRound + 1, PubKeyHash: pkh,
			Proofs: map[string][]gcrypto.SparseSignature{"": vhValidSigs(keys, vkit.PrecommitContent(1, commitRound+1, ""), 8, 8)}})
		verifrt.Reach("late-precommit-delivered")
	}

	if verifrt.Choose("restart", 2) == 1 {
		verifrt.Assert(e.restart() == nil, "C05:setup-restart")
		verifrt.Reach("restarted")
	}
	var v, c tmconsensus.VersionedRoundView
	verifrt.Assert(e.m.VotingView(e.ctx, &v) == nil && e.m.CommittingView(e.ctx, &c) == nil, "C05:kernel-serves")
	verifrt.Assert(v.Height == 2 && c.Height == 1, "C05:setup-height-1-committed")
	verifrt.Reach("history-done")
	e.verifyViewSignatures("C05:voting", &v)
	e.verifyViewSignatures("C05:committing", &c)
	e.verifyPrevCommitProof("C05:voting", &v, keys)
	verifrt.Assert(len(v.PrevCommitProof.Proofs["A"]) == n, "C05:voting-view-carries-the-commit-proof")
	e.verifyStoredSignatures("C05", 1, 0)
	e.verifyStoredSignatures("C05", 1, 1)
	e.verifyStoredSignatures("C05", 1, 2)
	e.verifyStoredSignatures("C05", 2, 0)
	e.verifyStoredSignatures("C05", 2, 1)
	got := e.verifyGossip("C05")
	verifrt.Assert(got > 0, "C05:gossip-received-updates")
	if ch, err := e.hs.LoadCommittedHeader(e.ctx, 1); err == nil {
		// the commit proof the node stored
		pv := tmconsensus.VersionedRoundView{RoundView: tmconsensus.RoundView{Height: 2, PrevCommitProof: ch.Proof}}
		e.verifyPrevCommitProof("C05:stored-commit-proof", &pv, keys)
	} else {
		verifrt.Fail("C05:committed-header-stored")
	}
}
