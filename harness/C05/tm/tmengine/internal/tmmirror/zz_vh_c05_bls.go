package tmmirror

import (
	"github.com/gordian-engine/gordian/gcrypto"
	"github.com/gordian-engine/gordian/internal/verifrt"
	"github.com/gordian-engine/gordian/internal/verifrt/vkit"
	"github.com/gordian-engine/gordian/tm/tmconsensus"
)

// VH_C05_BLS_Votes: the C05 obligations with the aggregating BLS scheme (3 validators, real
// Mirror + kernel goroutine, real gblsminsig/sigtree on the blst model): optionally a valid
// prevote of validator 0 first, then one prevote or precommit message for the voting or the
// next round with 1-2 sparse entries naming any tree node (leaf, aggregate, alias, padding) or
// an out-of-range id, each with a symbolic signature element (or bytes that do not
// decompress). The handler returns; every signature in the views and the round store
// verifies, under the aggregate of the keys its node stands for, for exactly the target it is
// filed under; every signer bit is backed; a message without any verifying signature leaves
// the views unchanged and is not reported as accepted.
func VH_C05_BLS_Votes() {
	b := vhNewBLS(3)
	e := vhNewMirrorBLS(b, []uint64{1, 1, 1})
	pkh := string(e.vs.PubKeyHash)
	precommit := verifrt.Choose("kind", 2) == 1
	h, r := uint64(1), uint32(verifrt.Choose("round", 2))
	hash := []string{"A", ""}[verifrt.Choose("hash", 2)]
	content := func(pc bool, hh uint64, rr uint32, hs string) []byte {
		if pc {
			return vkit.PrecommitContent(hh, rr, hs)
		}
		return vkit.PrevoteContent(hh, rr, hs)
	}
	if verifrt.Choose("earlier-valid-vote", 2) == 1 {
		res := e.m.HandlePrevoteProofs(e.ctx, tmconsensus.PrevoteSparseProof{Height: 1, Round: 0, PubKeyHash: pkh,
			Proofs: map[string][]gcrypto.SparseSignature{"A": b.honestSparse(1, vkit.PrevoteContent(1, 0, "A"))}})
		verifrt.Assert(res == tmconsensus.HandleVoteProofsAccepted, "C05:bls:setup-valid-vote-accepted")
	}
	cnt := 1 + verifrt.Choose("entries", 2)
	var sigs []gcrypto.SparseSignature
	anyValid := false
	for j := 0; j < cnt; j++ {
		var only []int
		if j > 0 && !verifrt.Thorough() {
			// quick tier: the second entry is a leaf, the aggregate above it, or the aliased node
			only = []int{1, 4, 5}
		}
		sg, ls := b.offerAmong("e", only)
		sigs = append(sigs, sg)
		if ls != 0 {
			anyValid = verifrt.Or(anyValid, b.aggKey(ls).Verify(content(precommit, h, r, hash), sg.Sig))
		}
	}
	var v0, c0 tmconsensus.VersionedRoundView
	verifrt.Assert(e.m.VotingView(e.ctx, &v0) == nil && e.m.CommittingView(e.ctx, &c0) == nil, "C05:bls:kernel-serves")
	vBefore, cBefore := b.digest(&v0), b.digest(&c0)

	var res tmconsensus.HandleVoteProofsResult
	returned := false
	if !verifrt.NoPanic("C05:bls:handler-panics", func() {
		returned = verifrt.MustReturn("C05:bls:handler-does-not-return", func() {
			if precommit {
				res = e.m.HandlePrecommitProofs(e.ctx, tmconsensus.PrecommitSparseProof{Height: h, Round: r, PubKeyHash: pkh, Proofs: map[string][]gcrypto.SparseSignature{hash: sigs}})
			} else {
				res = e.m.HandlePrevoteProofs(e.ctx, tmconsensus.PrevoteSparseProof{Height: h, Round: r, PubKeyHash: pkh, Proofs: map[string][]gcrypto.SparseSignature{hash: sigs}})
			}
		})
	}) || !returned {
		return
	}
	verifrt.Reach("bls-handled")
	verifrt.Observe("result", uint64(res))
	var v, c tmconsensus.VersionedRoundView
	verifrt.Assert(e.m.VotingView(e.ctx, &v) == nil, "C05:bls:kernel-still-serves")
	verifrt.Assert(e.m.CommittingView(e.ctx, &c) == nil, "C05:bls:kernel-still-serves")
	b.verifyViewBLS("C05:bls:voting", &v)
	b.verifyViewBLS("C05:bls:committing", &c)
	b.verifyStoredBLS(e, "C05:bls", 1, 0)
	b.verifyStoredBLS(e, "C05:bls", 1, 1)
	accepted := res == tmconsensus.HandleVoteProofsAccepted || res == tmconsensus.HandleVoteProofsFutureVerified
	if accepted {
		verifrt.Reach("bls-accepted")
	}
	unchanged := vBefore.same(b.digest(&v)) && cBefore.same(b.digest(&c))
	verifrt.Assert(verifrt.Implies(verifrt.Not(anyValid), !accepted), "C05:bls:no-authentic-signature-is-not-accepted")
	verifrt.Assert(verifrt.Implies(verifrt.Not(anyValid), unchanged), "C05:bls:no-authentic-signature-leaves-views-unchanged")
}
