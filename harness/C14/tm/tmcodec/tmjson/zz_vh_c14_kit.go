package tmjson

// C14 harness kit: test key types, registries, builders of arbitrary intermediate
// json* values and of well-formed tmconsensus values, field-by-field comparers.

import (
	"bytes"
	"encoding/json"
	"errors"

	"github.com/gordian-engine/gordian/gcrypto"
	"github.com/gordian-engine/gordian/internal/verifrt"
	"github.com/gordian-engine/gordian/tm/tmconsensus"
)

// vhKey is a public key type whose encoding is its raw bytes (like ed25519's); no crypto.
type vhKey []byte

func (k vhKey) PubKeyBytes() []byte { return []byte(k) }
func (k vhKey) Equal(o gcrypto.PubKey) bool {
	ok, is := o.(vhKey)
	return is && bytes.Equal(k, ok)
}
func (k vhKey) Verify(msg, sig []byte) bool { return false }
func (k vhKey) TypeName() string            { return "vhkey" }

func newVhKey(b []byte) (gcrypto.PubKey, error) { return vhKey(b), nil }

// vhErrKey: a registered type whose constructor rejects every encoding.
type vhErrKey struct{}

func (vhErrKey) PubKeyBytes() []byte         { return nil }
func (vhErrKey) Equal(o gcrypto.PubKey) bool { return false }
func (vhErrKey) Verify(msg, sig []byte) bool { return false }
func (vhErrKey) TypeName() string            { return "vherr" }

// vhRegistry: real ed25519 registration (7-byte name, constructor executes no crypto),
// "vhkey" (5-byte name, zero padded) and, if withErr, "vherr" (constructor always fails).
func vhRegistry(withErr bool) *gcrypto.Registry {
	reg := new(gcrypto.Registry)
	gcrypto.RegisterEd25519(reg)
	reg.Register("vhkey", vhKey(nil), newVhKey)
	if withErr {
		reg.Register("vherr", vhErrKey{}, func([]byte) (gcrypto.PubKey, error) {
			return nil, errors.New("vherr: rejected")
		})
	}
	return reg
}

// vhOptBytes: nil, or 0..max arbitrary bytes.
func vhOptBytes(name string, max int) []byte {
	c := verifrt.Choose(name+"#shape", max+2)
	if c == 0 {
		return nil
	}
	return verifrt.Bytes(name, c-1)
}

// vhPass hands out the byte fields that the conversions only copy (they never influence
// control flow). One choice fixes the shape of all of them: shape 0 = all nil; shape 1 =
// the fields cycle through 2 arbitrary bytes / empty / nil / 1 arbitrary byte.
type vhPass struct {
	tag   string
	shape int
	n     int
}

func newVhPass(tag string) *vhPass {
	return &vhPass{tag: tag, shape: verifrt.Choose(tag+"pass#shape", 2)}
}

func (p *vhPass) next(name string) []byte {
	p.n++
	if p.shape == 0 {
		return nil
	}
	switch p.n % 4 {
	case 1:
		return verifrt.Bytes(p.tag+name, 2)
	case 2:
		return []byte{}
	case 3:
		return nil
	}
	return verifrt.Bytes(p.tag+name, 1)
}

// vhArbSigs: nil / empty / one or two entries with arbitrary short or nil key id and signature.
func vhArbSigs(name string, max int) []gcrypto.SparseSignature {
	c := verifrt.Choose(name+"#sigs", max+2)
	if c == 0 {
		return nil
	}
	out := make([]gcrypto.SparseSignature, c-1)
	for i := range out {
		if i == 1 {
			// second entry: nil fields
			continue
		}
		out[i] = gcrypto.SparseSignature{
			KeyID: verifrt.Bytes(name+"-kid", 2),
			Sig:   verifrt.Bytes(name+"-sig", 2),
		}
	}
	return out
}

// vhArbEntries: nil / 0..max proof entries, block hash nil or 0..hashMax arbitrary bytes.
func vhArbEntries(name string, max, hashMax, sigMax int) []jsonProofEntry {
	c := verifrt.Choose(name+"#entries", max+2)
	if c == 0 {
		return nil
	}
	out := make([]jsonProofEntry, c-1)
	for i := range out {
		nm := name + string(rune('a'+i))
		out[i] = jsonProofEntry{
			BlockHash:  vhOptBytes(nm+"-hash", hashMax),
			Signatures: vhArbSigs(nm, sigMax),
		}
	}
	return out
}

func vhArbCommitProof(name string, maxEntries, hashMax, sigMax int) jsonCommitProof {
	return jsonCommitProof{
		Round:      verifrt.U32(name + "-round"),
		PubKeyHash: vhOptBytes(name+"-pkh", 2),
		Commits:    vhArbEntries(name+"-c", maxEntries, hashMax, sigMax),
	}
}

// key encodings offered to the registry inside the larger structures: nil, 3 bytes (shorter
// than the prefix), 10 bytes, and (proposer key only) exactly 8 bytes; all bytes arbitrary.
// Every length 0..10 is covered by VH_C14_Tot_Validator and VH_C14_RegistryUnmarshal.
var vhKeyShapes = []int{-1, 3, 10, 8}

func vhArbKeyBytes(name string, shapes int) []byte {
	n := vhKeyShapes[verifrt.Choose(name+"#keyshape", shapes)]
	if n < 0 {
		return nil
	}
	return verifrt.Bytes(name, n)
}

func vhArbValidators(name string, max int) []jsonValidator {
	c := verifrt.Choose(name+"#vals", max+2)
	if c == 0 {
		return nil
	}
	out := make([]jsonValidator, c-1)
	for i := range out {
		nm := name + string(rune('0'+i))
		out[i] = jsonValidator{PubKey: vhArbKeyBytes(nm+"-pk", 3), Power: verifrt.U64(nm + "-pow")}
	}
	return out
}

// ---- well-formed values for the round trips

// vhGoodKey: a registered key: vhkey with no key bytes / vhkey with 2 arbitrary bytes /
// ed25519 with 3 arbitrary bytes.
func vhGoodKey(name string) gcrypto.PubKey {
	switch verifrt.Choose(name+"#kind", 3) {
	case 0:
		return vhKey([]byte{})
	case 1:
		return vhKey(verifrt.Bytes(name, 2))
	}
	return gcrypto.Ed25519PubKey(verifrt.Bytes(name, 3))
}

func vhGoodValSet(name string, max int, p *vhPass) tmconsensus.ValidatorSet {
	n := verifrt.Choose(name+"#n", max+1)
	vs := tmconsensus.ValidatorSet{
		Validators:    make([]tmconsensus.Validator, n),
		PubKeys:       make([]gcrypto.PubKey, n),
		PubKeyHash:    p.next(name + "-pkh"),
		VotePowerHash: p.next(name + "-vph"),
	}
	for i := range vs.Validators {
		nm := name + string(rune('0'+i))
		k := vhGoodKey(nm + "-key")
		vs.Validators[i] = tmconsensus.Validator{PubKey: k, Power: verifrt.U64(nm + "-pow")}
		vs.PubKeys[i] = k
	}
	return vs
}

func vhGoodSigs(name string, shapes int) []gcrypto.SparseSignature {
	switch verifrt.Choose(name+"#sigs", shapes) {
	case 1:
		return nil
	case 2:
		return []gcrypto.SparseSignature{}
	}
	return []gcrypto.SparseSignature{
		{KeyID: verifrt.Bytes(name+"-kid", 2), Sig: verifrt.Bytes(name+"-sig", 2)},
		{KeyID: nil, Sig: []byte{}},
	}
}

// vhGoodProofs: nil map / empty map / 1..max entries keyed by distinct block hashes:
// the first may be the nil block (""), the others 1 arbitrary byte.
func vhGoodProofs(name string, max int) map[string][]gcrypto.SparseSignature {
	c := verifrt.Choose(name+"#proofs", max+2)
	if c == 0 {
		return nil
	}
	m := make(map[string][]gcrypto.SparseSignature, c-1)
	for i := 0; i < c-1; i++ {
		nm := name + string(rune('a'+i))
		var k string
		if i == 0 && verifrt.Choose(nm+"#nilblock", 2) == 0 {
			k = ""
		} else {
			k = string(verifrt.Bytes(nm+"-hash", 1))
		}
		_, dup := m[k]
		verifrt.Assume(!dup)
		if i == 0 {
			m[k] = vhGoodSigs(nm, 3) // two signatures / nil / empty
		} else {
			m[k] = vhGoodSigs(nm, 1)
		}
	}
	return m
}

func vhGoodCommitProof(name string, max int) tmconsensus.CommitProof {
	if verifrt.Choose(name+"#zero", 2) == 0 {
		return tmconsensus.CommitProof{}
	}
	return tmconsensus.CommitProof{
		Round:      verifrt.U32(name + "-round"),
		PubKeyHash: string(verifrt.Bytes(name+"-pkh", 2*verifrt.Choose(name+"-pkh#len", 2))),
		Proofs:     vhGoodProofs(name+"-p", max),
	}
}

func vhGoodHeader(name string, maxVals, maxNext, maxProofs int) tmconsensus.Header {
	p := newVhPass(name)
	return tmconsensus.Header{
		Hash:             p.next("hash"),
		PrevBlockHash:    p.next("prev"),
		Height:           verifrt.U64(name + "height"),
		PrevCommitProof:  vhGoodCommitProof(name+"pcp", maxProofs),
		ValidatorSet:     vhGoodValSet(name+"vs", maxVals, p),
		NextValidatorSet: vhGoodValSet(name+"nvs", maxNext, p),
		DataID:           p.next("data"),
		PrevAppStateHash: p.next("app"),
		Annotations:      tmconsensus.Annotations{User: p.next("ua"), Driver: p.next("da")},
	}
}

// ---- comparers (every difference is a violation with its own label)

func vhSameBytes(a, b []byte, label string) {
	verifrt.Assert(bytes.Equal(a, b), label)
	verifrt.Assert((a == nil) == (b == nil), label+":nil-vs-empty")
}

func vhSameKey(a, b gcrypto.PubKey, label string) {
	if a == nil || b == nil {
		verifrt.Assert(a == nil && b == nil, label+":nil-key")
		return
	}
	switch ka := a.(type) {
	case vhKey:
		kb, ok := b.(vhKey)
		verifrt.Assert(ok, label+":key-type")
		verifrt.Assert(bytes.Equal(ka, kb), label+":key-bytes")
	case gcrypto.Ed25519PubKey:
		kb, ok := b.(gcrypto.Ed25519PubKey)
		verifrt.Assert(ok, label+":key-type")
		verifrt.Assert(bytes.Equal(ka, kb), label+":key-bytes")
	default:
		verifrt.Fail(label + ":unexpected-key-type")
	}
}

func vhSameSigs(a, b []gcrypto.SparseSignature, label string) {
	verifrt.Assert(len(a) == len(b), label+":sig-count")
	verifrt.Assert((a == nil) == (b == nil), label+":sigs-nil-vs-empty")
	if len(a) != len(b) {
		return
	}
	for i := range a {
		vhSameBytes(a[i].KeyID, b[i].KeyID, label+":key-id")
		vhSameBytes(a[i].Sig, b[i].Sig, label+":sig")
	}
}

// vhSameProofs: same block hashes with the same signatures. A nil map and an empty map
// are NOT distinguished (the repository's own compliance tests normalise that).
func vhSameProofs(a, b map[string][]gcrypto.SparseSignature, label string) {
	verifrt.Assert(len(a) == len(b), label+":entry-count")
	for k, sa := range a {
		sb, ok := b[k]
		verifrt.Assert(ok, label+":entry-lost")
		if ok {
			vhSameSigs(sa, sb, label)
		}
	}
}

func vhSameCommitProof(a, b tmconsensus.CommitProof, label string) {
	verifrt.Assert(a.Round == b.Round, label+":round")
	verifrt.Assert(a.PubKeyHash == b.PubKeyHash, label+":pubkeyhash")
	vhSameProofs(a.Proofs, b.Proofs, label)
}

func vhSameValSet(a, b tmconsensus.ValidatorSet, label string) {
	verifrt.Assert(len(a.Validators) == len(b.Validators), label+":validator-count")
	verifrt.Assert(len(b.PubKeys) == len(b.Validators), label+":pubkeys-count")
	if len(a.Validators) == len(b.Validators) && len(b.PubKeys) == len(b.Validators) {
		for i := range a.Validators {
			verifrt.Assert(a.Validators[i].Power == b.Validators[i].Power, label+":power")
			vhSameKey(a.Validators[i].PubKey, b.Validators[i].PubKey, label+":validator")
			vhSameKey(a.PubKeys[i], b.PubKeys[i], label+":pubkeys")
		}
	}
	vhSameBytes(a.PubKeyHash, b.PubKeyHash, label+":pubkeyhash")
	vhSameBytes(a.VotePowerHash, b.VotePowerHash, label+":votepowerhash")
}

func vhSameHeader(a, b tmconsensus.Header, label string) {
	vhSameBytes(a.Hash, b.Hash, label+":hash")
	vhSameBytes(a.PrevBlockHash, b.PrevBlockHash, label+":prevblockhash")
	verifrt.Assert(a.Height == b.Height, label+":height")
	vhSameCommitProof(a.PrevCommitProof, b.PrevCommitProof, label+":prevcommitproof")
	vhSameValSet(a.ValidatorSet, b.ValidatorSet, label+":valset")
	vhSameValSet(a.NextValidatorSet, b.NextValidatorSet, label+":nextvalset")
	vhSameBytes(a.DataID, b.DataID, label+":dataid")
	vhSameBytes(a.PrevAppStateHash, b.PrevAppStateHash, label+":prevappstatehash")
	vhSameBytes(a.Annotations.User, b.Annotations.User, label+":user-annotation")
	vhSameBytes(a.Annotations.Driver, b.Annotations.Driver, label+":driver-annotation")
}

func vhSameProposedHeader(a, b tmconsensus.ProposedHeader, label string) {
	vhSameHeader(a.Header, b.Header, label+":header")
	verifrt.Assert(a.Round == b.Round, label+":round")
	vhSameKey(a.ProposerPubKey, b.ProposerPubKey, label+":proposer")
	vhSameBytes(a.Signature, b.Signature, label+":signature")
	vhSameBytes(a.Annotations.User, b.Annotations.User, label+":ph-user-annotation")
	vhSameBytes(a.Annotations.Driver, b.Annotations.Driver, label+":ph-driver-annotation")
}

// vhJSON is the real encoder applied to an intermediate value.
func vhJSON(v any) []byte {
	b, err := json.Marshal(v)
	if err != nil {
		panic("vhJSON: " + err.Error())
	}
	return b
}
