package tmjson

// C14 totality: the real conversions from ARBITRARY intermediate values (what
// json.Unmarshal may hand over for arbitrary input bytes) return a value or an error,
// never panic.

import (
	"github.com/gordian-engine/gordian/gcrypto"
	"github.com/gordian-engine/gordian/internal/verifrt"
	"github.com/gordian-engine/gordian/tm/tmcodec"
	"github.com/gordian-engine/gordian/tm/tmconsensus"
)

func vhMaxEntries() int {
	if verifrt.Thorough() {
		return 2
	}
	return 2
}

// VH_C14_Tot_Validator: jsonValidator.ToValidator, public key nil or 0..10 arbitrary bytes.
func VH_C14_Tot_Validator() {
	reg := vhRegistry(true)
	jv := jsonValidator{PubKey: vhOptBytes("pk", 10), Power: verifrt.U64("power")}
	var v tmconsensus.Validator
	var err error
	ok := verifrt.NoPanic("T:to-validator-panics", func() {
		v, err = jv.ToValidator(reg)
	})
	if !ok {
		return
	}
	if err != nil {
		verifrt.Reach("validator-error")
		return
	}
	verifrt.Reach("validator-ok")
	verifrt.Observe("validator", v.Power, uint64(len(jv.PubKey)))
	verifrt.Assert(v.PubKey != nil, "T:validator-nil-key-without-error")
	verifrt.Assert(v.Power == jv.Power, "T:validator-power-differs")
}

// VH_C14_Tot_CommitProof: jsonCommitProof.ToCommitProof, nil / 0..2 entries, nil or short
// arbitrary block hashes (duplicates included), nil / empty / non-empty signature lists.
func VH_C14_Tot_CommitProof() {
	jcp := vhArbCommitProof("cp", vhMaxEntries(), 2, 1)
	var p tmconsensus.CommitProof
	var err error
	ok := verifrt.NoPanic("T:to-commit-proof-panics", func() {
		p, err = jcp.ToCommitProof()
	})
	if !ok {
		return
	}
	verifrt.Assert(err == nil, "T:commit-proof-error")
	verifrt.Reach("commit-proof-converted")
	verifrt.Observe("commit-proof", uint64(p.Round), uint64(len(p.Proofs)), uint64(len(jcp.Commits)))
	verifrt.Assert(p.Round == jcp.Round, "T:commit-proof-round-differs")
	verifrt.Assert(p.PubKeyHash == string(jcp.PubKeyHash), "T:commit-proof-pubkeyhash-differs")
	verifrt.Assert(p.Proofs != nil, "T:commit-proof-nil-map")
	verifrt.Assert(len(p.Proofs) <= len(jcp.Commits), "T:commit-proof-more-entries-than-commits")
	for _, e := range jcp.Commits {
		_, has := p.Proofs[string(e.BlockHash)]
		verifrt.Assert(has, "T:commit-proof-entry-lost")
	}
}

// vhArbHeader: arbitrary jsonHeader: 0..maxVals / 0..maxNext validators with nil, short, exact
// and long arbitrary key encodings; previous commit proof absent (nil PubKeyHash) or present.
func vhArbHeader(tag string, maxVals, maxNext int) jsonHeader {
	p := newVhPass(tag)
	var jh jsonHeader
	jh.Hash = p.next("hash")
	jh.PrevBlockHash = p.next("prev")
	jh.Height = verifrt.U64(tag + "height")
	switch verifrt.Choose(tag+"pcp#shape", 3) {
	case 0: // zero value: nil PubKeyHash
	case 1:
		jh.PrevCommitProof = jsonCommitProof{Round: verifrt.U32(tag + "pcp-round"), PubKeyHash: []byte{}}
	case 2:
		jh.PrevCommitProof = jsonCommitProof{
			Round:      verifrt.U32(tag + "pcp-round"),
			PubKeyHash: verifrt.Bytes(tag+"pcp-pkh", 1),
			Commits: []jsonProofEntry{
				{BlockHash: verifrt.Bytes(tag+"pcp-h0", 1), Signatures: []gcrypto.SparseSignature{{KeyID: verifrt.Bytes(tag+"pcp-kid", 1), Sig: verifrt.Bytes(tag+"pcp-sig", 1)}}},
				{BlockHash: verifrt.Bytes(tag+"pcp-h1", 1)},
			},
		}
	}
	jh.ValidatorSet.Validators = vhArbValidators(tag+"v", maxVals)
	jh.ValidatorSet.PubKeyHash = p.next("vs-pkh")
	jh.ValidatorSet.VotePowerHash = p.next("vs-vph")
	jh.NextValidatorSet.Validators = vhArbValidators(tag+"n", maxNext)
	jh.NextValidatorSet.PubKeyHash = p.next("nvs-pkh")
	jh.NextValidatorSet.VotePowerHash = p.next("nvs-vph")
	jh.DataID = p.next("data")
	jh.PrevAppStateHash = p.next("app")
	jh.UserAnnotation = p.next("ua")
	jh.DriverAnnotation = p.next("da")
	return jh
}

func vhCheckDecodedHeader(jh jsonHeader, h tmconsensus.Header, label string) {
	verifrt.Assert(h.Height == jh.Height, label+"-height-differs")
	verifrt.Assert(len(h.ValidatorSet.Validators) == len(jh.ValidatorSet.Validators), label+"-validator-count")
	verifrt.Assert(len(h.ValidatorSet.PubKeys) == len(jh.ValidatorSet.Validators), label+"-pubkeys-count")
	verifrt.Assert(len(h.NextValidatorSet.Validators) == len(jh.NextValidatorSet.Validators), label+"-next-validator-count")
	for _, v := range h.ValidatorSet.Validators {
		verifrt.Assert(v.PubKey != nil, label+"-nil-validator-key")
	}
	for _, v := range h.NextValidatorSet.Validators {
		verifrt.Assert(v.PubKey != nil, label+"-nil-next-validator-key")
	}
}

// VH_C14_Tot_Header: jsonHeader.ToHeader.
func VH_C14_Tot_Header() {
	reg := vhRegistry(true)
	maxNext := 1
	if verifrt.Thorough() {
		maxNext = 2
	}
	jh := vhArbHeader("h-", 2, maxNext)
	var h tmconsensus.Header
	var err error
	ok := verifrt.NoPanic("T:to-header-panics", func() {
		h, err = jh.ToHeader(reg)
	})
	if !ok {
		return
	}
	if err != nil {
		verifrt.Reach("header-error")
		return
	}
	verifrt.Reach("header-ok")
	verifrt.Observe("header", h.Height, uint64(len(h.ValidatorSet.Validators)), uint64(len(h.NextValidatorSet.Validators)), uint64(len(h.PrevCommitProof.Proofs)))
	vhCheckDecodedHeader(jh, h, "T:header")
}

// VH_C14_Tot_ProposedHeader: jsonProposedHeader.ToProposedHeader; proposer key nil or
// arbitrary bytes below / at / above the prefix size; header part with 0..1 validators.
func VH_C14_Tot_ProposedHeader() {
	reg := vhRegistry(true)
	jph := jsonProposedHeader{
		Header:         vhArbHeader("h-", 1, 0),
		Round:          verifrt.U32("round"),
		ProposerPubKey: vhArbKeyBytes("proposer", 4),
	}
	switch verifrt.Choose("ph#shape", 3) {
	case 1:
		jph.Signature, jph.UserAnnotation, jph.DriverAnnotation = []byte{}, []byte{}, []byte{}
	case 2:
		jph.Signature, jph.UserAnnotation, jph.DriverAnnotation = verifrt.Bytes("sig", 2), verifrt.Bytes("ua", 1), verifrt.Bytes("da", 1)
	}
	var ph tmconsensus.ProposedHeader
	var err error
	ok := verifrt.NoPanic("T:to-proposed-header-panics", func() {
		ph, err = jph.ToProposedHeader(reg)
	})
	if !ok {
		return
	}
	if err != nil {
		verifrt.Reach("proposed-header-error")
		return
	}
	verifrt.Reach("proposed-header-ok")
	verifrt.Observe("proposed-header", ph.Header.Height, uint64(ph.Round), uint64(len(ph.Header.ValidatorSet.Validators)))
	vhCheckDecodedHeader(jph.Header, ph.Header, "T:proposed-header")
	verifrt.Assert(ph.Round == jph.Round, "T:proposed-header-round-differs")
	verifrt.Assert((ph.ProposerPubKey == nil) == (jph.ProposerPubKey == nil), "T:proposed-header-proposer-presence")
}

// VH_C14_Tot_CommittedHeader: jsonCommittedHeader.ToCommittedHeader.
func VH_C14_Tot_CommittedHeader() {
	reg := vhRegistry(true)
	// arbitrary commit proofs: VH_C14_Tot_CommitProof; here three representative shapes
	jch := jsonCommittedHeader{Header: vhArbHeader("h-", 1, 0)}
	switch verifrt.Choose("proof#shape", 3) {
	case 1:
		jch.Proof = jsonCommitProof{Round: verifrt.U32("proof-round"), PubKeyHash: []byte{}, Commits: []jsonProofEntry{}}
	case 2:
		jch.Proof = vhArbCommitProof("proof", 1, 1, 0)
	}
	var ch tmconsensus.CommittedHeader
	var err error
	ok := verifrt.NoPanic("T:to-committed-header-panics", func() {
		ch, err = jch.ToCommittedHeader(reg)
	})
	if !ok {
		return
	}
	if err != nil {
		verifrt.Reach("committed-header-error")
		return
	}
	verifrt.Reach("committed-header-ok")
	verifrt.Observe("committed-header", ch.Header.Height, uint64(ch.Proof.Round), uint64(len(ch.Proof.Proofs)))
	vhCheckDecodedHeader(jch.Header, ch.Header, "T:committed-header")
	verifrt.Assert(ch.Proof.Round == jch.Proof.Round, "T:committed-header-proof-round-differs")
}

// VH_C14_Tot_SparseProofs: the real UnmarshalPrevoteProof / UnmarshalPrecommitProof on the
// JSON of an arbitrary jsonSparseProof (json contract: Unmarshal hands back that value),
// and on bytes that are not JSON at all.
func VH_C14_Tot_SparseProofs() {
	c := MarshalCodec{CryptoRegistry: vhRegistry(false)}
	kind := verifrt.Choose("kind", 2)
	var input []byte
	var jsp jsonSparseProof
	garbage := verifrt.Choose("input", 4)
	switch garbage {
	case 0:
		jsp = jsonSparseProof{
			Height:     verifrt.U64("height"),
			Round:      verifrt.U32("round"),
			PubKeyHash: vhOptBytes("pkh", 2),
			Proofs:     vhArbEntries("e", vhMaxEntries(), 2, 1),
		}
		input = vhJSON(jsp)
	case 1:
		input = nil
	case 2:
		input = []byte{}
	case 3:
		input = []byte(`{"Height":`)
	}
	var err error
	var height uint64
	var round uint32
	var pkh string
	var proofs map[string][]gcrypto.SparseSignature
	panicked := verifrt.Panics(func() {
		if kind == 0 {
			var p tmconsensus.PrevoteSparseProof
			err = c.UnmarshalPrevoteProof(input, &p)
			height, round, pkh, proofs = p.Height, p.Round, p.PubKeyHash, p.Proofs
		} else {
			var p tmconsensus.PrecommitSparseProof
			err = c.UnmarshalPrecommitProof(input, &p)
			height, round, pkh, proofs = p.Height, p.Round, p.PubKeyHash, p.Proofs
		}
	})
	if panicked {
		verifrt.Fail("T:unmarshal-sparse-proof-panics")
		return
	}
	if garbage != 0 {
		verifrt.Reach("sparse-proof-not-json")
		verifrt.Assert(err != nil, "T:sparse-proof-non-json-accepted")
		return
	}
	verifrt.Reach("sparse-proof-decoded")
	verifrt.Assert(err == nil, "T:sparse-proof-error")
	verifrt.Observe("sparse-proof", height, uint64(round), uint64(len(proofs)), uint64(len(jsp.Proofs)))
	verifrt.Assert(height == jsp.Height, "T:sparse-proof-height-differs")
	verifrt.Assert(round == jsp.Round, "T:sparse-proof-round-differs")
	verifrt.Assert(pkh == string(jsp.PubKeyHash), "T:sparse-proof-pubkeyhash-differs")
	verifrt.Assert(proofs != nil, "T:sparse-proof-nil-map")
	verifrt.Assert(len(proofs) <= len(jsp.Proofs), "T:sparse-proof-more-entries-than-listed")
	for _, e := range jsp.Proofs {
		_, has := proofs[string(e.BlockHash)]
		verifrt.Assert(has, "T:sparse-proof-entry-lost")
	}
}

// VH_C14_Tot_ConsensusMessage: UnmarshalConsensusMessage on the JSON of an arbitrary
// envelope: every subset of the three fields present (the documented "exactly one" is NOT
// assumed), each present field holding the JSON of an intermediate value; plus non-JSON.
// Public keys inside are nil or at least 8 bytes here (short encodings: VH_C14_Tot_*Header,
// which do not go through encoding/json and therefore control slice capacity exactly).
func VH_C14_Tot_ConsensusMessage() {
	c := MarshalCodec{CryptoRegistry: vhRegistry(true)}
	mask := verifrt.Choose("fields", 9)
	var input []byte
	var jcm jsonConsensusMessage
	var phHeight, pvHeight, pcHeight uint64
	if mask < 8 {
		if mask&1 != 0 {
			jph := jsonProposedHeader{Round: verifrt.U32("ph-round")}
			phHeight = verifrt.U64("ph-height")
			jph.Header.Height = phHeight
			switch verifrt.Choose("ph-proposer", 3) {
			case 1:
				jph.ProposerPubKey = verifrt.Bytes("ph-proposer", 8)
			case 2:
				jph.ProposerPubKey = verifrt.Bytes("ph-proposer", 9)
			}
			jcm.ProposedHeader = vhJSON(jph)
		}
		pvHeight, pcHeight = verifrt.U64("pv-height"), verifrt.U64("pc-height")
		if mask&2 != 0 {
			jcm.PrevoteProof = vhJSON(jsonSparseProof{Height: pvHeight, Proofs: vhArbEntries("pv", 1, 1, 1)})
		}
		if mask&4 != 0 {
			jcm.PrecommitProof = vhJSON(jsonSparseProof{Height: pcHeight, Proofs: vhArbEntries("pc", 1, 1, 1)})
		}
		input = vhJSON(jcm)
	} else {
		input = []byte(`{"ProposedHeader":`)
	}
	var m tmcodec.ConsensusMessage
	var err error
	if verifrt.Panics(func() { err = c.UnmarshalConsensusMessage(input, &m) }) {
		verifrt.Fail("T:unmarshal-consensus-message-panics")
		return
	}
	if mask == 8 {
		verifrt.Reach("message-not-json")
		verifrt.Assert(err != nil, "T:message-non-json-accepted")
		return
	}
	set := 0
	if m.ProposedHeader != nil {
		set |= 1
	}
	if m.PrevoteProof != nil {
		set |= 2
	}
	if m.PrecommitProof != nil {
		set |= 4
	}
	verifrt.Observe("message", uint64(mask), uint64(set))
	if err != nil {
		verifrt.Reach("message-error")
		verifrt.Assert(set == 0, "T:message-error-with-value")
		return
	}
	verifrt.Reach("message-decoded")
	// at most one variant comes out, it was present in the envelope, and nothing comes out of an empty envelope
	verifrt.Assert(set == 0 || set == 1 || set == 2 || set == 4, "T:message-several-variants")
	verifrt.Assert(set&mask == set, "T:message-variant-not-in-envelope")
	verifrt.Assert((set == 0) == (mask == 0), "T:message-variant-presence")
	// the first present field wins, and its content is the decoded content
	switch {
	case mask&1 != 0:
		verifrt.Assert(set == 1 && m.ProposedHeader.Header.Height == phHeight, "T:message-proposed-header-content")
	case mask&2 != 0:
		verifrt.Assert(set == 2 && m.PrevoteProof.Height == pvHeight, "T:message-prevote-content")
	case mask&4 != 0:
		verifrt.Assert(set == 4 && m.PrecommitProof.Height == pcHeight, "T:message-precommit-content")
	}
}
