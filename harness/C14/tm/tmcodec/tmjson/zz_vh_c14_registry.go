package tmjson

import (
	"bytes"

	"github.com/gordian-engine/gordian/gcrypto"
	"github.com/gordian-engine/gordian/internal/verifrt"
)

// VH_C14_RegistryUnmarshal: Registry.Unmarshal over every byte string of length 0..10
// (and nil) returns a key or an error, never panics. The byte string is offered both with
// capacity == length and with spare capacity (encoding/json hands out base64-decoded
// slices whose capacity may exceed their length).
func VH_C14_RegistryUnmarshal() {
	reg := vhRegistry(true)
	var b []byte
	c := verifrt.Choose("pk#len", 12)
	if c > 0 {
		n := c - 1
		if verifrt.Choose("pk#sparecap", 2) == 1 {
			b = verifrt.Bytes("pk", 10)[:n]
		} else {
			b = verifrt.Bytes("pk", n)
		}
	}
	verifrt.Observe("input", uint64(len(b)), uint64(cap(b)))
	var k gcrypto.PubKey
	var err error
	ok := verifrt.NoPanic("T:registry-unmarshal-panics", func() {
		k, err = reg.Unmarshal(b)
	})
	if !ok {
		return
	}
	if err != nil {
		verifrt.Reach("registry-unmarshal-error")
		verifrt.Assert(k == nil, "T:registry-error-with-key")
		return
	}
	verifrt.Reach("registry-unmarshal-ok")
	verifrt.Assert(k != nil, "T:registry-nil-key-without-error")
	if k == nil {
		return
	}
	verifrt.ObserveBytes("keybytes", k.PubKeyBytes())
	// the decoded key carries exactly the bytes after the prefix, and its type is the one named by the prefix
	verifrt.Assert(bytes.Equal(k.PubKeyBytes(), b[8:]), "T:registry-key-bytes-differ")
	switch k.(type) {
	case vhKey:
		verifrt.Reach("registry-unmarshal-vhkey")
		verifrt.Assert(bytes.Equal(b[:8], []byte("vhkey\x00\x00\x00")), "T:registry-wrong-type-for-prefix")
	case gcrypto.Ed25519PubKey:
		verifrt.Reach("registry-unmarshal-ed25519")
		verifrt.Assert(bytes.Equal(b[:8], []byte("ed25519\x00")), "T:registry-wrong-type-for-prefix")
	default:
		verifrt.Fail("T:registry-unexpected-key-type")
	}
}

// VH_C14_RegistryDecode: Registry.Decode for registered and unregistered type names and
// arbitrary key bytes: a key or an error, never a panic.
func VH_C14_RegistryDecode() {
	reg := vhRegistry(true)
	names := []string{"ed25519", "vhkey", "vherr", "", "nope", "ed25519\x00"}
	ni := verifrt.Choose("name", len(names))
	b := vhOptBytes("kb", 3)
	var k gcrypto.PubKey
	var err error
	ok := verifrt.NoPanic("T:registry-decode-panics", func() {
		k, err = reg.Decode(names[ni], b)
	})
	if !ok {
		return
	}
	if err != nil {
		verifrt.Reach("registry-decode-error")
		verifrt.Assert(ni >= 2, "T:registry-decode-rejects-registered-name")
		return
	}
	verifrt.Reach("registry-decode-ok")
	verifrt.Assert(ni < 2, "T:registry-decode-accepts-unregistered-name")
	verifrt.Assert(k != nil && bytes.Equal(k.PubKeyBytes(), b), "T:registry-decode-key-bytes-differ")
}

// VH_C14_RegistryRoundTrip: Unmarshal(Marshal(k)) equals k (same type, same bytes, Equal).
func VH_C14_RegistryRoundTrip() {
	reg := vhRegistry(false)
	var k gcrypto.PubKey
	lens := []int{0, 1, 3, 32}
	b := verifrt.Bytes("key", lens[verifrt.Choose("key#len", len(lens))])
	isVh := verifrt.Choose("key#type", 2) == 0
	if isVh {
		k = vhKey(b)
	} else {
		k = gcrypto.Ed25519PubKey(b)
	}
	var enc []byte
	var k2 gcrypto.PubKey
	var err error
	ok := verifrt.NoPanic("R:registry-roundtrip-panics", func() {
		enc = reg.Marshal(k)
		k2, err = reg.Unmarshal(enc)
	})
	if !ok {
		return
	}
	verifrt.Reach("registry-roundtrip-done")
	verifrt.ObserveBytes("encoded", enc)
	verifrt.Assert(len(enc) == 8+len(b), "R:registry-encoding-length")
	verifrt.Assert(err == nil, "R:registry-roundtrip-error")
	if err != nil {
		return
	}
	vhSameKey(k, k2, "R:registry")
	verifrt.Assert(k.Equal(k2), "R:registry-not-Equal")
	verifrt.Assert(k2.TypeName() == k.TypeName(), "R:registry-type-name")
}
