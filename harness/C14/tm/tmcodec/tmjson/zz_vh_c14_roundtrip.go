package tmjson

// C14 round trips through the real MarshalCodec API. encoding/json is replaced by its
// contract under gsx (Marshal then Unmarshal of the intermediate struct is the identity)
// and is the real thing in the native replay of every path.

import (
	"github.com/gordian-engine/gordian/gcrypto"
	"github.com/gordian-engine/gordian/internal/verifrt"
	"github.com/gordian-engine/gordian/tm/tmcodec"
	"github.com/gordian-engine/gordian/tm/tmconsensus"
)

func vhMaxNext() int {
	if verifrt.Thorough() {
		return 2
	}
	return 1
}

// VH_C14_RT_Header: UnmarshalHeader(MarshalHeader(h)) equals h in every field.
func VH_C14_RT_Header() {
	verifrt.MapOrderFuncs("toJSONCommitProof")
	c := MarshalCodec{CryptoRegistry: vhRegistry(false)}
	h := vhGoodHeader("h-", 2, vhMaxNext(), 2)
	var h2 tmconsensus.Header
	var err error
	if verifrt.Panics(func() {
		var b []byte
		b, err = c.MarshalHeader(h)
		if err == nil {
			err = c.UnmarshalHeader(b, &h2)
		}
	}) {
		verifrt.Fail("R:header-roundtrip-panics")
		return
	}
	verifrt.Reach("header-roundtrip-done")
	verifrt.Assert(err == nil, "R:header-roundtrip-error")
	if err != nil {
		return
	}
	verifrt.Observe("header", h2.Height, uint64(len(h2.ValidatorSet.Validators)), uint64(len(h2.NextValidatorSet.Validators)), uint64(h2.PrevCommitProof.Round), uint64(len(h2.PrevCommitProof.Proofs)))
	verifrt.ObserveBytes("header-hash", h2.Hash)
	vhSameHeader(h, h2, "R:header")
}

// VH_C14_RT_ProposedHeader: proposer key nil or registered, signature and annotations
// nil / empty / non-empty; header part with 0..1 validators.
func VH_C14_RT_ProposedHeader() {
	verifrt.MapOrderFuncs("toJSONCommitProof")
	c := MarshalCodec{CryptoRegistry: vhRegistry(false)}
	ph := tmconsensus.ProposedHeader{
		Header: vhGoodHeader("h-", 1, 0, 1),
		Round:  verifrt.U32("round"),
	}
	if verifrt.Choose("proposer#present", 2) == 1 {
		ph.ProposerPubKey = vhGoodKey("proposer")
	}
	switch verifrt.Choose("ph#shape", 4) {
	case 1:
		ph.Signature, ph.Annotations.User, ph.Annotations.Driver = []byte{}, []byte{}, []byte{}
	case 2:
		ph.Signature, ph.Annotations.User, ph.Annotations.Driver = verifrt.Bytes("sig", 3), verifrt.Bytes("ua", 1), verifrt.Bytes("da", 2)
	case 3:
		ph.Signature, ph.Annotations.User, ph.Annotations.Driver = verifrt.Bytes("sig", 1), nil, []byte{}
	}
	var ph2 tmconsensus.ProposedHeader
	var err error
	if verifrt.Panics(func() {
		var b []byte
		b, err = c.MarshalProposedHeader(ph)
		if err == nil {
			err = c.UnmarshalProposedHeader(b, &ph2)
		}
	}) {
		verifrt.Fail("R:proposed-header-roundtrip-panics")
		return
	}
	verifrt.Reach("proposed-header-roundtrip-done")
	verifrt.Assert(err == nil, "R:proposed-header-roundtrip-error")
	if err != nil {
		return
	}
	verifrt.Observe("proposed-header", ph2.Header.Height, uint64(ph2.Round), uint64(len(ph2.Header.ValidatorSet.Validators)))
	verifrt.ObserveBytes("proposed-header-sig", ph2.Signature)
	vhSameProposedHeader(ph, ph2, "R:proposed-header")
}

// VH_C14_RT_CommittedHeader: header part with 0..1 validators, proof with 0..2 entries.
func VH_C14_RT_CommittedHeader() {
	verifrt.MapOrderFuncs("toJSONCommitProof")
	c := MarshalCodec{CryptoRegistry: vhRegistry(false)}
	ch := tmconsensus.CommittedHeader{
		Header: vhGoodHeader("h-", 1, 0, 0),
		Proof:  vhGoodCommitProof("proof", 2),
	}
	var ch2 tmconsensus.CommittedHeader
	var err error
	if verifrt.Panics(func() {
		var b []byte
		b, err = c.MarshalCommittedHeader(ch)
		if err == nil {
			err = c.UnmarshalCommittedHeader(b, &ch2)
		}
	}) {
		verifrt.Fail("R:committed-header-roundtrip-panics")
		return
	}
	verifrt.Reach("committed-header-roundtrip-done")
	verifrt.Assert(err == nil, "R:committed-header-roundtrip-error")
	if err != nil {
		return
	}
	verifrt.Observe("committed-header", ch2.Header.Height, uint64(ch2.Proof.Round), uint64(len(ch2.Proof.Proofs)))
	vhSameHeader(ch.Header, ch2.Header, "R:committed-header")
	vhSameCommitProof(ch.Proof, ch2.Proof, "R:committed-header:proof")
}

type vhSparse struct {
	Height     uint64
	Round      uint32
	PubKeyHash string
	Proofs     map[string][]gcrypto.SparseSignature
}

func vhGoodSparse(name string, max int) vhSparse {
	return vhSparse{
		Height:     verifrt.U64(name + "-height"),
		Round:      verifrt.U32(name + "-round"),
		PubKeyHash: string(verifrt.Bytes(name+"-pkh", 2*verifrt.Choose(name+"-pkh#len", 2))),
		Proofs:     vhGoodProofs(name+"-p", max),
	}
}

func vhSameSparse(a, b vhSparse, label string) {
	verifrt.Assert(a.Height == b.Height, label+":height")
	verifrt.Assert(a.Round == b.Round, label+":round")
	verifrt.Assert(a.PubKeyHash == b.PubKeyHash, label+":pubkeyhash")
	vhSameProofs(a.Proofs, b.Proofs, label)
}

// VH_C14_RT_SparseProofs: prevote and precommit sparse proofs, 0..2 block entries (nil
// block included), all map iteration orders in the encoder.
func VH_C14_RT_SparseProofs() {
	verifrt.MapOrderFuncs("MarshalPrevoteProof,MarshalPrecommitProof")
	c := MarshalCodec{CryptoRegistry: vhRegistry(false)}
	kind := verifrt.Choose("kind", 2)
	v := vhGoodSparse("sp", 2)
	var v2 vhSparse
	var err error
	if verifrt.Panics(func() {
		var b []byte
		if kind == 0 {
			b, err = c.MarshalPrevoteProof(tmconsensus.PrevoteSparseProof{Height: v.Height, Round: v.Round, PubKeyHash: v.PubKeyHash, Proofs: v.Proofs})
			if err == nil {
				var p tmconsensus.PrevoteSparseProof
				err = c.UnmarshalPrevoteProof(b, &p)
				v2 = vhSparse{p.Height, p.Round, p.PubKeyHash, p.Proofs}
			}
		} else {
			b, err = c.MarshalPrecommitProof(tmconsensus.PrecommitSparseProof{Height: v.Height, Round: v.Round, PubKeyHash: v.PubKeyHash, Proofs: v.Proofs})
			if err == nil {
				var p tmconsensus.PrecommitSparseProof
				err = c.UnmarshalPrecommitProof(b, &p)
				v2 = vhSparse{p.Height, p.Round, p.PubKeyHash, p.Proofs}
			}
		}
	}) {
		verifrt.Fail("R:sparse-proof-roundtrip-panics")
		return
	}
	verifrt.Reach("sparse-proof-roundtrip-done")
	verifrt.Assert(err == nil, "R:sparse-proof-roundtrip-error")
	if err != nil {
		return
	}
	verifrt.Observe("sparse-proof", v2.Height, uint64(v2.Round), uint64(len(v2.Proofs)), uint64(kind))
	vhSameSparse(v, v2, "R:sparse-proof")
}

// VH_C14_Msg_Variant: UnmarshalConsensusMessage(MarshalConsensusMessage(m)) has the same
// variant set as m (exactly one, or none for the zero message) with equal content.
func VH_C14_Msg_Variant() {
	c := MarshalCodec{CryptoRegistry: vhRegistry(false)}
	variant := verifrt.Choose("variant", 4)
	var m tmcodec.ConsensusMessage
	var ph tmconsensus.ProposedHeader
	var sp vhSparse
	switch variant {
	case 1:
		ph = tmconsensus.ProposedHeader{
			Header:    vhGoodHeader("h-", 1, 0, 0),
			Round:     verifrt.U32("round"),
			Signature: verifrt.Bytes("sig", 2),
		}
		if verifrt.Choose("proposer#present", 2) == 1 {
			ph.ProposerPubKey = vhGoodKey("proposer")
		}
		m.ProposedHeader = &ph
	case 2:
		sp = vhGoodSparse("pv", 1)
		m.PrevoteProof = &tmconsensus.PrevoteSparseProof{Height: sp.Height, Round: sp.Round, PubKeyHash: sp.PubKeyHash, Proofs: sp.Proofs}
	case 3:
		sp = vhGoodSparse("pc", 1)
		m.PrecommitProof = &tmconsensus.PrecommitSparseProof{Height: sp.Height, Round: sp.Round, PubKeyHash: sp.PubKeyHash, Proofs: sp.Proofs}
	}
	var m2 tmcodec.ConsensusMessage
	var err error
	if verifrt.Panics(func() {
		var b []byte
		b, err = c.MarshalConsensusMessage(m)
		if err == nil {
			err = c.UnmarshalConsensusMessage(b, &m2)
		}
	}) {
		verifrt.Fail("M:message-roundtrip-panics")
		return
	}
	verifrt.Reach("message-roundtrip-done")
	verifrt.Assert(err == nil, "M:message-roundtrip-error")
	if err != nil {
		return
	}
	got := 0
	if m2.ProposedHeader != nil {
		got |= 1
	}
	if m2.PrevoteProof != nil {
		got |= 2
	}
	if m2.PrecommitProof != nil {
		got |= 4
	}
	want := []int{0, 1, 2, 4}[variant]
	verifrt.Observe("variant", uint64(want), uint64(got))
	verifrt.Assert(got == want, "M:message-variant-changed")
	if got != want {
		return
	}
	switch variant {
	case 1:
		vhSameProposedHeader(ph, *m2.ProposedHeader, "M:proposed-header")
	case 2:
		p := m2.PrevoteProof
		vhSameSparse(sp, vhSparse{p.Height, p.Round, p.PubKeyHash, p.Proofs}, "M:prevote")
	case 3:
		p := m2.PrecommitProof
		vhSameSparse(sp, vhSparse{p.Height, p.Round, p.PubKeyHash, p.Proofs}, "M:precommit")
	}
}
