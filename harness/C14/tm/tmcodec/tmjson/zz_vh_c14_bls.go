package tmjson

import (
	"bytes"

	"github.com/gordian-engine/gordian/gcrypto"
	"github.com/gordian-engine/gordian/gcrypto/gblsminsig"
	"github.com/gordian-engine/gordian/internal/verifrt"
)

// VH_C14_BLSKeyEncoding: the second shipped key type through the registry (real
// gblsminsig.Register / NewPubKey on the blst model): the 8-byte "bls-ms" prefix followed by
// 96 bytes whose flag byte, group element and one padding byte are symbolic, or by 95 / 97
// bytes. Decoding returns a key or an error, never panics; a decoded key re-encodes to exactly
// the input (the encoding is canonical), is never the identity (KeyValidate), and equals a key
// decoded from the same bytes again.
func VH_C14_BLSKeyEncoding() {
	var reg gcrypto.Registry
	gcrypto.RegisterEd25519(&reg)
	gblsminsig.Register(&reg)
	n := []int{96, 95, 97}[verifrt.Choose("len", 3)]
	body := make([]byte, n)
	body[0] = verifrt.U8("flag")
	v := verifrt.U64("element")
	for i := 0; i < 8; i++ {
		body[1+i] = byte(v >> (56 - 8*uint(i)))
	}
	body[9] = verifrt.U8("pad")
	in := append([]byte("bls-ms\x00\x00"), body...)
	var k gcrypto.PubKey
	var err error
	if !verifrt.NoPanic("T:bls-key-unmarshal-panics", func() { k, err = reg.Unmarshal(in) }) {
		return
	}
	if err != nil {
		verifrt.Reach("bls-key-refused")
		verifrt.Assert(k == nil, "T:bls-key-error-with-key")
		return
	}
	verifrt.Reach("bls-key-decoded")
	verifrt.Assert(n == 96, "T:bls-key-of-wrong-length-decoded")
	bk, isBLS := k.(gblsminsig.PubKey)
	verifrt.Assert(isBLS, "T:bls-prefix-decodes-to-another-key-type")
	if !isBLS {
		return
	}
	verifrt.Assert(v != 0, "R:bls-key:identity-element-accepted-as-a-key")
	verifrt.Assert(bytes.Equal(reg.Marshal(bk), in), "R:bls-key:re-encoding-differs-from-the-input")
	k2, err2 := reg.Unmarshal(reg.Marshal(bk))
	verifrt.Assert(err2 == nil && k2 != nil && k2.Equal(bk) && bk.Equal(k2), "R:bls-key:decoding-the-encoders-output-yields-an-equal-key")
}
