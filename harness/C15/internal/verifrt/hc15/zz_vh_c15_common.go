// Package hc15 holds the C15 harnesses: the shipped SimpleHashScheme binds every
// header field, the shipped SimpleSignatureScheme's sign bytes are domain separated.
//
// BLAKE2b is not executed under gsx: blake2b.New is replaced by RecHash (this file),
// whose digest IS the hashed byte stream, so "digests equal" means "the real
// serialisation code produced the same bytes" (BLAKE2b assumed injective). Natively the
// real BLAKE2b runs; the harnesses only ever compare digests for equality, which is the
// same predicate unless BLAKE2b collides.
package hc15

import (
	"bytes"

	"github.com/gordian-engine/gordian/gcrypto"
	"github.com/gordian-engine/gordian/internal/verifrt"
	"github.com/gordian-engine/gordian/tm/tmconsensus"
	"github.com/gordian-engine/gordian/tm/tmconsensus/tmconsensustest"
)

// RecHash is the recording hash.Hash handed out by the engine in place of
// blake2b.New on paths that opted in with verifrt.Summarize("Blake2bInjective").
type RecHash struct {
	buf []byte
}

func (r *RecHash) Write(p []byte) (int, error) {
	r.buf = append(r.buf, p...)
	return len(p), nil
}
func (r *RecHash) Sum(b []byte) []byte { return append(b, r.buf...) }
func (r *RecHash) Reset()              { r.buf = nil }
func (r *RecHash) Size() int           { return 32 }
func (r *RecHash) BlockSize() int      { return 128 }

// models opts the current path into the two engine models used by every C15 harness.
func models() {
	verifrt.Summarize("Blake2bInjective")
	verifrt.Summarize("SymbolicFmt")
}

var hs = tmconsensustest.SimpleHashScheme{}
var ss = tmconsensustest.SimpleSignatureScheme{}

// blockHash runs the real SimpleHashScheme.Block.
func blockHash(h tmconsensus.Header, tag string) []byte {
	var d []byte
	verifrt.NoPanic(tag+":block-hash-panics", func() {
		var err error
		d, err = hs.Block(h)
		verifrt.Assert(err == nil, tag+":block-hash-errors")
	})
	return d
}

// byteShape: 0 nil, 1 empty non-nil, 2 one symbolic byte, 3 two symbolic bytes.
func shaped(name string, shape int) []byte {
	switch shape {
	case 0:
		return nil
	case 1:
		return []byte{}
	}
	return verifrt.Bytes(name, shape-1)
}

// symBytes returns nil / empty / 1 / 2 arbitrary bytes (one path per shape).
func symBytes(name string) []byte { return shaped(name, verifrt.Choose(name+".shape", 4)) }

// symBytesNoNil returns 0..2 arbitrary bytes (non-nil).
func symBytesLen(name string, lo, hi int) []byte {
	return verifrt.Bytes(name, lo+verifrt.Choose(name+".len", hi-lo+1))
}

// beq is bytes.Equal as a branch-free term (nil and empty are equal).
func beq(a, b []byte) bool { return bytes.Equal(a, b) }

// sameNil: both nil or both non-nil.
func sameNil(a, b []byte) bool { return (a == nil) == (b == nil) }

// baseHeader is a header all of whose hashed fields are arbitrary: one symbolic byte per
// byte field, symbolic height/round below 1000, a commit proof with one entry carrying one
// signature. The same symbols are shared by every header derived from it in one path.
func baseHeader() tmconsensus.Header {
	height := verifrt.U64("height")
	round := verifrt.U32("pcround")
	verifrt.Assume(height < 1000)
	verifrt.Assume(round < 1000)
	return tmconsensus.Header{
		Hash:          verifrt.Bytes("hash", 1),
		PrevBlockHash: verifrt.Bytes("pbh", 1),
		Height:        height,
		PrevCommitProof: tmconsensus.CommitProof{
			Round:      round,
			PubKeyHash: string(verifrt.Bytes("pcpkh", 1)),
			Proofs: map[string][]gcrypto.SparseSignature{
				string(verifrt.Bytes("pcblock", 1)): {
					{KeyID: verifrt.Bytes("pckeyid", 1), Sig: verifrt.Bytes("pcsig", 1)},
				},
			},
		},
		ValidatorSet: tmconsensus.ValidatorSet{
			PubKeyHash:    verifrt.Bytes("vspkh", 1),
			VotePowerHash: verifrt.Bytes("vsvph", 1),
		},
		NextValidatorSet: tmconsensus.ValidatorSet{
			PubKeyHash:    verifrt.Bytes("nvspkh", 1),
			VotePowerHash: verifrt.Bytes("nvsvph", 1),
		},
		DataID:           verifrt.Bytes("dataid", 1),
		PrevAppStateHash: verifrt.Bytes("pash", 1),
		Annotations: tmconsensus.Annotations{
			User:   verifrt.Bytes("auser", 1),
			Driver: verifrt.Bytes("adriver", 1),
		},
	}
}

// smallHeader: concrete everywhere (used where a field group is studied in isolation
// and shared symbols would only add digit-count forks).
func smallHeader() tmconsensus.Header {
	return tmconsensus.Header{
		Hash:          []byte{0xaa},
		PrevBlockHash: []byte{0x01},
		Height:        7,
		PrevCommitProof: tmconsensus.CommitProof{
			Round:      2,
			PubKeyHash: "\x02",
		},
		ValidatorSet:     tmconsensus.ValidatorSet{PubKeyHash: []byte{0x03}, VotePowerHash: []byte{0x04}},
		NextValidatorSet: tmconsensus.ValidatorSet{PubKeyHash: []byte{0x05}, VotePowerHash: []byte{0x06}},
		DataID:           []byte{0x07},
		PrevAppStateHash: []byte{0x08},
	}
}

// rawKey is a public key that is nothing but its bytes.
type rawKey []byte

func (k rawKey) PubKeyBytes() []byte { return []byte(k) }
func (k rawKey) Equal(o gcrypto.PubKey) bool {
	r, ok := o.(rawKey)
	return ok && bytes.Equal(k, r)
}
func (k rawKey) Verify(msg, sig []byte) bool { return false }
func (k rawKey) TypeName() string            { return "raw" }
