package hc15

import (
	"github.com/gordian-engine/gordian/gcrypto"
	"github.com/gordian-engine/gordian/internal/verifrt"
	"github.com/gordian-engine/gordian/tm/tmconsensus"
)

// VH_C15_A1_HashFieldIgnored: the block hash is a deterministic function of the header
// that does not consult the stored Hash field (every other hashed field arbitrary).
func VH_C15_A1_HashFieldIgnored() {
	models()
	h1 := baseHeader()
	h2 := h1
	h2.Hash = symBytes("hash2")
	d1 := blockHash(h1, "A1")
	d1again := blockHash(h1, "A1")
	d2 := blockHash(h2, "A1")
	verifrt.Assert(beq(d1, d1again), "A1:block-hash-deterministic")
	verifrt.Assert(beq(d1, d2), "A1:stored-hash-field-not-hashed")
	verifrt.Assert(len(d1) > 0, "A1:digest-non-empty")
	verifrt.Observe("A1:eq", verifrt.B2U(beq(d1, d2)))
	verifrt.Reach("A1:done")
}

// VH_C15_A2_MapOrderIgnored: every iteration order of the commit-proof map inside the
// serialiser yields the same bytes (two hashes of the same header, each under every order).
func VH_C15_A2_MapOrderIgnored() {
	models()
	h := smallHeader()
	k1 := ""
	if verifrt.Choose("k1nil", 2) == 1 {
		k1 = string(verifrt.Bytes("k1", 1))
	}
	k2 := string(symBytesLen("k2", 1, 2))
	verifrt.Assume(k1 != k2)
	h.PrevCommitProof.Proofs = map[string][]gcrypto.SparseSignature{
		k1: {{KeyID: verifrt.Bytes("id1", 1), Sig: verifrt.Bytes("sig1", 1)}},
		k2: {{KeyID: verifrt.Bytes("id2", 1), Sig: verifrt.Bytes("sig2", 1)}},
	}
	verifrt.MapOrderFuncs("SimpleHashScheme")
	d1 := blockHash(h, "A2")
	d2 := blockHash(h, "A2")
	verifrt.Assert(beq(d1, d2), "A2:map-iteration-order-not-hashed")
	verifrt.Reach("A2:done")
}

// byteField addresses one of the plain byte-string fields of the hashed content.
const nByteFields = 8

var byteFieldNames = [nByteFields]string{
	"PrevBlockHash", "PrevCommitProof.PubKeyHash",
	"ValidatorSet.PubKeyHash", "ValidatorSet.VotePowerHash",
	"NextValidatorSet.PubKeyHash", "NextValidatorSet.VotePowerHash",
	"DataID", "PrevAppStateHash",
}

func setByteField(h *tmconsensus.Header, f int, v []byte) {
	switch f {
	case 0:
		h.PrevBlockHash = v
	case 1:
		h.PrevCommitProof.PubKeyHash = string(v)
	case 2:
		h.ValidatorSet.PubKeyHash = v
	case 3:
		h.ValidatorSet.VotePowerHash = v
	case 4:
		h.NextValidatorSet.PubKeyHash = v
	case 5:
		h.NextValidatorSet.VotePowerHash = v
	case 6:
		h.DataID = v
	case 7:
		h.PrevAppStateHash = v
	}
}

// VH_C15_B1_ByteFieldBound: h2 = h1 except ONE byte-string field (each of the 8 fields in
// turn; nil / empty / 1 / 2 arbitrary bytes on both sides; every other hashed field
// arbitrary and shared): equal hashes imply equal field contents.
func VH_C15_B1_ByteFieldBound() {
	models()
	f := verifrt.Choose("field", nByteFields)
	h1 := baseHeader()
	h2 := h1
	v1 := symBytes("v1")
	v2 := symBytes("v2")
	setByteField(&h1, f, v1)
	setByteField(&h2, f, v2)
	eq := beq(blockHash(h1, "B1"), blockHash(h2, "B1"))
	verifrt.Assert(verifrt.Implies(eq, beq(v1, v2)), "B1:equal-hash-implies-equal-"+byteFieldNames[f])
	verifrt.Assert(verifrt.Implies(beq(v1, v2), eq), "B1:equal-headers-hash-alike")
	if len(v1) == 0 && len(v2) == 0 && (v1 == nil) != (v2 == nil) {
		// observation, not an obligation: a nil and an empty byte string are the same content
		verifrt.Reach("B1:obs:nil-and-empty-byte-field-hash-alike")
	}
	verifrt.Observe("B1:eq", uint64(f), verifrt.B2U(eq))
	verifrt.Reach("B1:done")
}

// VH_C15_B2_AdjacentByteFields: two neighbouring byte-string fields vary together (0..2
// arbitrary bytes each, on both sides), so that bytes cannot migrate across a field
// boundary without changing the hash.
func VH_C15_B2_AdjacentByteFields() {
	models()
	f := verifrt.Choose("pair", nByteFields-1)
	h1 := smallHeader()
	h2 := h1
	a1, b1 := symBytesLen("a1", 0, 2), symBytesLen("b1", 0, 2)
	a2, b2 := symBytesLen("a2", 0, 2), symBytesLen("b2", 0, 2)
	setByteField(&h1, f, a1)
	setByteField(&h1, f+1, b1)
	setByteField(&h2, f, a2)
	setByteField(&h2, f+1, b2)
	eq := beq(blockHash(h1, "B2"), blockHash(h2, "B2"))
	verifrt.Assert(verifrt.Implies(eq, verifrt.And(beq(a1, a2), beq(b1, b2))), "B2:equal-hash-implies-equal-adjacent-fields")
	verifrt.Reach("B2:done")
}

// VH_C15_B3_AllFieldsAtOnce: two unrelated headers (every hashed scalar field arbitrary,
// one byte per byte field, one proof entry keyed by one arbitrary byte without signatures):
// equal hashes imply field-wise equality.
func VH_C15_B3_AllFieldsAtOnce() {
	models()
	mk := func(p string) tmconsensus.Header {
		height := verifrt.U64(p + "height")
		round := verifrt.U32(p + "round")
		verifrt.Assume(height < 1000)
		verifrt.Assume(round < 1000)
		h := tmconsensus.Header{Height: height}
		for f := 0; f < nByteFields; f++ {
			setByteField(&h, f, verifrt.Bytes(p+byteFieldNames[f], 1))
		}
		h.PrevCommitProof.Round = round
		h.PrevCommitProof.Proofs = map[string][]gcrypto.SparseSignature{
			string(verifrt.Bytes(p+"block", 1)): nil,
		}
		h.Annotations.User = verifrt.Bytes(p+"user", 1)
		h.Annotations.Driver = verifrt.Bytes(p+"driver", 1)
		return h
	}
	h1, h2 := mk("x."), mk("y.")
	eq := beq(blockHash(h1, "B3"), blockHash(h2, "B3"))
	same := verifrt.And(h1.Height == h2.Height, h1.PrevCommitProof.Round == h2.PrevCommitProof.Round)
	same = verifrt.And(same, h1.PrevCommitProof.PubKeyHash == h2.PrevCommitProof.PubKeyHash)
	same = verifrt.And(same, beq(h1.PrevBlockHash, h2.PrevBlockHash))
	same = verifrt.And(same, beq(h1.ValidatorSet.PubKeyHash, h2.ValidatorSet.PubKeyHash))
	same = verifrt.And(same, beq(h1.ValidatorSet.VotePowerHash, h2.ValidatorSet.VotePowerHash))
	same = verifrt.And(same, beq(h1.NextValidatorSet.PubKeyHash, h2.NextValidatorSet.PubKeyHash))
	same = verifrt.And(same, beq(h1.NextValidatorSet.VotePowerHash, h2.NextValidatorSet.VotePowerHash))
	same = verifrt.And(same, beq(h1.DataID, h2.DataID))
	same = verifrt.And(same, beq(h1.PrevAppStateHash, h2.PrevAppStateHash))
	same = verifrt.And(same, beq(h1.Annotations.User, h2.Annotations.User))
	same = verifrt.And(same, beq(h1.Annotations.Driver, h2.Annotations.Driver))
	var k1, k2 string
	for k := range h1.PrevCommitProof.Proofs {
		k1 = k
	}
	for k := range h2.PrevCommitProof.Proofs {
		k2 = k
	}
	same = verifrt.And(same, k1 == k2)
	verifrt.Assert(verifrt.Iff(eq, same), "B3:hash-equal-iff-all-fields-equal")
	verifrt.Reach("B3:done")
}

// VH_C15_B4_HeightRoundBound: Height and PrevCommitProof.Round (both < 1000, all digit
// counts) vary together on both sides.
func VH_C15_B4_HeightRoundBound() {
	models()
	h1 := smallHeader()
	h2 := h1
	h1.Height, h2.Height = verifrt.U64("height1"), verifrt.U64("height2")
	h1.PrevCommitProof.Round, h2.PrevCommitProof.Round = verifrt.U32("round1"), verifrt.U32("round2")
	verifrt.Assume(h1.Height < 1000)
	verifrt.Assume(h2.Height < 1000)
	verifrt.Assume(h1.PrevCommitProof.Round < 1000)
	verifrt.Assume(h2.PrevCommitProof.Round < 1000)
	eq := beq(blockHash(h1, "B4"), blockHash(h2, "B4"))
	same := verifrt.And(h1.Height == h2.Height, h1.PrevCommitProof.Round == h2.PrevCommitProof.Round)
	verifrt.Assert(verifrt.Iff(eq, same), "B4:hash-equal-iff-height-and-proof-round-equal")
	verifrt.Observe("B4:eq", verifrt.B2U(eq))
	verifrt.Reach("B4:done")
}

// VH_C15_B5_AnnotationsBound: User and Driver annotations (nil / empty / 1 / 2 bytes each,
// both sides): equal hashes imply equal content AND equal nil-ness (the serialiser
// distinguishes an absent annotation from an empty one).
func VH_C15_B5_AnnotationsBound() {
	models()
	h1 := smallHeader()
	h2 := h1
	u1, d1 := symBytes("u1"), symBytes("d1")
	u2, d2 := symBytes("u2"), symBytes("d2")
	h1.Annotations = tmconsensus.Annotations{User: u1, Driver: d1}
	h2.Annotations = tmconsensus.Annotations{User: u2, Driver: d2}
	eq := beq(blockHash(h1, "B5"), blockHash(h2, "B5"))
	same := verifrt.And(beq(u1, u2), beq(d1, d2))
	same = verifrt.And(same, sameNil(u1, u2) && sameNil(d1, d2))
	verifrt.Assert(verifrt.Iff(eq, same), "B5:hash-equal-iff-annotations-equal")
	verifrt.Reach("B5:done")
}
