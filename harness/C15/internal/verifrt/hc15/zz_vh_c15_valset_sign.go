package hc15

import (
	"bytes"
	"fmt"

	"github.com/gordian-engine/gordian/gcrypto"
	"github.com/gordian-engine/gordian/internal/verifrt"
	"github.com/gordian-engine/gordian/tm/tmconsensus"
)

// ---- validator-set hashes (the block hash binds a validator set through these two)

// VH_C15_D1_PubKeysHashInjective: PubKeys over 1..2 keys of 1..2 arbitrary bytes each:
// equal hashes iff same number of keys with the same bytes in the same order.
func VH_C15_D1_PubKeysHashInjective() {
	models()
	mk := func(p string) []gcrypto.PubKey {
		n := 1 + verifrt.Choose(p+".n", 2)
		ks := make([]gcrypto.PubKey, n)
		for i := range ks {
			ks[i] = rawKey(symBytesLen(fmt.Sprintf("%s[%d]", p, i), 1, 2))
		}
		return ks
	}
	k1, k2 := mk("k1"), mk("k2")
	var d1, d2 []byte
	verifrt.NoPanic("D1:pubkeys-hash-panics", func() {
		var e1, e2 error
		d1, e1 = hs.PubKeys(k1)
		d2, e2 = hs.PubKeys(k2)
		verifrt.Assert(e1 == nil && e2 == nil, "D1:pubkeys-hash-errors")
	})
	eq := beq(d1, d2)
	same := len(k1) == len(k2)
	if same {
		for i := range k1 {
			same = verifrt.And(same, beq(k1[i].PubKeyBytes(), k2[i].PubKeyBytes()))
		}
	}
	verifrt.Assert(verifrt.Iff(eq, same), "D1:pubkeys-hash-equal-iff-keys-equal")
	verifrt.Observe("D1:eq", verifrt.B2U(eq))
	verifrt.Reach("D1:done")
}

// VH_C15_D2_VotePowersHashInjective: VotePowers over 1..2 arbitrary powers below 1000.
func VH_C15_D2_VotePowersHashInjective() {
	models()
	mk := func(p string) []uint64 {
		n := 1 + verifrt.Choose(p+".n", 2)
		ps := make([]uint64, n)
		for i := range ps {
			ps[i] = verifrt.U64(fmt.Sprintf("%s[%d]", p, i))
			verifrt.Assume(ps[i] < 1000)
		}
		return ps
	}
	p1, p2 := mk("p1"), mk("p2")
	var d1, d2 []byte
	verifrt.NoPanic("D2:votepowers-hash-panics", func() {
		var e1, e2 error
		d1, e1 = hs.VotePowers(p1)
		d2, e2 = hs.VotePowers(p2)
		verifrt.Assert(e1 == nil && e2 == nil, "D2:votepowers-hash-errors")
	})
	eq := beq(d1, d2)
	same := len(p1) == len(p2)
	if same {
		for i := range p1 {
			same = verifrt.And(same, p1[i] == p2[i])
		}
	}
	verifrt.Assert(verifrt.Iff(eq, same), "D2:votepowers-hash-equal-iff-powers-equal")
	verifrt.Observe("D2:eq", verifrt.B2U(eq))
	verifrt.Reach("D2:done")
}

// VH_C15_D3_ValidatorsOnlyThroughHashes: OBSERVATION (no obligation beyond determinism):
// the Validators / PubKeys slices of the header's validator sets are not hashed directly;
// the block hash covers them only through ValidatorSet.PubKeyHash / VotePowerHash
// (D1, D2 and B1 together give the binding when those hashes are derived by the scheme).
func VH_C15_D3_ValidatorsOnlyThroughHashes() {
	models()
	h1 := smallHeader()
	h2 := h1
	k := rawKey(verifrt.Bytes("key", 1))
	h2.ValidatorSet.Validators = []tmconsensus.Validator{{PubKey: k, Power: verifrt.U64("pow")}}
	h2.ValidatorSet.PubKeys = []gcrypto.PubKey{k}
	h2.NextValidatorSet.Validators = h2.ValidatorSet.Validators
	h2.NextValidatorSet.PubKeys = h2.ValidatorSet.PubKeys
	if beq(blockHash(h1, "D3"), blockHash(h2, "D3")) {
		verifrt.Reach("D3:obs:validators-covered-only-through-their-two-hashes")
	}
}

// ---- sign bytes

const (
	kindPrevote = iota
	kindPrecommit
)

func voteBytes(kind int, vt tmconsensus.VoteTarget, tag string) []byte {
	var buf bytes.Buffer
	verifrt.NoPanic(tag+":vote-sign-bytes-panic", func() {
		var n int
		var err error
		if kind == kindPrevote {
			n, err = ss.WritePrevoteSigningContent(&buf, vt)
		} else {
			n, err = ss.WritePrecommitSigningContent(&buf, vt)
		}
		verifrt.Assert(err == nil, tag+":vote-sign-bytes-error")
		verifrt.Assert(n == buf.Len(), tag+":vote-sign-bytes-count")
	})
	return buf.Bytes()
}

// symTarget: height and round below bound (all digit counts), block hash nil (empty string)
// or 1..2 arbitrary bytes.
func symTarget(p string, bound uint32) tmconsensus.VoteTarget {
	vt := tmconsensus.VoteTarget{Height: verifrt.U64(p + ".height"), Round: verifrt.U32(p + ".round")}
	verifrt.Assume(vt.Height < uint64(bound))
	verifrt.Assume(vt.Round < bound)
	vt.BlockHash = proofKey(p+".hash", verifrt.Choose(p+".hashshape", 3))
	return vt
}

// VH_C15_E1_VoteSignBytesInjective: two arbitrary votes (kind prevote/precommit, height,
// round, block hash nil / 1 / 2 bytes): equal sign bytes iff equal (kind, height, round, hash).
func VH_C15_E1_VoteSignBytesInjective() {
	models()
	kind1, kind2 := verifrt.Choose("kind1", 2), verifrt.Choose("kind2", 2)
	t1, t2 := symTarget("t1", 1000), symTarget("t2", 1000)
	b1 := voteBytes(kind1, t1, "E1")
	b2 := voteBytes(kind2, t2, "E1")
	eq := beq(b1, b2)
	same := verifrt.And(t1.Height == t2.Height, t1.Round == t2.Round)
	same = verifrt.And(same, t1.BlockHash == t2.BlockHash)
	same = verifrt.And(same, kind1 == kind2)
	verifrt.Assert(verifrt.Iff(eq, same), "E1:vote-sign-bytes-equal-iff-same-kind-height-round-hash")
	verifrt.Assert(len(b1) > 0, "E1:sign-bytes-non-empty")
	verifrt.ObserveBytes("E1:b1", b1)
	verifrt.ObserveBytes("E1:b2", b2)
	verifrt.Reach("E1:done")
}

func proposalBytes(h tmconsensus.Header, round uint32, ann tmconsensus.Annotations, tag string) []byte {
	var buf bytes.Buffer
	verifrt.NoPanic(tag+":proposal-sign-bytes-panic", func() {
		n, err := ss.WriteProposalSigningContent(&buf, h, round, ann)
		verifrt.Assert(err == nil, tag+":proposal-sign-bytes-error")
		verifrt.Assert(n == buf.Len(), tag+":proposal-sign-bytes-count")
	})
	return buf.Bytes()
}

// symProposal: a small arbitrary proposal: height / round below 100, PrevBlockHash,
// PrevAppStateHash and DataID all empty or all 1 arbitrary byte, annotations nil or 1
// arbitrary byte.
func symProposal(p string) (tmconsensus.Header, uint32, tmconsensus.Annotations) {
	h := tmconsensus.Header{Height: verifrt.U64(p + ".height")}
	round := verifrt.U32(p + ".round")
	verifrt.Assume(h.Height < 100)
	verifrt.Assume(round < 100)
	n := verifrt.Choose(p+".len", 2)
	h.PrevBlockHash = verifrt.Bytes(p+".pbh", n)
	h.PrevAppStateHash = verifrt.Bytes(p+".pash", n)
	h.DataID = verifrt.Bytes(p+".dataid", n)
	var ann tmconsensus.Annotations
	if verifrt.Choose(p+".user", 2) == 1 {
		ann.User = verifrt.Bytes(p+".auser", 1)
	}
	if verifrt.Choose(p+".driver", 2) == 1 {
		ann.Driver = verifrt.Bytes(p+".adriver", 1)
	}
	return h, round, ann
}

// VH_C15_E2_ProposalNeverAVote: the sign bytes of an arbitrary small proposal never equal
// the sign bytes of any vote (either kind, nil or non-nil block hash).
func VH_C15_E2_ProposalNeverAVote() {
	models()
	h, round, ann := symProposal("p")
	pb := proposalBytes(h, round, ann, "E2")
	kind := verifrt.Choose("kind", 2)
	vt := symTarget("v", 100)
	vb := voteBytes(kind, vt, "E2")
	verifrt.Assert(verifrt.Not(beq(pb, vb)), "E2:proposal-sign-bytes-differ-from-every-vote")
	verifrt.ObserveBytes("E2:proposal", pb)
	verifrt.Reach("E2:done")
}

// VH_C15_E3_ProposalSignBytesCoverage: what a proposal signature covers. Obligation: equal
// sign bytes iff equal (height, round, PrevBlockHash, PrevAppStateHash, DataID, proposal
// annotations incl. nil-ness), one field group varying at a time. OBSERVATION (Reach
// labels, no obligation): the header's Hash, validator sets, previous commit proof and
// header annotations are not part of the proposal sign bytes.
func VH_C15_E3_ProposalSignBytesCoverage() {
	models()
	h1 := smallHeader()
	h2 := h1
	r1, r2 := uint32(3), uint32(3)
	var a1, a2 tmconsensus.Annotations
	var same bool
	g := verifrt.Choose("group", 7)
	switch g {
	case 0:
		h1.Height, h2.Height = verifrt.U64("h1"), verifrt.U64("h2")
		r1, r2 = verifrt.U32("r1"), verifrt.U32("r2")
		verifrt.Assume(h1.Height < 1000)
		verifrt.Assume(h2.Height < 1000)
		verifrt.Assume(r1 < 1000)
		verifrt.Assume(r2 < 1000)
		same = verifrt.And(h1.Height == h2.Height, r1 == r2)
	case 1:
		h1.PrevBlockHash, h2.PrevBlockHash = symBytes("v1"), symBytes("v2")
		h1.PrevAppStateHash, h2.PrevAppStateHash = symBytesLen("w1", 0, 1), symBytesLen("w2", 0, 1)
		same = verifrt.And(beq(h1.PrevBlockHash, h2.PrevBlockHash), beq(h1.PrevAppStateHash, h2.PrevAppStateHash))
	case 2:
		h1.PrevAppStateHash, h2.PrevAppStateHash = symBytes("v1"), symBytes("v2")
		h1.DataID, h2.DataID = symBytesLen("w1", 0, 1), symBytesLen("w2", 0, 1)
		same = verifrt.And(beq(h1.PrevAppStateHash, h2.PrevAppStateHash), beq(h1.DataID, h2.DataID))
	case 3:
		a1.User, a2.User = symBytes("u1"), symBytes("u2")
		a1.Driver, a2.Driver = symBytes("d1"), symBytes("d2")
		same = verifrt.And(beq(a1.User, a2.User), beq(a1.Driver, a2.Driver))
		same = verifrt.And(same, sameNil(a1.User, a2.User) && sameNil(a1.Driver, a2.Driver))
	case 4:
		h1.DataID, h2.DataID = symBytes("v1"), symBytes("v2")
		a1.User, a2.User = symBytes("u1"), symBytes("u2")
		same = verifrt.And(beq(h1.DataID, h2.DataID), beq(a1.User, a2.User))
		same = verifrt.And(same, sameNil(a1.User, a2.User))
	case 5:
		// fields outside the sign bytes: stored hash, validator-set hashes, header annotations
		h2.Hash = verifrt.Bytes("hash2", 1)
		h2.ValidatorSet.PubKeyHash = verifrt.Bytes("vspkh2", 1)
		h2.ValidatorSet.VotePowerHash = verifrt.Bytes("vsvph2", 1)
		h2.NextValidatorSet.PubKeyHash = verifrt.Bytes("nvspkh2", 1)
		h2.NextValidatorSet.VotePowerHash = verifrt.Bytes("nvsvph2", 1)
		h2.Annotations.User = verifrt.Bytes("huser2", 1)
		same = true
	case 6:
		// fields outside the sign bytes: the previous commit proof
		h2.PrevCommitProof = tmconsensus.CommitProof{
			Round:      verifrt.U32("pcround2"),
			PubKeyHash: string(verifrt.Bytes("pcpkh2", 1)),
			Proofs: map[string][]gcrypto.SparseSignature{
				string(verifrt.Bytes("pcblock2", 1)): {{KeyID: verifrt.Bytes("pcid2", 1), Sig: verifrt.Bytes("pcsig2", 1)}},
			},
		}
		same = true
	}
	eq := beq(proposalBytes(h1, r1, a1, "E3"), proposalBytes(h2, r2, a2, "E3"))
	verifrt.Assert(verifrt.Iff(eq, same), "E3:proposal-sign-bytes-equal-iff-covered-fields-equal")
	switch g {
	case 5:
		verifrt.Reach("E3:obs:proposal-sign-bytes-omit-hash-validator-sets-header-annotations")
	case 6:
		verifrt.Reach("E3:obs:proposal-sign-bytes-omit-previous-commit-proof")
	}
	verifrt.Reach("E3:done")
}
