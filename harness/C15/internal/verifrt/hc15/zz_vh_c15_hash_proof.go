package hc15

import (
	"fmt"

	"github.com/gordian-engine/gordian/gcrypto"
	"github.com/gordian-engine/gordian/internal/verifrt"
)

// proofKey: shape 0 = nil block (""), 1 = one arbitrary byte, 2 = two arbitrary bytes.
func proofKey(name string, shape int) string {
	if shape == 0 {
		return ""
	}
	return string(verifrt.Bytes(name, shape))
}

// symSigs returns 0..max signatures with KeyID / Sig of 0..maxLen arbitrary bytes each.
func symSigs(name string, max, maxLen int) []gcrypto.SparseSignature {
	n := verifrt.Choose(name+".n", max+1)
	var sigs []gcrypto.SparseSignature
	for i := 0; i < n; i++ {
		p := fmt.Sprintf("%s[%d]", name, i)
		sigs = append(sigs, gcrypto.SparseSignature{
			KeyID: symBytesLen(p+".id", 0, maxLen),
			Sig:   symBytesLen(p+".sig", 0, maxLen),
		})
	}
	return sigs
}

func sigEq(a, b gcrypto.SparseSignature) bool {
	return verifrt.And(beq(a.KeyID, b.KeyID), beq(a.Sig, b.Sig))
}

// sigsEq: equal as multisets (the serialiser sorts the signatures of an entry, and a
// commit proof is a set of signatures). Up to 2 elements.
func sigsEq(a, b []gcrypto.SparseSignature) bool {
	if len(a) != len(b) {
		return false
	}
	switch len(a) {
	case 0:
		return true
	case 1:
		return sigEq(a[0], b[0])
	case 2:
		return verifrt.Or(
			verifrt.And(sigEq(a[0], b[0]), sigEq(a[1], b[1])),
			verifrt.And(sigEq(a[0], b[1]), sigEq(a[1], b[0])),
		)
	}
	panic("sigsEq: more than 2 signatures")
}

// symProofKeys builds a proof map with 0..2 entries WITHOUT signatures; shape -1 = nil map.
// Keys: nil block, 1 or 2 arbitrary bytes. It returns the map and its keys (k2 only if two
// distinct entries exist).
func symProofKeys(name string) (m map[string][]gcrypto.SparseSignature, keys []string) {
	n := verifrt.Choose(name+".entries", 4) // 0: nil map, 1: empty map, 2: one entry, 3: two entries
	switch n {
	case 0:
		return nil, nil
	case 1:
		return map[string][]gcrypto.SparseSignature{}, nil
	}
	k1 := proofKey(name+".k1", verifrt.Choose(name+".k1shape", 3))
	m = map[string][]gcrypto.SparseSignature{k1: nil}
	keys = []string{k1}
	if n == 3 {
		k2 := proofKey(name+".k2", verifrt.Choose(name+".k2shape", 3))
		verifrt.Assume(k1 != k2)
		if verifrt.Choose(name+".emptysigs", 2) == 1 {
			m[k2] = []gcrypto.SparseSignature{}
		} else {
			m[k2] = nil
		}
		keys = append(keys, k2)
	}
	return m, keys
}

// keySetEq: the two key lists (each without duplicates, at most 2 long) are equal as sets.
func keySetEq(a, b []string) bool {
	if len(a) != len(b) {
		return false
	}
	switch len(a) {
	case 0:
		return true
	case 1:
		return a[0] == b[0]
	}
	return verifrt.Or(
		verifrt.And(a[0] == b[0], a[1] == b[1]),
		verifrt.And(a[0] == b[1], a[1] == b[0]),
	)
}

// VH_C15_C1_ProofBlocksBound: the set of voted blocks in PrevCommitProof.Proofs (0..2 entries
// per header, keys nil-block / 1 / 2 arbitrary bytes, no signatures, all map orders):
// equal hashes iff equal key sets. (A nil and an empty map, and an entry with a nil or an
// empty signature list, are the same proof content.)
func VH_C15_C1_ProofBlocksBound() {
	models()
	h1 := smallHeader()
	h2 := h1
	var keys1, keys2 []string
	h1.PrevCommitProof.Proofs, keys1 = symProofKeys("p1")
	h2.PrevCommitProof.Proofs, keys2 = symProofKeys("p2")
	verifrt.MapOrderFuncs("SimpleHashScheme")
	eq := beq(blockHash(h1, "C1"), blockHash(h2, "C1"))
	verifrt.Assert(verifrt.Iff(eq, keySetEq(keys1, keys2)), "C1:hash-equal-iff-voted-blocks-equal")
	verifrt.Reach("C1:done")
}

// VH_C15_C2_ProofSignaturesBound: h2 = h1 except the signatures of ONE commit-proof entry
// (entry keyed by the nil block or by 1 arbitrary byte). Shape 0: 0..1 signatures per side
// with KeyID and Sig of 0..2 arbitrary bytes; shape 1: 0..2 signatures per side with KeyID
// and Sig of 0..1 arbitrary bytes (0..2 in the thorough tier). Equal hashes imply equal
// signature sets.
func VH_C15_C2_ProofSignaturesBound() {
	models()
	h1 := smallHeader()
	h2 := h1
	k := proofKey("k", verifrt.Choose("kshape", 2))
	maxN, maxLen := 1, 2
	if verifrt.Choose("sigshape", 2) == 1 {
		maxN, maxLen = 2, 1
		if verifrt.Thorough() {
			maxLen = 2
		}
	}
	s1 := symSigs("s1", maxN, maxLen)
	s2 := symSigs("s2", maxN, maxLen)
	h1.PrevCommitProof.Proofs = map[string][]gcrypto.SparseSignature{k: s1}
	h2.PrevCommitProof.Proofs = map[string][]gcrypto.SparseSignature{k: s2}
	eq := beq(blockHash(h1, "C2"), blockHash(h2, "C2"))
	verifrt.Assert(verifrt.Implies(eq, len(s1) == len(s2)), "C2:equal-hash-implies-equal-signature-count")
	verifrt.Assert(verifrt.Implies(eq, sigsEq(s1, s2)), "C2:equal-hash-implies-equal-signatures")
	verifrt.Assert(verifrt.Implies(sigsEq(s1, s2), eq), "C2:equal-signatures-hash-alike")
	verifrt.Observe("C2:eq", verifrt.B2U(eq))
	verifrt.Reach("C2:done")
}

// VH_C15_C3_ProofSignaturesOwnEntry: two entries (1-byte and 2-byte block hashes), one
// signature each: the hash must change when the signature of either entry changes, and the
// signatures must be attributed to their own entry (swapping the signatures of the two
// entries is a different proof).
func VH_C15_C3_ProofSignaturesOwnEntry() {
	models()
	h1 := smallHeader()
	h2 := h1
	k1 := proofKey("k1", 1)
	k2 := proofKey("k2", 2)
	a1 := gcrypto.SparseSignature{KeyID: verifrt.Bytes("a1.id", 1), Sig: verifrt.Bytes("a1.sig", 1)}
	b1 := gcrypto.SparseSignature{KeyID: verifrt.Bytes("b1.id", 1), Sig: verifrt.Bytes("b1.sig", 1)}
	a2 := gcrypto.SparseSignature{KeyID: verifrt.Bytes("a2.id", 1), Sig: verifrt.Bytes("a2.sig", 1)}
	b2 := gcrypto.SparseSignature{KeyID: verifrt.Bytes("b2.id", 1), Sig: verifrt.Bytes("b2.sig", 1)}
	h1.PrevCommitProof.Proofs = map[string][]gcrypto.SparseSignature{k1: {a1}, k2: {b1}}
	h2.PrevCommitProof.Proofs = map[string][]gcrypto.SparseSignature{k1: {a2}, k2: {b2}}
	eq := beq(blockHash(h1, "C3"), blockHash(h2, "C3"))
	verifrt.Assert(verifrt.Implies(eq, verifrt.And(sigEq(a1, a2), sigEq(b1, b2))), "C3:equal-hash-implies-equal-signatures-per-entry")
	verifrt.Reach("C3:done")
}

// VH_C15_C4_ProofKeyEscaping: one proof entry per header; the key of the first is the nil
// block, a 1-byte or a 5-byte arbitrary string, the key of the second likewise (5 bytes is the
// length of the serialiser's own nil marker). Equal hashes iff equal keys: the serialised form
// of a block key can never be mistaken for the nil marker or for serialiser syntax.
func VH_C15_C4_ProofKeyEscaping() {
	models()
	h1 := smallHeader()
	h2 := h1
	lens := []int{0, 1, 5}
	k1 := proofKey("k1", lens[verifrt.Choose("k1len", 3)])
	k2 := proofKey("k2", lens[verifrt.Choose("k2len", 3)])
	sig := []gcrypto.SparseSignature{{KeyID: []byte{0, 1}, Sig: []byte{7}}}
	h1.PrevCommitProof.Proofs = map[string][]gcrypto.SparseSignature{k1: sig}
	h2.PrevCommitProof.Proofs = map[string][]gcrypto.SparseSignature{k2: sig}
	eq := beq(blockHash(h1, "C4"), blockHash(h2, "C4"))
	verifrt.Assert(verifrt.Iff(eq, k1 == k2), "C4:hash-equal-iff-proof-key-equal")
	verifrt.Reach("C4:done")
}

// VH_C15_C5_ProofEntriesOfDifferentSize: two voted blocks (1-byte keys, either may sort first)
// of which one carries two signatures and the other one; h2 differs from h1 in the signatures
// only. Equal hashes imply equal signature sets per entry: every signature of the smaller
// entry is bound too, whatever was serialised for the larger entry before it.
func VH_C15_C5_ProofEntriesOfDifferentSize() {
	models()
	h1 := smallHeader()
	h2 := h1
	k1 := proofKey("k1", 1)
	k2 := proofKey("k2", 1)
	verifrt.Assume(k1 != k2)
	mk := func(p string) gcrypto.SparseSignature {
		return gcrypto.SparseSignature{KeyID: verifrt.Bytes(p+".id", 1), Sig: verifrt.Bytes(p+".sig", 1)}
	}
	a1 := []gcrypto.SparseSignature{mk("a1.0"), mk("a1.1")}
	b1 := []gcrypto.SparseSignature{mk("b1.0")}
	a2 := []gcrypto.SparseSignature{mk("a2.0"), mk("a2.1")}
	b2 := []gcrypto.SparseSignature{mk("b2.0")}
	h1.PrevCommitProof.Proofs = map[string][]gcrypto.SparseSignature{k1: a1, k2: b1}
	h2.PrevCommitProof.Proofs = map[string][]gcrypto.SparseSignature{k1: a2, k2: b2}
	eq := beq(blockHash(h1, "C5"), blockHash(h2, "C5"))
	verifrt.Assert(verifrt.Implies(eq, sigsEq(a1, a2)), "C5:equal-hash-implies-equal-signatures-of-the-larger-entry")
	verifrt.Assert(verifrt.Implies(eq, sigsEq(b1, b2)), "C5:equal-hash-implies-equal-signatures-of-the-smaller-entry")
	verifrt.Assert(verifrt.Implies(verifrt.And(sigsEq(a1, a2), sigsEq(b1, b2)), eq), "C5:equal-signatures-hash-alike")
	verifrt.Reach("C5:done")
}
