package tmgossip

import (
	"context"

	"github.com/gordian-engine/gordian/internal/verifrt"
	"github.com/gordian-engine/gordian/internal/verifrt/vkit"
	"github.com/gordian-engine/gordian/tm/tmengine/tmelink"
)

// vhUpdate is the harness-side description of one NetworkViewUpdate.
type vhUpdate struct {
	committing, voting, nextRound, nilVoted *vhSpec
}

func (u *vhUpdate) real(n int) tmelink.NetworkViewUpdate {
	keys := vkit.OkKeys(n)
	return tmelink.NetworkViewUpdate{
		Committing:    vhViewPtr(keys, u.committing),
		Voting:        vhViewPtr(keys, u.voting),
		NextRound:     vhViewPtr(keys, u.nextRound),
		NilVotedRound: vhViewPtr(keys, u.nilVoted),
	}
}

// vhGrow returns a later view of the same round: one more header, validator 1 joins the
// votes (each validator signs one target per kind at most: a second target is G1e/G2e).
func vhGrow(sp *vhSpec, how int) *vhSpec {
	c := *sp
	switch how {
	case 1: // second validator prevotes B, second header arrives
		c.ph |= 2
		c.votes[vhPrevote][2] |= 2
	case 2: // second validator prevotes and precommits like the first
		for k := 0; k < 2; k++ {
			for t := 0; t < 3; t++ {
				if c.votes[k][t]&1 != 0 {
					c.votes[k][t] |= 2
				}
			}
		}
		if c.votes[vhPrecommit] == [3]int{} {
			c.votes[vhPrecommit][0] = 2
		}
	}
	return &c
}

// vhCheckUpdate: the oracle for one update given the previously broadcast view per slot.
// It returns what was reconstructed for the nil-voted round; that obligation is checked by
// vhCheckNilVoted.
func vhCheckUpdate(pfx string, n int, sent vhSent, prev, u *vhUpdate) vhCover {
	keys := vkit.OkKeys(n)
	views := []*vhSpec{u.committing, u.voting, u.nextRound, u.nilVoted}
	prevs := []*vhSpec{prev.committing, prev.voting, prev.nextRound}
	names := []string{"committing", "voting", "next-round"}
	cov := vhReconstruct(pfx, n, sent, keys, views) // several views: search by height/round
	for i, v := range views[:3] {
		if v == nil {
			continue
		}
		same := prevs[i] != nil && prevs[i].h == v.h && prevs[i].r == v.r
		vhCheckEverything(pfx+"-"+names[i], vhNeed(prevs[i], v, same), cov[i], vhAllChecks)
	}
	return cov[3]
}

// vhCheckNilVoted: the final precommits of the nil-committed round are offered.
func vhCheckNilVoted(pfx string, v *vhSpec, got vhCover, label string) {
	if v == nil {
		return
	}
	need := vhNeed(nil, v, false)
	verifrt.Observe(pfx+"-nil-voted-precommits-need-got", vhWord3(need.votes[1]), vhWord3(got.votes[1]))
	ok := true
	for t := 0; t < 3; t++ {
		ok = ok && need.votes[1][t]&^got.votes[1][t] == 0
	}
	verifrt.Assert(ok, label)
}

// VH_C17_K1_KernelTwoUpdates runs the real kernel goroutine (NewChattyStrategy + Start)
// against a recording broadcaster and hands it two consecutive updates. An empty update
// after each (the channel is unbuffered, an all-nil update makes the kernel do nothing)
// tells the harness that the kernel has finished the preceding one.
func VH_C17_K1_KernelTwoUpdates() {
	n := 2
	rec := vhNewRec()
	ctx, cancel := context.WithCancel(context.Background())
	s := NewChattyStrategy(ctx, verifrt.Logger(), rec)
	updates := make(chan tmelink.NetworkViewUpdate)
	s.Start(updates)

	// first update: voting (5,1) always there (the engine's first output always carries it)
	vote0 := &vhSpec{h: 5, r: 1, ph: 1, votes: [2][3]int{{0, 1, 0}, {0, 0, 0}}}
	if verifrt.Choose("voting-has-precommit", 2) == 1 {
		vote0.votes[vhPrecommit] = [3]int{1, 0, 0}
	}
	u1 := &vhUpdate{voting: vote0}
	slots := verifrt.Choose("first-update-slots", 4)
	if slots&1 != 0 {
		u1.committing = &vhSpec{h: 4, r: 0, ph: 1, votes: [2][3]int{{0, 3, 0}, {0, 1, 0}}}
	}
	if slots&2 != 0 {
		u1.nextRound = &vhSpec{h: 5, r: 2, votes: [2][3]int{{1, 0, 0}, {0, 0, 0}}}
	}
	firstNil := verifrt.Choose("first-update-has-nil-voted-round", 2) == 1
	if firstNil {
		u1.nilVoted = &vhSpec{h: 5, r: 0, ph: 1, votes: [2][3]int{{0, 3, 0}, {3, 0, 0}}}
		verifrt.Reach("K1-first-update-with-nil-voted-round")
	}

	// second update
	u2 := &vhUpdate{}
	how := 1 + verifrt.Choose("growth", 2)
	switch verifrt.Choose("second-update", 6) {
	case 0: // same rounds, views grow; slots that did not change are absent
		verifrt.Reach("K1-same-rounds-grow")
		u2.voting = vhGrow(vote0, how)
		if u1.committing != nil {
			u2.committing = vhGrow(u1.committing, 2)
		}
	case 1: // only the next-round view changes (or appears)
		verifrt.Reach("K1-next-round-only")
		if u1.nextRound != nil {
			u2.nextRound = vhGrow(u1.nextRound, how)
		} else {
			u2.nextRound = &vhSpec{h: 5, r: 2, votes: [2][3]int{{2, 0, 0}, {0, 0, 0}}}
		}
	case 2: // round (5,1) is nil-committed: its final view is handed over, voting moves to (5,2)
		verifrt.Reach("K1-nil-committed-round")
		nv := vhGrow(vote0, 2)
		nv.votes[vhPrecommit] = [3]int{3, 0, 0}
		u2.nilVoted = nv
		if u1.nextRound != nil {
			u2.voting = vhGrow(&vhSpec{h: 5, r: 2, votes: u1.nextRound.votes}, how)
		} else {
			u2.voting = &vhSpec{h: 5, r: 2, ph: 1}
		}
		u2.nextRound = &vhSpec{h: 5, r: 3}
	case 3: // block committed at (5,1): it becomes the committing view, voting moves to height 6
		verifrt.Reach("K1-commit")
		cm := vhGrow(vote0, 2)
		cm.votes[vhPrecommit] = [3]int{0, 3, 0}
		u2.committing = cm
		u2.voting = &vhSpec{h: 6, r: 0, ph: verifrt.Choose("new-height-has-header", 2)}
		u2.nextRound = &vhSpec{h: 6, r: 1}
	case 5: // a slow reader: round (5,1) was nil-committed AND round (5,2) committed a block before
		// the strategy read again; one update carries the nil-voted round, the committing view of
		// the later round and the voting view of the next height
		verifrt.Reach("K1-nil-round-and-commit-coalesced")
		nv := vhGrow(vote0, 2)
		nv.votes[vhPrecommit] = [3]int{3, 0, 0}
		u2.nilVoted = nv
		u2.committing = &vhSpec{h: 5, r: 2, ph: 1, votes: [2][3]int{{0, 3, 0}, {0, 3, 0}}}
		u2.voting = &vhSpec{h: 6, r: 0, ph: verifrt.Choose("new-height-has-header", 2)}
		u2.nextRound = &vhSpec{h: 6, r: 1}
	case 4: // an older nil-committed round (5,0) is handed over on its own: the engine sends one
		// nil-voted round per update, so a second one arrives with no voting view beside it
		verifrt.Reach("K1-nil-voted-round-alone")
		u2.nilVoted = &vhSpec{h: 5, r: 0, ph: 1, votes: [2][3]int{{0, 3, 0}, {3, 0, 0}}}
		if firstNil {
			u2.nilVoted.h = 4
		}
	}

	updates <- u1.real(n)
	updates <- tmelink.NetworkViewUpdate{}
	sent1 := rec.drain()
	updates <- u2.real(n)
	updates <- tmelink.NetworkViewUpdate{}
	sent2 := rec.drain()
	cancel()
	s.Wait()
	verifrt.Assert(len(rec.ph)+len(rec.pv)+len(rec.pc) == 0, "K1:nothing-broadcast-after-the-updates")

	verifrt.Observe("K1-messages", uint64(len(sent1.ph)), uint64(len(sent1.votes[0])), uint64(len(sent1.votes[1])),
		uint64(len(sent2.ph)), uint64(len(sent2.votes[0])), uint64(len(sent2.votes[1])))
	nv1 := vhCheckUpdate("K1u1", n, sent1, &vhUpdate{}, u1)
	nv2 := vhCheckUpdate("K1u2", n, sent2, u1, u2)
	vhCheckNilVoted("K1u2", u2.nilVoted, nv2, "K1u2:nil-voted-round-precommits-broadcast")
	// last (a failed obligation ends the path): a nil-voted round in the very first update
	vhCheckNilVoted("K1f", u1.nilVoted, nv1, "K1f:first-update-nil-voted-round-precommits-broadcast")
}
