package tmgossip

// C17 harness kit (overlay only): a recording broadcaster, builders for real round
// views (real SimpleCommonMessageSignatureProof values, real proposed headers), and the
// oracle written from the property text: what a peer can reconstruct from the broadcasts.

import (
	"bytes"

	"github.com/gordian-engine/gordian/gcrypto"
	"github.com/gordian-engine/gordian/internal/verifrt"
	"github.com/gordian-engine/gordian/internal/verifrt/vkit"
	"github.com/gordian-engine/gordian/tm/tmconsensus"
)

var vhTargets = []string{"", "A", "B"}

const vhPubKeyHash = "pkh"

const (
	vhPrevote   = 0
	vhPrecommit = 1
)

func vhN() int {
	if verifrt.Thorough() {
		return 3
	}
	return 2
}

// vhRec is the recording broadcaster: the three outgoing channels are buffered so that
// the strategy never blocks; the harness drains them after every step.
type vhRec struct {
	ph chan tmconsensus.ProposedHeader
	pv chan tmconsensus.PrevoteSparseProof
	pc chan tmconsensus.PrecommitSparseProof
}

func vhNewRec() *vhRec {
	return &vhRec{
		ph: make(chan tmconsensus.ProposedHeader, 32),
		pv: make(chan tmconsensus.PrevoteSparseProof, 32),
		pc: make(chan tmconsensus.PrecommitSparseProof, 32),
	}
}

func (r *vhRec) OutgoingProposedHeaders() chan<- tmconsensus.ProposedHeader { return r.ph }
func (r *vhRec) OutgoingPrevoteProofs() chan<- tmconsensus.PrevoteSparseProof {
	return r.pv
}
func (r *vhRec) OutgoingPrecommitProofs() chan<- tmconsensus.PrecommitSparseProof {
	return r.pc
}

// vhMsg is one broadcast vote message, whatever its kind.
type vhMsg struct {
	h      uint64
	r      uint32
	pkh    string
	proofs map[string][]gcrypto.SparseSignature
}

type vhSent struct {
	ph    []tmconsensus.ProposedHeader
	votes [2][]vhMsg
}

func (r *vhRec) drain() vhSent {
	var s vhSent
	for len(r.ph) > 0 {
		s.ph = append(s.ph, <-r.ph)
	}
	for len(r.pv) > 0 {
		m := <-r.pv
		s.votes[vhPrevote] = append(s.votes[vhPrevote], vhMsg{h: m.Height, r: m.Round, pkh: m.PubKeyHash, proofs: m.Proofs})
	}
	for len(r.pc) > 0 {
		m := <-r.pc
		s.votes[vhPrecommit] = append(s.votes[vhPrecommit], vhMsg{h: m.Height, r: m.Round, pkh: m.PubKeyHash, proofs: m.Proofs})
	}
	return s
}

// vhSpec is the harness-side description of a round view: the oracle only reads this.
type vhSpec struct {
	h     uint64
	r     uint32
	ph    int       // proposed headers: bit 0 = header "A", bit 1 = header "B"
	votes [2][3]int // [kind][target] signer word (0 = no entry for the target)
}

func vhSigTag(kind, t int) byte { return byte(kind*4 + t) }

func vhProofs(keys []gcrypto.PubKey, kind int, h uint64, r uint32, words [3]int) map[string]gcrypto.CommonMessageSignatureProof {
	var m map[string]gcrypto.CommonMessageSignatureProof
	for t, hash := range vhTargets {
		if words[t] == 0 {
			continue
		}
		if m == nil {
			m = map[string]gcrypto.CommonMessageSignatureProof{}
		}
		var msg []byte
		if kind == vhPrevote {
			msg = vkit.PrevoteContent(h, r, hash)
		} else {
			msg = vkit.PrecommitContent(h, r, hash)
		}
		p, err := gcrypto.NewSimpleCommonMessageSignatureProof(msg, keys, vhPubKeyHash)
		if err != nil {
			panic(err)
		}
		for i := range keys {
			if words[t]&(1<<uint(i)) == 0 {
				continue
			}
			if err := p.AddSignature(vkit.Sig(byte(i), vhSigTag(kind, t)), keys[i]); err != nil {
				panic(err)
			}
		}
		m[hash] = p
	}
	return m
}

func vhHeader(keys []gcrypto.PubKey, i int, h uint64, r uint32) tmconsensus.ProposedHeader {
	tag := vhTargets[i+1]
	return tmconsensus.ProposedHeader{
		Header: tmconsensus.Header{
			Hash:          []byte(tag),
			PrevBlockHash: []byte("p" + tag),
			Height:        h,
			DataID:        []byte("d" + tag),
		},
		Round:          r,
		ProposerPubKey: keys[i%len(keys)],
		Signature:      []byte("ps" + tag),
	}
}

// vhView builds the real view the spec describes.
func vhView(keys []gcrypto.PubKey, sp *vhSpec) tmconsensus.VersionedRoundView {
	var v tmconsensus.VersionedRoundView
	v.Height = sp.h
	v.Round = sp.r
	for i := 0; i < 2; i++ {
		if sp.ph&(1<<uint(i)) != 0 {
			v.ProposedHeaders = append(v.ProposedHeaders, vhHeader(keys, i, sp.h, sp.r))
		}
	}
	v.PrevoteProofs = vhProofs(keys, vhPrevote, sp.h, sp.r, sp.votes[vhPrevote])
	v.PrecommitProofs = vhProofs(keys, vhPrecommit, sp.h, sp.r, sp.votes[vhPrecommit])
	// versions as the engine keeps them: bumped with every change of the respective part
	v.PrevoteVersion, v.PrecommitVersion = 1, 1
	for t := 0; t < 3; t++ {
		v.PrevoteVersion += uint32(vhPopcount(sp.votes[vhPrevote][t]))
		v.PrecommitVersion += uint32(vhPopcount(sp.votes[vhPrecommit][t]))
	}
	v.Version = v.PrevoteVersion + v.PrecommitVersion + uint32(len(v.ProposedHeaders))
	return v
}

func vhViewPtr(keys []gcrypto.PubKey, sp *vhSpec) *tmconsensus.VersionedRoundView {
	if sp == nil {
		return nil
	}
	v := vhView(keys, sp)
	return &v
}

// vhCover is what a peer reconstructs for one (height, round) from the broadcasts.
type vhCover struct {
	ph    int
	votes [2][3]int
}

var vhKindName = [2]string{"prevotes", "precommits"}

// vhReconstruct does the peer's job for the views of one update and checks the
// "nothing else" half of the property on the way: every broadcast header and every
// broadcast signature must belong to one of the views of the update (same height and
// round, same header content, a signer of that target in that view, the view's signature
// bytes, the view's public key hash).
//
// With a single view whose height/round may be symbolic the match is asserted;
// with several views (concrete heights/rounds) it is searched.
func vhReconstruct(pfx string, n int, sent vhSent, keys []gcrypto.PubKey, views []*vhSpec) []vhCover {
	cov := make([]vhCover, len(views))
	find := func(h uint64, r uint32, label string) int {
		if len(views) == 1 {
			verifrt.Assert(verifrt.And(h == views[0].h, r == views[0].r), label)
			return 0
		}
		for i, v := range views {
			if v != nil && v.h == h && v.r == r {
				return i
			}
		}
		verifrt.Fail(label)
		return -1
	}
	for _, ph := range sent.ph {
		lbl := pfx + ":headers-only-from-the-views"
		vi := find(ph.Header.Height, ph.Round, lbl)
		if vi < 0 {
			continue
		}
		hi := -1
		for i := 0; i < 2; i++ {
			if bytes.Equal(ph.Header.Hash, []byte(vhTargets[i+1])) {
				hi = i
			}
		}
		if hi < 0 || views[vi].ph&(1<<uint(hi)) == 0 {
			verifrt.Fail(lbl)
			continue
		}
		want := vhHeader(keys, hi, views[vi].h, views[vi].r)
		same := bytes.Equal(ph.Signature, want.Signature) &&
			ph.ProposerPubKey != nil && ph.ProposerPubKey.Equal(want.ProposerPubKey) &&
			bytes.Equal(ph.Header.DataID, want.Header.DataID) &&
			bytes.Equal(ph.Header.PrevBlockHash, want.Header.PrevBlockHash)
		verifrt.Assert(same, lbl)
		if same {
			cov[vi].ph |= 1 << uint(hi)
		}
	}
	for kind := 0; kind < 2; kind++ {
		lbl := pfx + ":" + vhKindName[kind] + "-only-from-the-views"
		for _, m := range sent.votes[kind] {
			vi := find(m.h, m.r, lbl)
			if vi < 0 {
				continue
			}
			verifrt.Assert(m.pkh == vhPubKeyHash, lbl)
			for hash, sigs := range m.proofs {
				t := -1
				for i, x := range vhTargets {
					if x == hash {
						t = i
					}
				}
				if t < 0 {
					verifrt.Fail(lbl)
					continue
				}
				word := views[vi].votes[kind][t]
				for _, sg := range sigs {
					if len(sg.KeyID) != 2 {
						verifrt.Fail(lbl)
						continue
					}
					id := int(sg.KeyID[0])<<8 | int(sg.KeyID[1])
					if id >= n || word&(1<<uint(id)) == 0 {
						verifrt.Fail(lbl)
						continue
					}
					if !bytes.Equal(sg.Sig, vkit.Sig(byte(id), vhSigTag(kind, t))) {
						verifrt.Fail(lbl)
						continue
					}
					cov[vi].votes[kind][t] |= 1 << uint(id)
				}
			}
		}
	}
	return cov
}

// vhNeed is the "everything" half: what must be offered for cur given that prev (nil:
// nothing) is what was broadcast before for the same slot. sameRound says whether prev
// is a view of the same height and round.
func vhNeed(prev, cur *vhSpec, sameRound bool) vhCover {
	var need vhCover
	need.ph = cur.ph
	need.votes = cur.votes
	if prev != nil && sameRound {
		need.ph &^= prev.ph
		for k := 0; k < 2; k++ {
			for t := 0; t < 3; t++ {
				need.votes[k][t] &^= prev.votes[k][t]
			}
		}
	}
	return need
}

func vhWord3(w [3]int) uint64 {
	return uint64(w[0]) | uint64(w[1])<<8 | uint64(w[2])<<16
}

// what vhCheckEverything checks, in the order given by the caller (a failed obligation ends
// the path, so the obligation expected to fail on some class comes last)
const (
	vhCkHeaders    = 2
	vhCkPrevotes   = vhPrevote
	vhCkPrecommits = vhPrecommit
)

var vhAllChecks = []int{vhCkHeaders, vhCkPrevotes, vhCkPrecommits}

// vhCheckEverything compares need with got, one label per kind.
func vhCheckEverything(pfx string, need, got vhCover, order []int) {
	for _, what := range order {
		switch what {
		case vhCkHeaders:
			verifrt.Observe(pfx+"-headers-need-got", uint64(need.ph), uint64(got.ph))
			verifrt.Assert(need.ph&^got.ph == 0, pfx+":every-new-header-broadcast")
		case vhCkPrevotes, vhCkPrecommits:
			verifrt.Observe(pfx+"-"+vhKindName[what]+"-need-got", vhWord3(need.votes[what]), vhWord3(got.votes[what]))
			ok := true
			for t := 0; t < 3; t++ {
				ok = ok && need.votes[what][t]&^got.votes[what][t] == 0
			}
			verifrt.Assert(ok, pfx+":every-new-"+vhKindName[what][:len(vhKindName[what])-1]+"-signature-broadcast")
		}
	}
}

// ---- input enumeration

func vhPopcount(w int) int {
	c := 0
	for ; w != 0; w &= w - 1 {
		c++
	}
	return c
}

// vhSubsetOf picks an arbitrary subset of w (one path per subset).
func vhSubsetOf(name string, w int) int {
	k := vhPopcount(w)
	if k == 0 {
		return 0
	}
	sel := verifrt.Choose(name, 1<<uint(k))
	out, j := 0, 0
	for i := 0; i < 8; i++ {
		if w&(1<<uint(i)) == 0 {
			continue
		}
		if sel&(1<<uint(j)) != 0 {
			out |= 1 << uint(i)
		}
		j++
	}
	return out
}

// vhGrowingWords: per target any signer word for the new view and any subset of it for
// the previous view (votes of one round only ever grow).
func vhGrowingWords(name string, n int) (prev, cur [3]int) {
	for t, hash := range vhTargets {
		cur[t] = vhAnyWord(name+"-cur-"+hash, n, t)
		prev[t] = vhSubsetOf(name+"-prev-"+hash, cur[t])
	}
	return
}

// vhAnyWord: any signer word; with 3 validators (thorough) target B is limited to
// nobody / the last validator / the first two / everybody to keep the path count down.
func vhAnyWord(name string, n, t int) int {
	if n > 2 && t == 2 {
		return []int{0, 1 << uint(n-1), 1<<uint(n-1) - 1, 1<<uint(n) - 1}[verifrt.Choose(name, 4)]
	}
	return verifrt.Choose(name, 1<<uint(n))
}

// vhAnyWords: per target any signer word.
func vhAnyWords(name string, n int) (w [3]int) {
	for t, hash := range vhTargets {
		w[t] = vhAnyWord(name+"-"+hash, n, t)
	}
	return
}

// vhPresetPair: a few representative (prev, cur) pairs for the kind that is not the
// focus of a harness: nothing; unchanged; one more signer on the same target.
func vhPresetPair(name string, n int) (prev, cur [3]int) {
	switch verifrt.Choose(name, 3) {
	case 1:
		prev = [3]int{1, 0, 0}
		cur = prev
	case 2:
		prev = [3]int{0, 1, 0}
		cur = [3]int{0, 1<<uint(n) - 1, 0}
	}
	return
}

// vhPreset: a few representative words for a kind that is not the focus.
func vhPreset(name string, n int) [3]int {
	switch verifrt.Choose(name, 3) {
	case 1:
		return [3]int{1, 0, 0}
	case 2:
		return [3]int{1, 1<<uint(n) - 2, 0}
	}
	return [3]int{}
}
