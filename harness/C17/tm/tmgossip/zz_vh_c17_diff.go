package tmgossip

import (
	"context"

	"github.com/gordian-engine/gordian/internal/verifrt"
	"github.com/gordian-engine/gordian/internal/verifrt/vkit"
)

// vhRunDiff drives the real broadcastViewDiff(prev, cur) with a recording broadcaster and
// checks both halves of the property for this one step.
func vhRunDiff(pfx string, n int, prev, cur *vhSpec, sameRound bool, order []int) {
	keys := vkit.OkKeys(n)
	rec := vhNewRec()
	s := &ChattyStrategy{log: verifrt.Logger(), cb: rec}
	pv, cv := vhView(keys, prev), vhView(keys, cur)
	ok := false
	if !verifrt.NoPanic(pfx+":no-panic", func() {
		ok = s.broadcastViewDiff(context.Background(), pv, cv)
	}) {
		return
	}
	verifrt.Assert(ok, pfx+":reports-success")
	sent := rec.drain()
	verifrt.Observe(pfx+"-messages", uint64(len(sent.ph)), uint64(len(sent.votes[0])), uint64(len(sent.votes[1])))
	got := vhReconstruct(pfx, n, sent, keys, []*vhSpec{cur})[0]
	vhCheckEverything(pfx, vhNeed(prev, cur, sameRound), got, order)
}

// vhSameRoundVotes: two consecutive views of the same height/round (both full-width
// symbols); the votes of the focus kind are any growing pair of signer words per target;
// the other kind and the headers take a few representative shapes.
func vhSameRoundVotes(pfx string, focus int) {
	n := vhN()
	h, r := verifrt.U64("height"), verifrt.U32("round")
	prev, cur := &vhSpec{h: h, r: r}, &vhSpec{h: h, r: r}
	prev.votes[focus], cur.votes[focus] = vhGrowingWords(vhKindName[focus], n)
	prev.ph, cur.ph = 1, 1
	switch verifrt.Choose("others", 3) {
	case 1:
		prev.ph = 0
		prev.votes[1-focus] = [3]int{1, 0, 0}
		cur.votes[1-focus] = [3]int{1, 0, 0}
	case 2:
		prev.votes[1-focus] = [3]int{1, 0, 0}
		cur.votes[1-focus] = [3]int{1<<uint(n) - 1, 0, 0}
	}
	// scenario classes (vacuity): the signer set of the round grows / stays the same while
	// some target gains a signer (a validator signs a second target) / nothing changes
	up, uc, changed := 0, 0, false
	for t := 0; t < 3; t++ {
		up |= prev.votes[focus][t]
		uc |= cur.votes[focus][t]
		changed = changed || prev.votes[focus][t] != cur.votes[focus][t]
	}
	// the last class gets its own obligation labels (prefix + "e") so that a finding there
	// does not mask the other classes
	run := pfx
	switch {
	case !changed:
		verifrt.Reach(pfx + "-votes-unchanged")
	case up != uc:
		verifrt.Reach(pfx + "-new-validator-voted")
	default:
		verifrt.Reach(pfx + "-known-validator-signed-another-target")
		run = pfx + "e"
	}
	vhRunDiff(run, n, prev, cur, true, []int{vhCkHeaders, 1 - focus, focus})
}

// VH_C17_G1_SameRoundPrevotes: broadcastViewDiff on two views of one round whose prevotes grow.
func VH_C17_G1_SameRoundPrevotes() { vhSameRoundVotes("G1", vhPrevote) }

// VH_C17_G2_SameRoundPrecommits: the same for precommits.
func VH_C17_G2_SameRoundPrecommits() { vhSameRoundVotes("G2", vhPrecommit) }

// VH_C17_G3_SameRoundHeaders: two views of one round; the proposed headers of the new view
// are any superset of the previous view's (0-2 headers).
func VH_C17_G3_SameRoundHeaders() {
	n := vhN()
	h, r := verifrt.U64("height"), verifrt.U32("round")
	prev, cur := &vhSpec{h: h, r: r}, &vhSpec{h: h, r: r}
	cur.ph = verifrt.Choose("headers-cur", 4)
	prev.ph = vhSubsetOf("headers-prev", cur.ph)
	prev.votes[0], cur.votes[0] = vhPresetPair("prevotes", n)
	prev.votes[1], cur.votes[1] = vhPresetPair("precommits", n)
	if prev.ph == cur.ph {
		verifrt.Reach("G3-headers-unchanged")
	} else {
		verifrt.Reach("G3-new-header")
	}
	vhRunDiff("G3", n, prev, cur, true, vhAllChecks)
}

// VH_C17_G4_RoundChange: the new view is for another height or round (full-width symbols):
// everything in it must be offered whatever the previous view held. The focus kind takes
// any signer word per target.
func VH_C17_G4_RoundChange() {
	n := vhN()
	h0, r0 := verifrt.U64("height-prev"), verifrt.U32("round-prev")
	h1, r1 := verifrt.U64("height"), verifrt.U32("round")
	verifrt.Assume(verifrt.Or(h0 != h1, r0 != r1))
	prev, cur := &vhSpec{h: h0, r: r0}, &vhSpec{h: h1, r: r1}
	focus := verifrt.Choose("focus-kind", 2)
	cur.votes[focus] = vhAnyWords(vhKindName[focus], n)
	cur.votes[1-focus] = vhPreset(vhKindName[1-focus], n)
	cur.ph = []int{0, 1, 3}[verifrt.Choose("headers", 3)]
	if verifrt.Choose("prev-same-content", 2) == 1 {
		// the previous round's view has the very same shape: still a different round
		prev.ph, prev.votes = cur.ph, cur.votes
	}
	if h0 != h1 {
		verifrt.Reach("G4-height-differs")
	} else {
		verifrt.Reach("G4-only-round-differs")
	}
	vhRunDiff("G4", n, prev, cur, false, vhAllChecks)
}

// VH_C17_G5_AllAndPrecommits drives broadcastAll(view) and broadcastPrecommits(view) (the
// nil-voted-round branch) directly: all of the view / all precommits of the view are
// offered, and nothing that is not in the view.
func VH_C17_G5_AllAndPrecommits() {
	n := vhN()
	keys := vkit.OkKeys(n)
	h, r := verifrt.U64("height"), verifrt.U32("round")
	cur := &vhSpec{h: h, r: r}
	fn := verifrt.Choose("function", 2)
	cur.votes[vhPrecommit] = vhAnyWords("precommits", n)
	cur.votes[vhPrevote] = vhPreset("prevotes", n)
	cur.ph = []int{0, 1, 3}[verifrt.Choose("headers", 3)]
	rec := vhNewRec()
	s := &ChattyStrategy{log: verifrt.Logger(), cb: rec}
	v := vhView(keys, cur)
	if fn == 0 {
		verifrt.Reach("G5-broadcastAll")
		ok := s.broadcastAll(context.Background(), v)
		verifrt.Assert(ok, "G5a:reports-success")
		got := vhReconstruct("G5a", n, rec.drain(), keys, []*vhSpec{cur})[0]
		vhCheckEverything("G5a", vhNeed(nil, cur, false), got, vhAllChecks)
		return
	}
	verifrt.Reach("G5-broadcastPrecommits")
	ok := s.broadcastPrecommits(context.Background(), v)
	verifrt.Assert(ok, "G5n:reports-success")
	got := vhReconstruct("G5n", n, rec.drain(), keys, []*vhSpec{cur})[0]
	vhCheckEverything("G5n", vhNeed(nil, cur, false), got, []int{vhCkPrecommits})
}
