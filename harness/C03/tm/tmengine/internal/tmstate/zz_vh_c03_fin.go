package tmstate

// C03, second half of the statement: "each of them finalizes heights in contiguous increasing
// order". What a node finalizes is the stream of FinalizeBlockRequests its state machine hands
// to the driver; this harness watches that stream over two process lives of the real state
// machine (kit of C08).

import (
	"github.com/gordian-engine/gordian/internal/verifrt"
)

// VH_C03_ContiguousFinalization: quiet start with 0/1 header; quick: a view with new precommit
// numbers (symbolic powers) then the driver's finalization or the step timer; thorough: 2-3
// events out of those three kinds; process death; real start-up on the same stores (the mirror
// answers with a live view or with a committed header); then 1 (quick) / 2 (thorough) events.
// Over both lives: the first request is for the initial height, every later request is for the
// same height (only while no finalization of it is stored) or the next one, and no request is
// made for a height whose finalization is stored.
func VH_C03_ContiguousFinalization() {
	vhOpts()
	e := vhNewSM(true)
	e.symEntrances = 0
	e.laterEntrancePHs = true
	if !e.start() {
		return
	}
	kinds := []int{evViewPC, evFinalization, evTimer}
	e.run(0, []int{evViewPC}, 1)
	if e.alive {
		if verifrt.Thorough() {
			// (2-3 events of any of the three kinds did not finish within the thorough
			// budget: 112729 paths in 1500 s; reduced)
			e.run(0, kinds, 1)
		} else {
			e.run(0, []int{evFinalization, evTimer}, 1)
		}
	}
	if !e.alive {
		return
	}
	e.allowCatchup = true
	if !e.restart() {
		return
	}
	// (thorough: 2 events of any of the three kinds after the restart took 1481 s of the 1500 s
	// budget - too close; the second one is restricted to the finalization or the timer)
	e.run(0, kinds, 1)
	if verifrt.Thorough() && e.alive {
		e.run(0, []int{evFinalization, evTimer}, 1)
	}

	last := uint64(0)
	for i, f := range e.finReqs {
		h := f.req.Header.Height
		if i == 0 {
			verifrt.Assert(h == vhInitialHeight, "C03:first-finalized-height-is-the-initial-height")
		} else {
			verifrt.Assert(h == last || h == last+1, "C03:finalized-heights-contiguous-and-increasing")
		}
		verifrt.Assert(!f.again, "C03:no-height-handed-to-the-driver-again-after-its-finalization-was-stored")
		last = h
	}
	if len(e.finReqs) > 0 {
		verifrt.Reach("C03-fin:finalize-requested")
	}
	if last > vhInitialHeight {
		verifrt.Reach("C03-fin:second-height-finalize-requested")
	}
	e.finish()
}
