package tmi

import (
	"github.com/gordian-engine/gordian/internal/verifrt"
	"github.com/gordian-engine/gordian/internal/verifrt/vkit"
)

// vhC03Node prepares one node's voting view at the given round holding proposed headers A and
// B, with the vote summary a real view would report for the admitted precommit signer set
// `bits` (per validator a symbolic Bool) on `target`. The summary numbers are supplied as
// sums over the signer bits (their equality with what SetPrecommitPowers computes from real
// proofs is C06-H1's claim), so the signer sets stay symbolic and no path forks on them.
func vhC03Node(n int, pows []uint64, round uint32, target string, bits []bool) *vhEnv {
	e := vhNewEnv(n, pows, 1)
	e.k.addProposedHeader(e.ctx, e.s, e.linkedProposed("A", 1, 0, 0))
	e.k.addProposedHeader(e.ctx, e.s, e.linkedProposed("B", 1, 0, 1))
	e.s.Voting.Round = round
	e.s.NextRound.Round = round + 1
	for i := range e.s.Voting.ProposedHeaders {
		e.s.Voting.ProposedHeaders[i].Round = round
	}
	var sum uint64
	for i := 0; i < n; i++ {
		sum += verifrt.Ite64(bits[i], pows[i], 0)
	}
	vs := &e.s.Voting.VoteSummary
	vs.PrecommitBlockPower[target] = sum
	vs.TotalPrecommitPower = sum
	vs.MostVotedPrecommitHash = target
	return e
}

// VH_C03_PairwiseCommit: the quorum-intersection lemma on the real commit rule. Two correct
// nodes at the same height hold admitted precommit sets S1 for block A in round r1 and S2 for
// block B != A in round r2 >= r1 (any signer sets, any powers). Validators in Byz (less than
// one third of the power) may sign anything; every other validator signs at most one target per
// round, identically for both nodes (C02 + unforgeability), and does not precommit B in a later
// round after precommitting A (lock rule of the consensus strategy - an assumption). Then the
// real checkVotingPrecommitViewShift cannot commit A at node 1 and B at node 2.
func VH_C03_PairwiseCommit() {
	verifrt.Summarize("ByzantineThresholds")
	n := 4
	pows := vkit.Powers("power", n)
	var total, byzPow uint64
	s1 := make([]bool, n)
	s2 := make([]bool, n)
	for i := 0; i < n; i++ {
		total += pows[i]
		byz := verifrt.Bool("byzantine")
		s1[i] = verifrt.Bool("signsA_at_node1")
		s2[i] = verifrt.Bool("signsB_at_node2")
		byzPow += verifrt.Ite64(byz, pows[i], 0)
		// an honest validator is not in both sets (same round: one precommit per round;
		// later round: lock rule)
		verifrt.Assume(verifrt.Or(byz, verifrt.Not(verifrt.And(s1[i], s2[i]))))
	}
	verifrt.Assume(lessThanOneThird(byzPow, total))
	r1 := verifrt.U32("r1")
	r2 := verifrt.U32("r2")
	verifrt.Assume(r1 <= r2)
	verifrt.Assume(r2 < 1<<30)

	n1 := vhC03Node(n, pows, r1, "A", s1)
	n2 := vhC03Node(n, pows, r2, "B", s2)
	err1 := n1.k.checkVotingPrecommitViewShift(n1.ctx, n1.s)
	err2 := n2.k.checkVotingPrecommitViewShift(n2.ctx, n2.s)
	verifrt.Assert(err1 == nil && err2 == nil, "C03:commit-check-returns-no-error")
	c1 := n1.commitAt(1)
	c2 := n2.commitAt(1)
	if c1.happened {
		verifrt.Reach("node1-commits-A")
		verifrt.Assert(c1.hash == "A", "C03:node1-commits-what-was-voted")
	}
	if c2.happened {
		verifrt.Reach("node2-commits-B")
		verifrt.Assert(c2.hash == "B", "C03:node2-commits-what-was-voted")
	}
	verifrt.Assert(!(c1.happened && c2.happened), "C03:two-correct-nodes-never-commit-different-blocks")
}

