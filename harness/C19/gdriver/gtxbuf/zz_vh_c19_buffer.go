package gtxbuf

import (
	"context"

	"github.com/gordian-engine/gordian/internal/verifrt"
)

// C19, API level: the real Buffer (New + kernel goroutine + Initialize) driven
// through its exported methods, compared after every call with a reference
// model of the property text (base state, pending list, folded state).

type vhModel struct {
	base uint64
	pend []vhTx
	s    uint64 // state after applying pend in order on base
	dead bool   // a rebase hit a fatal user error
}

func (m *vhModel) addTx(id uint64) (wantErr error) {
	if verifrt.UFBool("valid", m.s, id) {
		m.pend = append(m.pend, vhTx{ID: id})
		m.s = verifrt.UFU64("apply", m.s, id)
		return nil
	}
	if !vhNoFatal && verifrt.UFBool("fatal", m.s, id) {
		return vhFatalErr{State: m.s, ID: id}
	}
	return TxInvalidError{Err: vhUserErr{State: m.s, ID: id}}
}

func (m *vhModel) rebase(newBase uint64, applied []vhTx) (inval []vhTx, wantErr error) {
	m.base = newBase
	s := newBase
	var kept []vhTx
	for _, t := range m.pend {
		isApplied := false
		for _, a := range applied {
			if a.ID == t.ID {
				isApplied = true
			}
		}
		if isApplied {
			continue
		}
		if verifrt.UFBool("valid", s, t.ID) {
			kept = append(kept, t)
			s = verifrt.UFU64("apply", s, t.ID)
			continue
		}
		if !vhNoFatal && verifrt.UFBool("fatal", s, t.ID) {
			m.dead = true
			return nil, vhFatalErr{State: s, ID: t.ID}
		}
		inval = append(inval, t)
	}
	m.pend = kept
	m.s = s
	return inval, nil
}

// vhHeldRead: a list a reader obtained from Buffered, and what it contained at that time.
type vhHeldRead struct{ got, want []vhTx }

var vhHeld []vhHeldRead

func vhOps() int {
	if verifrt.Thorough() {
		return 3
	}
	return 2
}

// vhStep performs one client call on b and the same step on the model, and
// compares what the client sees.
func vhStep(ctx context.Context, b *Buffer[uint64, vhTx], m *vhModel, canAdd bool) {
	nop := 3
	if !canAdd {
		nop = 2
	}
	switch verifrt.Choose("op", nop) {
	case 2: // AddTx
		id := verifrt.U64("txid")
		// duplicates of pending transactions are outside the deleter contract
		for _, p := range m.pend {
			verifrt.Assume(p.ID != id)
		}
		err := b.AddTx(ctx, vhTx{ID: id})
		want := m.addTx(id)
		verifrt.Assert(err == want, "S:addtx-error-is-exactly-the-users-error-or-nil")
		if want == nil {
			verifrt.Reach("api-added")
		} else {
			verifrt.Reach("api-rejected")
		}
	case 0: // Buffered
		out := b.Buffered(ctx, nil)
		verifrt.Reach("api-buffered")
		verifrt.Assert(vhSameList(out, m.pend), "S:buffered-is-model-pending-list")
		// the reader keeps what it was given; later calls must not change it under the reader
		vhHeld = append(vhHeld, vhHeldRead{got: out, want: append([]vhTx(nil), m.pend...)})
	case 1: // Rebase
		newBase := verifrt.U64("newbase")
		k := len(m.pend)
		mask := verifrt.Choose("appliedmask", 1<<uint(k))
		var applied []vhTx
		for i := 0; i < k; i++ {
			if mask&(1<<uint(i)) != 0 {
				applied = append(applied, m.pend[i])
			}
		}
		if verifrt.Choose("appliedextra", 2) == 1 {
			applied = append(applied, vhTx{ID: verifrt.U64("foreignid")})
		}
		inval, err := b.Rebase(ctx, newBase, applied)
		wantInval, wantErr := m.rebase(newBase, applied)
		verifrt.Assert(err == wantErr, "S:rebase-error-is-users-fatal-error-or-nil")
		verifrt.Assert(vhSameList(inval, wantInval), "S:rebase-invalidated-is-exactly-the-rest-in-order")
		verifrt.Observe("api-rebase", uint64(k), uint64(len(applied)), uint64(len(inval)))
		switch {
		case m.dead:
			verifrt.Reach("api-rebase-fatal")
		case len(wantInval) > 0:
			verifrt.Reach("api-rebase-invalidated-some")
		case k > 0 && len(m.pend) == k:
			verifrt.Reach("api-rebase-kept-all")
		default:
			verifrt.Reach("api-rebase-other")
		}
	}
}

// VH_C19_BufferSeq: sequential client of the real Buffer; after the calls the
// pending list is read back and must be the model's list, which applies in
// order on the model's base by construction of the model (re-checked here).
func VH_C19_BufferSeq() {
	vhHeld = nil
	ctx, cancel := context.WithCancel(vhCtx())
	vhWrongCtx = 0
	vhNoFatal = false
	b := New[uint64, vhTx](ctx, verifrt.Logger(), vhAddTx, vhDeleter)
	base := verifrt.U64("base")
	if !b.Initialize(ctx, base) {
		verifrt.Fail("S:initialize-refused")
		return
	}
	m := &vhModel{base: base, s: base}

	// an empty buffer first reads back empty
	verifrt.Assert(len(b.Buffered(ctx, nil)) == 0, "S:fresh-buffer-empty")

	// one accepted transaction is put in front so that the short op sequence
	// that follows starts from a non-trivial buffer half of the time
	if verifrt.Choose("seed", 2) == 1 {
		id := verifrt.U64("seedid")
		verifrt.Assume(verifrt.UFBool("valid", base, id))
		err := b.AddTx(ctx, vhTx{ID: id})
		verifrt.Assert(err == m.addTx(id), "S:seed-accepted")
	}

	n := vhOps()
	for i := 0; i < n && !m.dead; i++ {
		vhStep(ctx, b, m, true)
	}

	if !m.dead {
		out := b.Buffered(ctx, nil)
		verifrt.Assert(vhSameList(out, m.pend), "S:final-pending-list-is-model-list")
		// the list read back applies cleanly in order on the current base
		s := m.base
		ok := true
		for _, t := range out {
			ok = verifrt.And(ok, verifrt.UFBool("valid", s, t.ID))
			s = verifrt.UFU64("apply", s, t.ID)
		}
		verifrt.Assert(ok, "S:final-pending-list-applies-in-order-on-base")
		// and the kernel's cached state agrees: a tx offered now is judged on s
		id := verifrt.U64("probeid")
		err := b.AddTx(ctx, vhTx{ID: id})
		verifrt.Assert((err == nil) == verifrt.UFBool("valid", s, id), "S:next-tx-judged-on-state-after-pending")
		verifrt.Observe("api-final", uint64(len(out)), s)
	}
	for _, h := range vhHeld {
		verifrt.Assert(vhSameList(h.got, h.want), "S:list-handed-to-a-reader-never-changes-afterwards")
	}
	verifrt.Assert(vhWrongCtx == 0, "S:callbacks-get-a-context-derived-from-New")

	cancel()
	b.Wait()
	verifrt.Reach("api-kernel-stopped")
}
