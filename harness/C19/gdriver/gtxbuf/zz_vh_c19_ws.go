package gtxbuf

import (
	"context"

	"github.com/gordian-engine/gordian/internal/verifrt"
)

// C19: the transaction buffer's pending list always applies cleanly in order.
//
// The real generic workingState[S,T] is instantiated with S=uint64 and
// T=vhTx{ID}. The user's transaction semantics are three uninterpreted
// functions of (state, tx id): "valid" (does the tx apply), "apply" (the new
// state) and "fatal" (when it does not apply: is the error a plain
// TxInvalidError or something else), so every result holds for EVERY
// transaction semantics.

type vhTx struct{ ID uint64 }

// vhUserErr is the user's error value; it records the call it came from so that
// "the error returned is exactly the user's error" can be checked.
type vhUserErr struct{ State, ID uint64 }

func (e vhUserErr) Error() string { return "vh: transaction does not apply" }

// vhFatalErr is a user error NOT wrapped in TxInvalidError.
type vhFatalErr struct{ State, ID uint64 }

func (e vhFatalErr) Error() string { return "vh: fatal" }

type vhCtxKey struct{}

// vhWrongCtx counts the callbacks made with a context other than the one handed in.
var vhWrongCtx int

// vhNoFatal restricts the user function to TxInvalidError failures (used by the
// concurrent harness, where a buffer killed by a fatal error has no defined result).
var vhNoFatal bool

// vhAllowDup drops the pairwise-distinct-ids assumption of the pre-state (experiments only).
var vhAllowDup bool

func vhCheckCtx(ctx context.Context) {
	if ctx == nil || ctx.Value(vhCtxKey{}) == nil {
		vhWrongCtx++
	}
}

func vhAddTx(ctx context.Context, s uint64, t vhTx) (uint64, error) {
	vhCheckCtx(ctx)
	if verifrt.UFBool("valid", s, t.ID) {
		return verifrt.UFU64("apply", s, t.ID), nil
	}
	// The state returned next to an error is garbage: the code must not use it.
	garbage := verifrt.UFU64("garbage", s, t.ID)
	if !vhNoFatal && verifrt.UFBool("fatal", s, t.ID) {
		return garbage, vhFatalErr{State: s, ID: t.ID}
	}
	return garbage, TxInvalidError{Err: vhUserErr{State: s, ID: t.ID}}
}

// vhDeleter is the documented shape of a deleter: true for the transactions
// whose ID is in the reject list.
func vhDeleter(ctx context.Context, reject []vhTx) func(vhTx) bool {
	vhCheckCtx(ctx)
	ids := make([]uint64, len(reject))
	for i, r := range reject {
		ids[i] = r.ID
	}
	return func(t vhTx) bool {
		hit := false
		for _, id := range ids {
			hit = verifrt.Or(hit, id == t.ID)
		}
		return hit
	}
}

func vhMaxK() int {
	if verifrt.Thorough() {
		return 3
	}
	return 2
}

func vhCtx() context.Context {
	return context.WithValue(context.Background(), vhCtxKey{}, 1)
}

// vhPre builds, by construction, an arbitrary working state satisfying the
// invariant I: k pending transactions with pairwise distinct ids, each valid on
// the state produced by its predecessors from BaseState, and the effective
// current state (curState if isUpdated, else BaseState) equal to the final state.
func vhPre() (w *workingState[uint64, vhTx], txs []vhTx, eff uint64) {
	vhNoFatal = false
	k := verifrt.Choose("k", vhMaxK()+1)
	base := verifrt.U64("base")
	txs = make([]vhTx, k)
	s := base
	for i := 0; i < k; i++ {
		id := verifrt.U64("id")
		for j := 0; j < i; j++ {
			if !vhAllowDup {
				verifrt.Assume(id != txs[j].ID)
			}
		}
		txs[i] = vhTx{ID: id}
		verifrt.Assume(verifrt.UFBool("valid", s, id))
		s = verifrt.UFU64("apply", s, id)
	}
	upd := verifrt.Bool("isUpdated")
	cur := verifrt.U64("cur")
	verifrt.Assume(verifrt.Ite64(upd, cur, base) == s)

	// spare capacity or not: append may or may not reallocate
	extra := verifrt.Choose("sparecap", 2)
	pend := make([]vhTx, k, k+extra)
	copy(pend, txs)
	w = &workingState[uint64, vhTx]{
		BaseState: base,
		curState:  cur,
		isUpdated: upd,
		Txs:       pend,
		addTx:     vhAddTx,
		txDeleter: vhDeleter,
	}
	return w, txs, s
}

func vhEff(w *workingState[uint64, vhTx]) uint64 {
	return verifrt.Ite64(w.isUpdated, w.curState, w.BaseState)
}

// vhAssertI asserts the invariant on the current working state.
func vhAssertI(w *workingState[uint64, vhTx], tag string, wantDistinct bool) {
	s := w.BaseState
	ok := true
	distinct := true
	for i, t := range w.Txs {
		ok = verifrt.And(ok, verifrt.UFBool("valid", s, t.ID))
		s = verifrt.UFU64("apply", s, t.ID)
		for j := 0; j < i; j++ {
			distinct = verifrt.And(distinct, w.Txs[j].ID != t.ID)
		}
	}
	verifrt.Assert(ok, "I:"+tag+":every-pending-tx-applies-in-order-on-base")
	verifrt.Assert(vhEff(w) == s, "I:"+tag+":cached-state-is-state-after-pending")
	if wantDistinct {
		verifrt.Assert(distinct, "I:"+tag+":pending-ids-distinct")
	}
}

func vhSameList(got, want []vhTx) bool {
	if len(got) != len(want) {
		return false
	}
	same := true
	for i := range want {
		same = verifrt.And(same, got[i].ID == want[i].ID)
	}
	return same
}

// VH_C19_AddTx: one CheckAddTx of an arbitrary transaction on an arbitrary
// state satisfying I.
func VH_C19_AddTx() {
	w, pre, eff := vhPre()
	base := w.BaseState
	id := verifrt.U64("newid")
	ctx := vhCtx()
	vhWrongCtx = 0

	var err error
	if !verifrt.NoPanic("A:checkaddtx-panics", func() { err = w.CheckAddTx(ctx, vhTx{ID: id}) }) {
		return
	}

	fresh := true
	for _, t := range pre {
		fresh = verifrt.And(fresh, t.ID != id)
	}
	verifrt.Assert(vhWrongCtx == 0, "A:callback-gets-callers-context")
	verifrt.Assert(w.BaseState == base, "A:base-state-unchanged")

	if verifrt.UFBool("valid", eff, id) {
		verifrt.Reach("added")
		verifrt.Assert(err == nil, "A:applying-tx-accepted-without-error")
		want := append(append([]vhTx{}, pre...), vhTx{ID: id})
		verifrt.Assert(vhSameList(w.Txs, want), "A:accepted-tx-appended-at-end")
		verifrt.Assert(vhEff(w) == verifrt.UFU64("apply", eff, id), "A:current-state-is-apply-result")
		verifrt.Observe("added", uint64(len(w.Txs)), vhEff(w))
	} else {
		var wantErr error
		if verifrt.UFBool("fatal", eff, id) {
			verifrt.Reach("rejected-other-error")
			wantErr = vhFatalErr{State: eff, ID: id}
		} else {
			verifrt.Reach("rejected-invalid")
			wantErr = TxInvalidError{Err: vhUserErr{State: eff, ID: id}}
		}
		// the tx was offered on the state produced by the earlier pending ones,
		// and the user's error comes back untouched
		verifrt.Assert(err == wantErr, "A:error-is-exactly-the-users-error")
		verifrt.Assert(vhSameList(w.Txs, pre), "A:rejected-tx-not-appended")
		verifrt.Assert(vhEff(w) == eff, "A:rejected-tx-leaves-current-state")
		verifrt.Observe("rejected", uint64(len(w.Txs)), vhEff(w))
	}
	// distinctness is only claimed when the new id was not already pending
	// (whether a duplicate applies is the user's business)
	vhAssertI(w, "addtx", false)
	if len(w.Txs) > len(pre) {
		d := true
		for i, t := range w.Txs {
			for j := 0; j < i; j++ {
				d = verifrt.And(d, w.Txs[j].ID != t.ID)
			}
		}
		verifrt.Assert(verifrt.Implies(fresh, d), "I:addtx:pending-ids-distinct")
	}
}

// VH_C19_Buffered: reading the pending list returns dst ++ pending, as a copy,
// and changes nothing.
func VH_C19_Buffered() {
	w, pre, eff := vhPre()
	base := w.BaseState
	nd := verifrt.Choose("dstlen", 3)      // 0: nil dst
	spare := verifrt.Choose("dstspare", 2) // dst with room for everything or none
	var dst []vhTx
	if nd > 0 {
		c := nd - 1
		if spare == 1 {
			c += len(pre) + 1
		}
		dst = make([]vhTx, nd-1, c)
		for i := range dst {
			dst[i] = vhTx{ID: verifrt.U64("dstid")}
		}
	}
	dstCopy := append([]vhTx{}, dst...)

	var out []vhTx
	if !verifrt.NoPanic("B:buffered-panics", func() { out = w.Buffered(dst) }) {
		return
	}
	verifrt.Reach("buffered")
	verifrt.Assert(vhSameList(out, append(dstCopy, pre...)), "B:result-is-dst-then-pending-in-order")
	// it is a copy: scribbling over the result does not touch the pending list
	for i := range out {
		out[i] = vhTx{ID: verifrt.U64("scribble")}
	}
	verifrt.Assert(vhSameList(w.Txs, pre), "B:pending-list-unchanged-and-not-aliased")
	verifrt.Assert(w.BaseState == base, "B:base-state-unchanged")
	verifrt.Assert(vhEff(w) == eff, "B:current-state-unchanged")
	verifrt.Observe("buffered", uint64(len(out)), uint64(len(w.Txs)))
	vhAssertI(w, "buffered", true)
}

// VH_C19_Rebase: one Rebase to an arbitrary new base, reporting as applied any
// subset of the pending transactions plus possibly one more transaction
// (unconstrained id: usually one the buffer never saw).
func VH_C19_Rebase() { vhAllowDup = false; vhRebase() }

// vhC19RebaseDup is VH_C19_Rebase without the distinct-id assumption. It is NOT
// part of the check (the deleter contract does not define duplicates); renamed to
// VH_C19_RebaseDup it reproduces the reported observation: with two pending
// transactions the deleter cannot tell apart, of which the first still applies on
// the new base and the second does not, pruning "invalidated" through txDeleter
// drops both while curState keeps the effect of the first.
func vhC19RebaseDup() { vhAllowDup = true; vhRebase() }

var _ = vhC19RebaseDup

func vhRebase() {
	w, pre, _ := vhPre()
	k := len(pre)
	newBase := verifrt.U64("newbase")
	mask := verifrt.Choose("appliedmask", 1<<uint(k))
	extra := verifrt.Choose("appliedextra", 3) // 0 none, 1 before, 2 after the pending ones
	var applied []vhTx
	if extra == 1 {
		applied = append(applied, vhTx{ID: verifrt.U64("foreignid")})
	}
	// reported in reverse order: the applied list need not follow the pending order
	for i := k - 1; i >= 0; i-- {
		if mask&(1<<uint(i)) != 0 {
			applied = append(applied, pre[i])
		}
	}
	if extra == 2 {
		applied = append(applied, vhTx{ID: verifrt.U64("foreignid")})
	}
	appliedCopy := append([]vhTx{}, applied...)
	ctx := vhCtx()
	vhWrongCtx = 0

	var resp rebaseResponse[vhTx]
	if !verifrt.NoPanic("R:rebase-panics", func() { resp = w.Rebase(ctx, newBase, applied) }) {
		return
	}

	// Oracle, straight from the property text.
	s := newBase
	var kept, inval []vhTx
	fatal := false
	var fatalErr error
	for _, t := range pre {
		isApplied := false
		for _, a := range appliedCopy {
			if a.ID == t.ID {
				isApplied = true
			}
		}
		if isApplied {
			continue
		}
		if verifrt.UFBool("valid", s, t.ID) {
			kept = append(kept, t)
			s = verifrt.UFU64("apply", s, t.ID)
			continue
		}
		if verifrt.UFBool("fatal", s, t.ID) {
			fatal = true
			fatalErr = vhFatalErr{State: s, ID: t.ID}
			break
		}
		inval = append(inval, t)
	}

	verifrt.Assert(vhWrongCtx == 0, "R:callback-gets-callers-context")
	verifrt.Assert(w.BaseState == newBase, "R:base-state-is-new-base")
	verifrt.Assert(vhSameList(applied, appliedCopy), "R:applied-argument-not-modified")

	if fatal {
		// Documented: an error not wrapped in TxInvalidError is fatal to the
		// buffer; only the error report is checked, not I.
		verifrt.Reach("rebase-fatal-user-error")
		verifrt.Assert(resp.Err == fatalErr, "R:fatal-error-is-exactly-the-users-error")
		verifrt.Assert(len(resp.Invalidated) == 0, "R:fatal-error-reports-no-invalidated")
		verifrt.Observe("rebase-fatal", uint64(len(w.Txs)))
		return
	}

	verifrt.Assert(resp.Err == nil, "R:no-error-without-fatal-user-error")
	verifrt.Assert(vhSameList(w.Txs, kept), "R:kept-exactly-unapplied-still-applying-in-order")
	verifrt.Assert(vhSameList(resp.Invalidated, inval), "R:invalidated-is-exactly-the-rest-in-order")
	verifrt.Assert(vhEff(w) == s, "R:current-state-is-new-base-plus-kept")
	verifrt.Observe("rebase", uint64(k), uint64(len(appliedCopy)), uint64(len(w.Txs)), uint64(len(resp.Invalidated)), vhEff(w))
	switch {
	case k == 0:
		verifrt.Reach("rebase-empty-buffer")
	case len(inval) > 0:
		verifrt.Reach("rebase-invalidated-some")
	case len(kept) == k:
		verifrt.Reach("rebase-kept-all")
	default:
		verifrt.Reach("rebase-dropped-applied-only")
	}
	if len(inval) > 0 && len(kept) > 0 {
		verifrt.Reach("rebase-kept-some-and-invalidated-some")
	}
	vhAssertI(w, "rebase", !vhAllowDup)
	// nothing handed back as invalidated is still pending
	for _, t := range resp.Invalidated {
		for _, p := range w.Txs {
			verifrt.Assert(p.ID != t.ID, "R:invalidated-tx-no-longer-pending")
		}
	}
}
