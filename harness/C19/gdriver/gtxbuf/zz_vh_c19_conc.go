package gtxbuf

import (
	"context"

	"github.com/gordian-engine/gordian/internal/verifrt"
)

// C19, concurrency: two client goroutines each make one call on the real
// Buffer while the kernel goroutine serves them, under every schedule the
// engine explores (scheduler picks are choice points, bounded preemptions).
// What the two clients and a final read see must be what SOME sequential order
// of the two calls gives on the reference model.

type vhOp struct {
	kind    int // 0 AddTx, 1 Rebase, 2 Buffered
	id      uint64
	newBase uint64
	applied []vhTx
}

type vhRes struct {
	err  error
	list []vhTx // Rebase: invalidated; Buffered: the list read
}

func vhDo(ctx context.Context, b *Buffer[uint64, vhTx], op vhOp) (r vhRes) {
	switch op.kind {
	case 0:
		r.err = b.AddTx(ctx, vhTx{ID: op.id})
	case 1:
		r.list, r.err = b.Rebase(ctx, op.newBase, op.applied)
	default:
		r.list = b.Buffered(ctx, nil)
	}
	return r
}

func (m *vhModel) do(op vhOp) (r vhRes) {
	switch op.kind {
	case 0:
		r.err = m.addTx(op.id)
	case 1:
		r.list, r.err = m.rebase(op.newBase, op.applied)
	default:
		r.list = append([]vhTx{}, m.pend...)
	}
	return r
}

func (m *vhModel) clone() *vhModel {
	c := *m
	c.pend = append([]vhTx{}, m.pend...)
	return &c
}

func vhResEq(a, b vhRes) bool {
	if a.err != b.err {
		return false
	}
	return vhSameList(a.list, b.list)
}

func VH_C19_BufferConc() {
	ctx, cancel := context.WithCancel(vhCtx())
	vhWrongCtx = 0
	vhNoFatal = true
	b := New[uint64, vhTx](ctx, verifrt.Logger(), vhAddTx, vhDeleter)
	base := verifrt.U64("base")
	if !b.Initialize(ctx, base) {
		verifrt.Fail("P:initialize-refused")
		return
	}
	m := &vhModel{base: base, s: base}
	seed := verifrt.U64("seedid")
	verifrt.Assume(verifrt.UFBool("valid", base, seed))
	verifrt.Assert(b.AddTx(ctx, vhTx{ID: seed}) == m.addTx(seed), "P:seed-accepted")

	// client A always offers a transaction; client B offers another one, rebases
	// (reporting the seed applied or not) or reads
	opA := vhOp{kind: 0, id: verifrt.U64("ida")}
	verifrt.Assume(opA.id != seed)
	var opB vhOp
	switch verifrt.Choose("opb", 4) {
	case 0:
		opB = vhOp{kind: 0, id: verifrt.U64("idb")}
		verifrt.Assume(opB.id != seed)
		verifrt.Assume(opB.id != opA.id)
	case 1:
		opB = vhOp{kind: 1, newBase: verifrt.U64("newbase")}
	case 2:
		opB = vhOp{kind: 1, newBase: verifrt.U64("newbase"), applied: []vhTx{{ID: seed}}}
	default:
		opB = vhOp{kind: 2}
	}

	verifrt.SchedNondet(true, vhPreempt())
	var resA, resB vhRes
	doneA := make(chan struct{})
	doneB := make(chan struct{})
	go func() { resA = vhDo(ctx, b, opA); close(doneA) }()
	go func() { resB = vhDo(ctx, b, opB); close(doneB) }()
	<-doneA
	<-doneB
	verifrt.SchedNondet(false, 0)

	final := b.Buffered(ctx, nil)
	probe := verifrt.U64("probeid")
	probeErr := b.AddTx(ctx, vhTx{ID: probe})

	mAB := m.clone()
	wA1 := mAB.do(opA)
	wB1 := mAB.do(opB)
	okAB := vhResEq(resA, wA1) && vhResEq(resB, wB1) && vhSameList(final, mAB.pend) &&
		(probeErr == nil) == verifrt.UFBool("valid", mAB.s, probe)

	mBA := m.clone()
	wB2 := mBA.do(opB)
	wA2 := mBA.do(opA)
	okBA := vhResEq(resA, wA2) && vhResEq(resB, wB2) && vhSameList(final, mBA.pend) &&
		(probeErr == nil) == verifrt.UFBool("valid", mBA.s, probe)

	verifrt.Assert(okAB || okBA, "P:concurrent-calls-equal-some-sequential-order")
	if okAB {
		verifrt.Reach("conc-order-a-then-b")
	}
	if okBA {
		verifrt.Reach("conc-order-b-then-a")
	}
	verifrt.Assert(vhWrongCtx == 0, "P:callbacks-get-a-context-derived-from-New")

	cancel()
	b.Wait()
	verifrt.Reach("conc-kernel-stopped")
}

// preemption budget on top of the scheduler choices at every blocking point
func vhPreempt() int {
	if verifrt.Thorough() {
		return 1
	}
	return 0
}
