// Package hc06 holds the C06 harnesses that only need exported API.
package hc06

import (
	"github.com/gordian-engine/gordian/gcrypto"
	"github.com/gordian-engine/gordian/internal/verifrt"
	"github.com/gordian-engine/gordian/internal/verifrt/vkit"
	"github.com/gordian-engine/gordian/tm/tmconsensus"
)

// okKey accepts every signature: C06 is about accounting, not authenticity.
type okKey struct{ id byte }

func (k okKey) PubKeyBytes() []byte { return []byte{'o', k.id} }
func (k okKey) Equal(o gcrypto.PubKey) bool {
	ok, is := o.(okKey)
	return is && ok == k
}
func (k okKey) Verify(msg, sig []byte) bool { return true }
func (k okKey) TypeName() string            { return "okkey" }

var targets = []string{"", "A", "B"} // lexicographic order

// buildProofs makes, per target, a real SimpleCommonMessageSignatureProof signed by
// an arbitrary subset of the n validators (any validator may sign any number of targets).
// signers[t] is the chosen signer word; present[t] says whether the target has an entry.
func buildProofs(n int, kind string) (proofs map[string]gcrypto.CommonMessageSignatureProof, signers []int, present []bool, keys []gcrypto.PubKey) {
	keys = make([]gcrypto.PubKey, n)
	for i := range keys {
		keys[i] = okKey{id: byte(i)}
	}
	proofs = map[string]gcrypto.CommonMessageSignatureProof{}
	signers = make([]int, len(targets))
	present = make([]bool, len(targets))
	for t, hash := range targets {
		w := verifrt.Choose(kind+"-signers-"+hash, 1<<uint(n)+1) // last value = no entry at all
		if w == 1<<uint(n) {
			continue
		}
		present[t] = true
		signers[t] = w
		p, err := gcrypto.NewSimpleCommonMessageSignatureProof([]byte(kind+hash), keys, "pkh")
		if err != nil {
			panic(err)
		}
		for i := 0; i < n; i++ {
			if w&(1<<uint(i)) != 0 {
				if err := p.AddSignature(vkit.Sig(byte(i), byte(t)), keys[i]); err != nil {
					panic(err)
				}
			}
		}
		proofs[hash] = p
	}
	return
}

func nVals() int {
	if verifrt.Thorough() {
		return 3
	}
	return 2
}

// checkSummary compares one kind's numbers with the oracle written from the property text.
func checkSummary(tag string, pows []uint64, signers []int, present []bool, total uint64, block map[string]uint64, most string) {
	n := len(pows)
	var wantBlock [3]uint64
	union := 0
	for t := range targets {
		if !present[t] {
			continue
		}
		union |= signers[t]
		for i := 0; i < n; i++ {
			if signers[t]&(1<<uint(i)) != 0 {
				wantBlock[t] += pows[i]
			}
		}
	}
	var wantTotal uint64
	for i := 0; i < n; i++ {
		if union&(1<<uint(i)) != 0 {
			wantTotal += pows[i]
		}
	}
	verifrt.Observe(tag+"-total", total, wantTotal)
	// each validator counted at most once however many targets it signed
	verifrt.Assert(total == wantTotal, "H1:"+tag+"-total-counts-each-validator-once")
	nPresent := 0
	var maxPow uint64
	for t, hash := range targets {
		got, has := block[hash]
		verifrt.Assert(has == present[t], "H1:"+tag+"-block-entry-iff-proof")
		if present[t] {
			nPresent++
			verifrt.Assert(got == wantBlock[t], "H1:"+tag+"-block-power-is-sum-of-distinct-signers")
			maxPow = verifrt.Ite64(wantBlock[t] > maxPow, wantBlock[t], maxPow)
		}
	}
	verifrt.Assert(len(block) == nPresent, "H1:"+tag+"-no-extra-block-entries")
	// most voted: minimal (lexicographic) target among those with maximal power; "" if nothing has power
	mt := -1
	for t, hash := range targets {
		if hash == most {
			mt = t
		}
	}
	verifrt.Assert(mt >= 0, "H1:"+tag+"-most-voted-is-a-known-target")
	if mt < 0 {
		return
	}
	if most == "" && !present[0] {
		verifrt.Assert(maxPow == 0, "H1:"+tag+"-most-voted-empty-only-if-no-power")
		return
	}
	verifrt.Assert(present[mt], "H1:"+tag+"-most-voted-has-entry")
	isMax := wantBlock[mt] == maxPow
	verifrt.Assert(verifrt.Or(isMax, verifrt.And(most == "", maxPow == 0)), "H1:"+tag+"-most-voted-has-max-power")
	for t := 0; t < mt; t++ {
		if present[t] {
			verifrt.Assert(wantBlock[t] < maxPow, "H1:"+tag+"-most-voted-is-least-among-ties")
		}
	}
}

// VH_C06_H1_Summary: SetAvailablePower/SetPrevotePowers/SetPrecommitPowers equal the
// recomputation from the admitted signatures, for every map iteration order.
func VH_C06_H1_Summary() {
	verifrt.MapOrderNondet(true)
	n := nVals()
	pows := vkit.Powers("power", n)
	proofs, signers, present, keys := buildProofs(n, "v")
	vals := make([]tmconsensus.Validator, n)
	var sum uint64
	for i := range vals {
		vals[i] = tmconsensus.Validator{PubKey: keys[i], Power: pows[i]}
		sum += pows[i]
	}
	vs := tmconsensus.NewVoteSummary()
	vs.SetAvailablePower(vals)
	kind := verifrt.Choose("kind", 2)
	if kind == 0 {
		vs.SetPrevotePowers(vals, proofs)
	} else {
		vs.SetPrecommitPowers(vals, proofs)
	}
	verifrt.Reach("summary-computed")
	verifrt.Assert(vs.AvailablePower == sum, "H1:available-is-sum-of-powers")
	if kind == 0 {
		checkSummary("prevote", pows, signers, present, vs.TotalPrevotePower, vs.PrevoteBlockPower, vs.MostVotedPrevoteHash)
		verifrt.Assert(vs.TotalPrecommitPower == 0, "H1:other-kind-untouched")
	} else {
		checkSummary("precommit", pows, signers, present, vs.TotalPrecommitPower, vs.PrecommitBlockPower, vs.MostVotedPrecommitHash)
		verifrt.Assert(vs.TotalPrevotePower == 0, "H1:other-kind-untouched")
	}
}
