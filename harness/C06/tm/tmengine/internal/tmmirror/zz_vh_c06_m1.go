package tmmirror

// C06-M1: the accounting seen from outside the kernel. A real Mirror (handlers + kernel
// goroutine) receives three precommit messages for block A: a valid vote of validator 0; a
// message that mixes a valid vote of validator 1 with a vote of validator 2 whose signature may
// or may not verify (uninterpreted); then validator 1's valid vote on its own again (an honest
// retransmission). After every message the vote summary the voting view reports must equal the
// recomputation from the signatures the view itself holds (powers symbolic): whatever the
// handlers answer, a signature that is in the view is counted and one that is not is not.

import (
	"github.com/gordian-engine/gordian/gcrypto"
	"github.com/gordian-engine/gordian/internal/verifrt"
	"github.com/gordian-engine/gordian/internal/verifrt/vkit"
	"github.com/gordian-engine/gordian/tm/tmconsensus"
)

func vhC06SummaryMatches(e *vhM, tag string) {
	var v tmconsensus.VersionedRoundView
	verifrt.Assert(e.m.VotingView(e.ctx, &v) == nil, "M1:kernel-serves")
	if v.Height != 1 || v.Round != 0 {
		return // the round is over (commit or nil quorum): nothing to compare in this harness
	}
	for _, kind := range []int{0, 1} {
		proofs, block, total := v.PrevoteProofs, v.VoteSummary.PrevoteBlockPower, v.VoteSummary.TotalPrevotePower
		if kind == 1 {
			proofs, block, total = v.PrecommitProofs, v.VoteSummary.PrecommitBlockPower, v.VoteSummary.TotalPrecommitPower
		}
		var all uint64
		for hash, p := range proofs {
			bits := bitsOf(p, e.n)
			var want uint64
			for i := 0; i < e.n; i++ {
				if bits&(1<<uint(i)) != 0 {
					want += e.pows[i]
				}
			}
			all |= bits
			verifrt.Assert(block[hash] == want, "M1:"+tag+":block-power-equals-the-power-of-the-signers-in-the-view")
		}
		var wantTotal uint64
		for i := 0; i < e.n; i++ {
			if all&(1<<uint(i)) != 0 {
				wantTotal += e.pows[i]
			}
		}
		verifrt.Assert(total == wantTotal, "M1:"+tag+":total-power-equals-the-power-of-the-signers-in-the-view")
	}
}

func VH_C06_M1_MirrorSummary() {
	verifrt.Summarize("ByzantineThresholds")
	n := 4
	keys := vkit.Keys(0, n)
	pows := vkit.Powers("power", n)
	e := vhNewMirror(keys, pows, 1)
	pkh := string(e.vs.PubKeyHash)
	content := vkit.PrecommitContent(1, 0, "A")
	send := func(sigs []gcrypto.SparseSignature) tmconsensus.HandleVoteProofsResult {
		return e.m.HandlePrecommitProofs(e.ctx, tmconsensus.PrecommitSparseProof{Height: 1, Round: 0, PubKeyHash: pkh,
			Proofs: map[string][]gcrypto.SparseSignature{"A": sigs}})
	}
	valid := func(i int, tag byte) gcrypto.SparseSignature {
		sig := vkit.Sig(byte(i), tag)
		verifrt.Assume(keys[i].Verify(content, sig))
		return gcrypto.SparseSignature{KeyID: vkit.KeyID(i), Sig: sig}
	}
	r1 := send([]gcrypto.SparseSignature{valid(0, 1)})
	verifrt.Assert(r1 == tmconsensus.HandleVoteProofsAccepted, "M1:setup-first-vote-accepted")
	vhC06SummaryMatches(e, "after-first-vote")

	// validator 2's signature: the solver decides whether it verifies
	maybe := gcrypto.SparseSignature{KeyID: vkit.KeyID(2), Sig: vkit.Sig(2, 9)}
	mixed := []gcrypto.SparseSignature{valid(1, 2), maybe}
	if verifrt.Choose("doubtful-signature-first", 2) == 1 {
		mixed = []gcrypto.SparseSignature{maybe, valid(1, 2)}
	}
	r2 := send(mixed)
	verifrt.Observe("mixed-result", uint64(r2))
	vhC06SummaryMatches(e, "after-mixed-message")
	verifrt.Reach("M1:mixed-message-handled")

	r3 := send([]gcrypto.SparseSignature{valid(1, 2)})
	verifrt.Observe("retransmission-result", uint64(r3))
	vhC06SummaryMatches(e, "after-retransmission")
	verifrt.Reach("M1:retransmission-handled")
}
