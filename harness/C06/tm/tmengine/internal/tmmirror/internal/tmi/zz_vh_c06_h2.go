package tmi

import (
	"github.com/gordian-engine/gordian/internal/verifrt"
	"github.com/gordian-engine/gordian/internal/verifrt/vkit"
)

// VH_C06_H2_MinorityCannotMoveTheNode: validators holding less than one third of the power
// (1 or 2 of 4, any powers) sign EVERY target (nil, A, B) - maximal equivocation - as prevotes
// for the next round, precommits for the next round, or precommits for the voting round; nobody
// else votes. Through the real kernel entries the node must neither skip the round, nor regard
// the round as fully voted, nor commit.
func VH_C06_H2_MinorityCannotMoveTheNode() {
	verifrt.Summarize("ByzantineThresholds")
	n := 4
	pows := vkit.Powers("power", n)
	e := vhNewEnv(n, pows, 1)
	total := e.totalPower()
	byz := []int{1, 3}[verifrt.Choose("byzantine-validators", 2)]
	verifrt.Assume(lessThanOneThird(e.signerPower(byz), total))
	e.k.addProposedHeader(e.ctx, e.s, e.linkedProposed("A", 1, 0, 0))

	which := verifrt.Choose("votes", 3)
	hashes := []string{"", "A", "B"}
	upd := map[string]VoteUpdate{}
	resp := make(chan AddVoteResult, 1)
	switch which {
	case 0: // prevotes for the next round
		for _, h := range hashes {
			upd[h] = VoteUpdate{Proof: e.voteProof(false, 1, 1, h, byz)}
		}
		e.k.addPrevote(e.ctx, e.s, AddPrevoteRequest{H: 1, R: 1, PrevoteUpdates: upd, Response: resp})
	case 1: // precommits for the next round
		for _, h := range hashes {
			upd[h] = VoteUpdate{Proof: e.voteProof(true, 1, 1, h, byz)}
		}
		e.k.addPrecommit(e.ctx, e.s, AddPrecommitRequest{H: 1, R: 1, PrecommitUpdates: upd, Response: resp})
	default: // precommits for the voting round
		for _, h := range hashes {
			upd[h] = VoteUpdate{Proof: e.voteProof(true, 1, 0, h, byz)}
		}
		e.k.addPrecommit(e.ctx, e.s, AddPrecommitRequest{H: 1, R: 0, PrecommitUpdates: upd, Response: resp})
	}
	verifrt.Reach("votes-delivered")
	verifrt.Assert(len(resp) == 1 && <-resp == AddVoteAccepted, "H2:votes-were-admitted")
	verifrt.Assert(e.s.Voting.Height == 1 && e.s.Voting.Round == 0, "H2:minority-cannot-make-the-node-leave-its-round")
	verifrt.Assert(e.s.Committing.Height == 0, "H2:minority-cannot-commit")
	vs := e.s.Voting.VoteSummary
	nr := e.s.NextRound.VoteSummary
	verifrt.Assert(vs.TotalPrecommitPower < vs.AvailablePower && vs.TotalPrevotePower < vs.AvailablePower, "H2:round-not-regarded-as-fully-voted")
	// present power never exceeds the coalition's power
	bp := e.signerPower(byz)
	verifrt.Assert(vs.TotalPrecommitPower <= bp && vs.TotalPrevotePower <= bp && nr.TotalPrecommitPower <= bp && nr.TotalPrevotePower <= bp,
		"H2:present-power-is-at-most-the-coalitions-power")
}
