package tmi

import "github.com/gordian-engine/gordian/internal/verifrt"

// VH_C06_H3_KernelSummaryMatchesViews: after any kernel entry (the C04 step alphabet incl. a
// partially applicable vote request, from the four start states) the vote summary reported in
// every view equals the recomputation from the signatures admitted into that view.
func VH_C06_H3_KernelSummaryMatchesViews() {
	start := verifrt.Choose("start", 4)
	e, _ := vhStart(start)
	if !e.vhStep(0) {
		return
	}
	verifrt.Reach("entry-done")
	e.summaryMatchesProofs("H3:voting", &e.s.Voting)
	e.summaryMatchesProofs("H3:next-round", &e.s.NextRound)
	if e.s.Committing.Height > 0 {
		e.summaryMatchesProofs("H3:committing", &e.s.Committing)
	}
}
