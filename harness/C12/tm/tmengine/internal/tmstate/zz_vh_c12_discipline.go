package tmstate

// C12, first half: timer discipline of the state machine. Recording RoundTimer: after
// the real start-up and after every event, exactly one un-cancelled timer is outstanding
// iff the step is AwaitingProposal / PrevoteDelay / PrecommitDelay / CommitWait (and it is
// the one the lifecycle holds, of the step's kind, for the current round), none otherwise;
// every timer started while another was outstanding found that one cancelled first.

import (
	"github.com/gordian-engine/gordian/internal/verifrt"
)

// VH_C12_DisciplineSeq: height 1 round 0 entered with no votes yet (0/1 header), then
// 2 events of any kind + 1 (quick) / 2 (thorough) events without new vote numbers.
func VH_C12_DisciplineSeq() {
	vhOpts()
	e := vhNewSM(true)
	e.symEntrances = 0
	if !e.start() {
		return
	}
	e.check(chkC12)
	e.runSeq(chkC12)
	if e.seen&vhSeenNextHeight != 0 {
		verifrt.Reach("C12-seq:entered-next-height")
	}
	if e.seen&vhSeenPrevoteDelay != 0 {
		verifrt.Reach("C12-seq:prevote-delay")
	}
	if e.seen&vhSeenPrecommitDelay != 0 {
		verifrt.Reach("C12-seq:precommit-delay")
	}
	if e.seen&vhSeenAwaitingFinalization != 0 {
		verifrt.Reach("C12-seq:awaiting-finalization")
	}
	e.finish()
}

// VH_C12_DisciplineStartAny: start-up answered with an arbitrary view (every step the
// start-up path can begin in) or a committed header, then 1 event of any kind (thorough:
// also the general view update) + 1 (quick) / 2 (thorough) events without new vote numbers.
func VH_C12_DisciplineStartAny() {
	vhOpts()
	e := vhNewSM(true)
	e.allowCatchup = true
	if !e.start() {
		return
	}
	e.check(chkC12)
	e.runStartAny(chkC12)
	if e.seen&vhSeenReplaying != 0 {
		verifrt.Reach("C12-start:replaying")
	}
	if e.seen&vhSeenNextRound != 0 {
		verifrt.Reach("C12-start:entered-next-round")
	}
	e.finish()
}
