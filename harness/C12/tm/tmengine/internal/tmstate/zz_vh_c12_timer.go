package tmstate

import (
	"context"
	"runtime"
	"time"

	"github.com/gordian-engine/gordian/internal/verifrt"
)

// C12, second half: the production round timer (StandardRoundTimer, roundtimer.go)
// with its real background goroutine. The caller (this thread) performs a short
// sequence of operations {start a timer, cancel, cancel twice, poll the elapsed
// channel, wait on the elapsed channel, start again}; the engine explores every
// interleaving of the caller and the timer goroutine at channel operations
// (scheduler picks and multi-ready selects are choice points, bounded preemptions)
// and "the time.Timer fires now" is an alternative wherever its channel is
// receivable (Go >= 1.23 Stop/Reset contract: nothing stale after Stop/Reset).
//
// Obligations
//   - no panic / no deadlock in any goroutine (engine, automatic)
//   - P:cancelled-timer-never-elapses   an elapsed channel seen open after cancel()
//     returned is never seen closed later
//     (literal reading; switch: vhC12StrictCancel)
//   - P:elapse-only-when-timer-fired    no more elapsed channels are closed than the
//     time.Timer has fired: neither cancel nor anything else fakes an elapse
//   - P:elapsed-channel-only-closes     elapse is reported by close, never by a value;
//     closing twice would be a panic (automatic)
//   - P:fresh-elapsed-channel-per-timer a new timer never reuses an earlier channel
//   - P:start-returns-timer             with a live context every start yields a timer
//   - P:cancel-is-idempotent            calling cancel again does not panic
//   - a timer that is not cancelled eventually elapses, in particular one started
//     right after a cancel (otherwise: deadlock at the final wait)
//
// Bounds: 3 (quick) / 4 (thorough) caller operations, preemption budget 2 / 3.
//
// On the unchanged tree two things are found (both confirmed natively):
//   - panic "BUG: new timer requested before previous timer elapsed or was cancelled":
//     cancel() only closes a channel, so after [cancel, start] the goroutine's running
//     select has the cancel case and the start-request case ready together and may
//     take the request first. The panic ends only the schedules that take it; all
//     other obligations are still checked on the schedules that serve the cancel first.
//   - P:cancelled-timer-never-elapses: in the same select the timer case may win
//     over an already closed cancel channel and close the elapsed channel after
//     cancel() returned. It is recorded and asserted at the very end of the run so
//     that it does not mask the other obligations.
//
// Natively the goroutine schedule cannot be replayed, so outside the engine the
// same operation sequence runs in a stress loop (fresh StandardRoundTimer per
// iteration, rotating real durations, yields sprinkled): a panic of the timer
// goroutine kills the test binary with a "panic:" line, failed checks print the
// same label as the symbolic run.

// vhC12ScheduleDependent marks the path as schedule dependent (engine intrinsic, see
// gsx/intrinsics_c12t.go); a no-op natively.
func vhC12ScheduleDependent() {}

// vhC12TimerFires: how many times a time.Timer channel has delivered so far on this
// path (engine intrinsic); unknown natively.
func vhC12TimerFires() int { return -1 }

// vhC12StrictCancel selects the literal reading of "a cancelled timer never reports
// elapsed" (P:cancelled-timer-never-elapses). The weaker reading that is always
// checked is P:elapse-only-when-timer-fired: every elapse report stems from an expiry
// of the underlying time.Timer (so cancel itself, or a later timer, never closes it).
const vhC12StrictCancel = true

type vhC12Strat struct{ d time.Duration }

func (s *vhC12Strat) ProposalTimeout(uint64, uint32) time.Duration       { return s.d }
func (s *vhC12Strat) PrevoteDelayTimeout(uint64, uint32) time.Duration   { return s.d }
func (s *vhC12Strat) PrecommitDelayTimeout(uint64, uint32) time.Duration { return s.d }
func (s *vhC12Strat) CommitWaitTimeout(uint64, uint32) time.Duration     { return s.d }

const (
	vhC12Start   = iota // request a timer (previous one cancelled or seen elapsed)
	vhC12Cancel         // call the cancel function
	vhC12Cancel2        // call the cancel function twice
	vhC12Poll           // non-blocking read of the elapsed channel
	vhC12Wait           // blocking read of the elapsed channel (timer not cancelled)
)

type vhC12T struct {
	elapsed         <-chan struct{}
	cancel          func()
	cancelled       bool // cancel() has returned
	waited          bool // a blocking read returned
	openAfterCancel bool // seen open by a poll that started after cancel() returned
	seen            bool // seen closed
	afterCancel     bool // requested right after cancelling the previous timer
	dur             time.Duration
}

type vhC12Run struct {
	sym    bool
	iter   int
	calm   bool // native: let the timer goroutine see a cancel before the next start
	failed bool

	ctx    context.Context
	rt     *StandardRoundTimer
	strat  *vhC12Strat
	symDur time.Duration
	h      uint64
	rd     uint32
	method int

	all    []*vhC12T
	cur    *vhC12T
	closed int // elapsed channels seen closed so far

	// what the finished run showed (for the Reach labels of the harnesses)
	liveElapsed    bool // the last timer, not cancelled, elapsed
	restartElapsed bool // ... and it had been requested right after a cancel
	silent         bool // a cancelled timer's channel was still open after shutdown
	lateElapse     bool // a channel seen open after cancel() returned was closed later
}

func vhC12Preempt() int {
	if verifrt.Thorough() {
		return 3
	}
	return 2
}

// check states an obligation; a failed one ends the run (under the engine: the path).
func (r *vhC12Run) check(c bool, label string) bool {
	verifrt.Assert(c, label)
	if !c {
		r.failed = true
	}
	return c
}

// sawClosed: t's channel was just found closed.
func (r *vhC12Run) sawClosed(t *vhC12T) {
	if t.seen {
		return
	}
	t.seen = true
	r.closed++
	if r.sym {
		r.check(r.closed <= vhC12TimerFires(), "P:elapse-only-when-timer-fired")
	} else {
		r.check(t.dur != time.Hour, "P:elapse-only-when-timer-fired")
	}
}

// poll reports whether ch is closed (or readable) right now.
func (r *vhC12Run) poll(t *vhC12T) bool {
	select {
	case _, ok := <-t.elapsed:
		r.check(!ok, "P:elapsed-channel-only-closes")
		if t.openAfterCancel {
			// reported at the end of the run, so that the remaining obligations are
			// still checked on this schedule
			r.lateElapse = true
		}
		r.sawClosed(t)
		return true
	default:
		return false
	}
}

// checkCancelled re-polls every timer known to have been open after its cancel.
func (r *vhC12Run) checkCancelled() {
	for _, t := range r.all {
		if t.openAfterCancel && !r.failed {
			r.poll(t)
		}
	}
}

// willWait: the timer started by ops[k] is read blockingly later (so natively it
// needs a short duration).
func vhC12WillWait(ops []int, k int) bool {
	cancelled := false
	for j := k + 1; j < len(ops); j++ {
		switch ops[j] {
		case vhC12Start:
			return false
		case vhC12Wait:
			return true
		case vhC12Cancel, vhC12Cancel2:
			cancelled = true
		}
	}
	return !cancelled
}

func (r *vhC12Run) duration(ops []int, k int) time.Duration {
	if r.sym {
		return r.symDur
	}
	if vhC12WillWait(ops, k) {
		return time.Duration(r.iter%8) * time.Microsecond
	}
	if r.calm {
		return time.Duration(r.iter%2) * time.Microsecond
	}
	switch r.iter % 3 {
	case 0:
		return time.Hour
	case 1:
		return 0
	}
	return time.Duration(r.iter%40) * 500 * time.Nanosecond
}

func (r *vhC12Run) jitter(ops []int, k int) {
	if r.sym {
		return
	}
	if r.calm && ops[k] == vhC12Start && r.cur != nil && r.cur.cancelled && !r.cur.waited {
		time.Sleep(300 * time.Microsecond)
	}
	for j := 0; j < (r.iter>>(2*uint(k)))%4; j++ {
		runtime.Gosched()
	}
}

func (r *vhC12Run) do(ops []int, k int) {
	t := r.cur
	switch ops[k] {
	case vhC12Start:
		r.strat.d = r.duration(ops, k)
		var el <-chan struct{}
		var cancel func()
		switch r.method % 4 {
		case 0:
			el, cancel = r.rt.ProposalTimer(r.ctx, r.h, r.rd)
		case 1:
			el, cancel = r.rt.PrevoteDelayTimer(r.ctx, r.h, r.rd)
		case 2:
			el, cancel = r.rt.PrecommitDelayTimer(r.ctx, r.h, r.rd)
		default:
			el, cancel = r.rt.CommitWaitTimer(r.ctx, r.h, r.rd)
		}
		r.method++
		if !r.check(el != nil && cancel != nil, "P:start-returns-timer") {
			return
		}
		for _, p := range r.all {
			if !r.check(p.elapsed != el, "P:fresh-elapsed-channel-per-timer") {
				return
			}
		}
		nt := &vhC12T{elapsed: el, cancel: cancel, dur: r.strat.d}
		nt.afterCancel = t != nil && t.cancelled && !t.waited
		r.all = append(r.all, nt)
		r.cur = nt

	case vhC12Cancel, vhC12Cancel2:
		t.cancel()
		if ops[k] == vhC12Cancel2 || t.cancelled {
			if !r.check(!verifrt.Panics(t.cancel), "P:cancel-is-idempotent") {
				return
			}
		}
		t.cancelled = true
		// this poll starts after cancel() returned: open now => must stay open
		if !t.seen && !r.poll(t) {
			t.openAfterCancel = true
		}

	case vhC12Poll:
		r.poll(t)

	case vhC12Wait:
		_, ok := <-t.elapsed
		if !r.check(!ok, "P:elapsed-channel-only-closes") {
			return
		}
		t.waited = true
		r.sawClosed(t)
	}
}

// valid: the caller-side protocol (a new timer only after the previous one was
// cancelled or seen elapsed; never block on a cancelled timer).
func vhC12Valid(op int, t *vhC12T) bool {
	switch op {
	case vhC12Start:
		return t.cancelled || t.waited
	case vhC12Cancel2:
		return !t.cancelled
	case vhC12Wait:
		return !t.cancelled || t.waited
	}
	return true
}

func (r *vhC12Run) run(ops []int) {
	ctx, stop := context.WithCancel(context.Background())
	defer stop()
	r.ctx = ctx
	r.strat = &vhC12Strat{}
	verifrt.SchedNondet(true, vhC12Preempt())
	r.rt = NewStandardRoundTimer(ctx, r.strat)
	for k := range ops {
		r.jitter(ops, k)
		r.do(ops, k)
		if r.failed {
			return
		}
		r.checkCancelled()
		if r.failed {
			return
		}
	}
	// a timer that was not cancelled elapses (else: deadlock)
	if t := r.cur; !t.cancelled {
		_, ok := <-t.elapsed
		if !r.check(!ok, "P:elapsed-channel-only-closes") {
			return
		}
		r.sawClosed(t)
		if r.failed {
			return
		}
		r.liveElapsed = true
		r.restartElapsed = t.afterCancel
	}
	r.checkCancelled()
	if r.failed {
		return
	}
	// quiesce: stop the timer goroutine, then look once more
	stop()
	r.rt.Wait()
	verifrt.SchedNondet(false, 0)
	for _, t := range r.all {
		wasOpen := t.openAfterCancel
		closed := r.poll(t)
		if r.failed {
			return
		}
		if wasOpen && !closed {
			r.silent = true
		}
	}
	if r.sym {
		verifrt.Reach("timer-goroutine-stopped")
	}
	if r.sym && vhC12StrictCancel {
		r.check(!r.lateElapse, "P:cancelled-timer-never-elapses")
	} // natively vhC12Execute reports it (once)
}

// vhC12Execute returns the finished run under the engine, nil natively.
func vhC12Execute(ops []int, firstMethod int) *vhC12Run {
	vhC12ScheduleDependent()
	if verifrt.Symbolic() {
		r := &vhC12Run{sym: true, method: firstMethod}
		r.symDur = time.Duration(verifrt.I64("dur"))
		r.h = verifrt.U64("height")
		r.rd = verifrt.U32("round")
		r.run(ops)
		return r
	}
	// Native stress. Sequences with a start right after a cancel can kill the process
	// (panic of the timer goroutine): their first 1000 iterations pause before such a
	// start, so that the other checks get a chance to report first, and the loop goes
	// on after a late elapse was reported.
	prone := false
	for k := 2; k < len(ops); k++ {
		if ops[k] == vhC12Start && (ops[k-1] == vhC12Cancel || ops[k-1] == vhC12Cancel2) {
			prone = true
		}
	}
	lateReported := false
	deadline := time.Now().Add(30 * time.Second)
	for i := 0; i < 200000; i++ {
		r := &vhC12Run{iter: i, method: firstMethod, h: 1, rd: uint32(i), calm: prone && i < 1000}
		r.run(ops)
		if r.lateElapse && !lateReported && vhC12StrictCancel {
			lateReported = true
			verifrt.Fail("P:cancelled-timer-never-elapses")
		}
		if r.failed || (lateReported && !prone) {
			return nil
		}
		if i%256 == 255 && time.Now().After(deadline) {
			return nil
		}
	}
	return nil
}

// vhC12ChooseOps enumerates the valid operation sequences of length n that begin
// with a start.
func vhC12ChooseOps(n int) []int {
	ops := []int{vhC12Start}
	st := &vhC12T{} // static view of the current timer
	for len(ops) < n {
		var valid []int
		for op := vhC12Start; op <= vhC12Wait; op++ {
			if vhC12Valid(op, st) {
				valid = append(valid, op)
			}
		}
		op := valid[verifrt.Choose("op", len(valid))]
		switch op {
		case vhC12Start:
			st = &vhC12T{}
		case vhC12Cancel, vhC12Cancel2:
			st.cancelled = true
		case vhC12Wait:
			st.waited = true
		}
		ops = append(ops, op)
	}
	return ops
}

// VH_C12_Timer_Ops: every valid sequence of 3 (quick) / 4 (thorough) caller operations.
func VH_C12_Timer_Ops() {
	n := 3
	if verifrt.Thorough() {
		n = 4
	}
	ops := vhC12ChooseOps(n)
	r := vhC12Execute(ops, verifrt.Choose("method", 4))
	if r == nil {
		return
	}
	if r.liveElapsed {
		verifrt.Reach("live-timer-elapses")
	}
	if r.restartElapsed {
		verifrt.Reach("timer-started-after-cancel-elapses")
	}
	if r.silent {
		verifrt.Reach("cancelled-timer-stayed-silent")
	}
}

// VH_C12_Timer_CancelThenStart: start, cancel (once or twice), start again at once,
// then wait for the second timer.
func VH_C12_Timer_CancelThenStart() {
	c := vhC12Cancel
	if verifrt.Choose("twice", 2) == 1 {
		c = vhC12Cancel2
	}
	r := vhC12Execute([]int{vhC12Start, c, vhC12Start}, 0)
	if r != nil && r.restartElapsed {
		verifrt.Reach("timer-started-after-cancel-elapses")
	}
	if r != nil && r.silent {
		verifrt.Reach("cancelled-timer-stayed-silent")
	}
}

// VH_C12_Timer_ElapseThenStart: start, see the timer elapse, read again (poll or
// blocking), start the next timer, wait for it: no cancel involved.
func VH_C12_Timer_ElapseThenStart() {
	again := vhC12Poll
	if verifrt.Choose("again", 2) == 1 {
		again = vhC12Wait
	}
	r := vhC12Execute([]int{vhC12Start, vhC12Wait, again, vhC12Start}, 1)
	if r != nil && r.liveElapsed && !r.restartElapsed {
		verifrt.Reach("timer-started-after-elapse-elapses")
	}
}

// VH_C12_Timer_CancelOnly: start, cancel (once or twice, possibly after a poll), then
// only observe: the cancelled timer's channel must stay open through the shutdown
// of the timer goroutine.
func VH_C12_Timer_CancelOnly() {
	c := vhC12Cancel
	if verifrt.Choose("twice", 2) == 1 {
		c = vhC12Cancel2
	}
	var r *vhC12Run
	if verifrt.Choose("pollfirst", 2) == 1 {
		r = vhC12Execute([]int{vhC12Start, vhC12Poll, c, vhC12Poll}, 2)
	} else {
		r = vhC12Execute([]int{vhC12Start, c, vhC12Poll}, 3)
	}
	if r != nil && r.silent {
		verifrt.Reach("cancelled-timer-stayed-silent")
	}
}
