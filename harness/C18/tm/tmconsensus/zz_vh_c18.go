package tmconsensus

import (
	"math/bits"

	"github.com/gordian-engine/gordian/internal/verifrt"
)

// C18: Byzantine thresholds are exact for every total power n in [1, 2^64-1].
// n is one full-width 64-bit symbol; products are 128-bit (bits.Mul64).

// VH_C18_Majority: m = ByzantineMajority(n) is the least m with 3m > 2n.
func VH_C18_Majority() {
	n := verifrt.U64("n")
	verifrt.Assume(n != 0)
	m := ByzantineMajority(n)
	verifrt.Reach("maj-returned")
	verifrt.Observe("maj", n, m)

	h3m, l3m := bits.Mul64(3, m)
	h2n, l2n := bits.Mul64(2, n)
	verifrt.Assert(verifrt.Gt128(h3m, l3m, h2n, l2n), "maj:3m>2n")
	verifrt.Assert(m >= 1, "maj:m>=1")
	verifrt.Assert(m <= n, "maj:m<=n")
	// minimality: 3(m-1) <= 2n
	h3p, l3p := bits.Mul64(3, m-1)
	verifrt.Assert(verifrt.Ge128(h2n, l2n, h3p, l3p), "maj:3(m-1)<=2n")
}

// VH_C18_Minority: k = ByzantineMinority(n) is the least k with 3k >= n.
func VH_C18_Minority() {
	n := verifrt.U64("n")
	verifrt.Assume(n != 0)
	k := ByzantineMinority(n)
	verifrt.Reach("min-returned")
	verifrt.Observe("min", n, k)

	h3k, l3k := bits.Mul64(3, k)
	verifrt.Assert(verifrt.Ge128(h3k, l3k, 0, n), "min:3k>=n")
	verifrt.Assert(k >= 1, "min:k>=1")
	verifrt.Assert(k <= n, "min:k<=n")
	h3p, l3p := bits.Mul64(3, k-1)
	verifrt.Assert(verifrt.Gt128(0, n, h3p, l3p), "min:3(k-1)<n")
}

// VH_C18_ZeroPanics: n = 0 panics in both, and nothing else does.
func VH_C18_ZeroPanics() {
	n := verifrt.U64("n")
	pMaj := verifrt.Panics(func() { ByzantineMajority(n) })
	pMin := verifrt.Panics(func() { ByzantineMinority(n) })
	if n == 0 {
		verifrt.Reach("zero")
	} else {
		verifrt.Reach("positive")
	}
	verifrt.Assert(pMaj == (n == 0), "maj:panics-iff-zero")
	verifrt.Assert(pMin == (n == 0), "min:panics-iff-zero")
}

// VH_C18_Overlap: two sets that each reach the majority overlap in at least the minority.
func VH_C18_Overlap() {
	n := verifrt.U64("n")
	a := verifrt.U64("a")
	b := verifrt.U64("b")
	verifrt.Assume(n != 0)
	verifrt.Assume(a <= n)
	verifrt.Assume(b <= n)
	maj := ByzantineMajority(n)
	min := ByzantineMinority(n)
	verifrt.Assume(a >= maj)
	verifrt.Assume(b >= maj)
	verifrt.Reach("overlap")
	// |A ∩ B| >= a + b - n, computed in 65 bits
	sum, carry := bits.Add64(a, b, 0)
	diff, borrow := bits.Sub64(sum, n, 0)
	// a+b >= n always holds here (a,b >= maj > n/2): carry-borrow must be 0
	verifrt.Assert(carry == borrow, "overlap:a+b-n-fits")
	verifrt.Assert(diff >= min, "overlap>=min")
}

// VH_C18_BelowMinority: a set below the minority can neither form nor block a majority.
func VH_C18_BelowMinority() {
	n := verifrt.U64("n")
	x := verifrt.U64("x")
	verifrt.Assume(n != 0)
	verifrt.Assume(x <= n)
	maj := ByzantineMajority(n)
	min := ByzantineMinority(n)
	verifrt.Assume(x < min)
	verifrt.Reach("below-min")
	verifrt.Assert(n-x >= maj, "belowmin:rest-is-majority")
	verifrt.Assert(x < maj, "belowmin:not-majority")
}
