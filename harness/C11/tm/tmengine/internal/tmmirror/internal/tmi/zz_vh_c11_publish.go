package tmi

import (
	"github.com/gordian-engine/gordian/gcrypto"
	"github.com/gordian-engine/gordian/internal/verifrt"
	"github.com/gordian-engine/gordian/tm/tmconsensus"
)

func vhBits(p gcrypto.CommonMessageSignatureProof, n int) uint64 {
	var w uint64
	for i := 0; i < n; i++ {
		if has, _ := p.HasSparseKeyID([]byte{0, byte(i)}); has {
			w |= 1 << uint(i)
		}
	}
	return w
}

func vhSameVotes(n int, a, b map[string]gcrypto.CommonMessageSignatureProof) bool {
	if len(a) != len(b) {
		return false
	}
	for h, p := range a {
		q, ok := b[h]
		if !ok || vhBits(p, n) != vhBits(q, n) {
			return false
		}
	}
	return true
}

// published: what the kernel offers to the gossip strategy for a view is the view itself
// (same position, version, proposals and signer sets).
func (e *vhEnv) published(tag string, cur *tmconsensus.VersionedRoundView, out *tmconsensus.VersionedRoundView) {
	ok := out.Height == cur.Height && out.Round == cur.Round && out.Version == cur.Version &&
		len(out.ProposedHeaders) == len(cur.ProposedHeaders) &&
		vhSameVotes(e.n, out.PrevoteProofs, cur.PrevoteProofs) && vhSameVotes(e.n, out.PrecommitProofs, cur.PrecommitProofs)
	verifrt.Assert(ok, "C11:"+tag+"-view-offered-to-gossip-is-the-current-view")
}

// VH_C11_KernelPublishesEveryChange: after any kernel entry (same step alphabet and start
// states as C04, plus a vote request that mixes a fresh and a stale block version, as two
// concurrent mirror callers produce) every change of a view has bumped its version, and the
// view offered to the gossip strategy and - when the state machine is in that round - to the
// state machine is the current one.
func VH_C11_KernelPublishesEveryChange() {
	start := verifrt.Choose("start", 4)
	e, _ := vhStart(start)
	// the state machine is in the voting round
	e.s.StateMachineViewManager.roundEntrance.H = e.s.Voting.Height
	e.s.StateMachineViewManager.roundEntrance.R = e.s.Voting.Round
	e.s.StateMachineViewManager.SetView(e.s.Voting)
	vBefore := e.s.Voting.Clone()

	if verifrt.Choose("kind", 2) == 0 {
		if !e.vhStep(0) {
			return
		}
	} else {
		// caller Y: nil prevote of validator 1; caller X looked the view up before Y was applied:
		// prevote of validator 0 for A plus the same nil prevote, both with the old versions
		h, r := e.s.Voting.Height, e.s.Voting.Round
		precommit := verifrt.Choose("vote-kind", 2) == 1
		y := e.voteProof(precommit, h, r, "", 2)
		xa := e.voteProof(precommit, h, r, "A", 1)
		xn := e.voteProof(precommit, h, r, "", 2)
		if precommit {
			e.k.addPrecommit(e.ctx, e.s, AddPrecommitRequest{H: h, R: r, PrecommitUpdates: map[string]VoteUpdate{"": {Proof: y}}, Response: make(chan AddVoteResult, 1)})
			vBefore = e.s.Voting.Clone()
			e.k.addPrecommit(e.ctx, e.s, AddPrecommitRequest{H: h, R: r, PrecommitUpdates: map[string]VoteUpdate{"A": {Proof: xa}, "": {Proof: xn}}, Response: make(chan AddVoteResult, 1)})
		} else {
			e.k.addPrevote(e.ctx, e.s, AddPrevoteRequest{H: h, R: r, PrevoteUpdates: map[string]VoteUpdate{"": {Proof: y}}, Response: make(chan AddVoteResult, 1)})
			vBefore = e.s.Voting.Clone()
			e.k.addPrevote(e.ctx, e.s, AddPrevoteRequest{H: h, R: r, PrevoteUpdates: map[string]VoteUpdate{"A": {Proof: xa}, "": {Proof: xn}}, Response: make(chan AddVoteResult, 1)})
		}
		verifrt.Reach("partially-applied-request")
	}
	verifrt.Reach("entry-done")
	gm := &e.s.GossipViewManager
	e.published("voting", &e.s.Voting, &gm.Voting.VRV)
	e.published("next-round", &e.s.NextRound, &gm.NextRound.VRV)
	if e.s.Committing.Height > 0 {
		e.published("committing", &e.s.Committing, &gm.Committing.VRV)
	}
	// same round as before: any change of its content bumped the version
	if e.s.Voting.Height == vBefore.Height && e.s.Voting.Round == vBefore.Round {
		changed := len(e.s.Voting.ProposedHeaders) != len(vBefore.ProposedHeaders) ||
			!vhSameVotes(e.n, e.s.Voting.PrevoteProofs, vBefore.PrevoteProofs) || !vhSameVotes(e.n, e.s.Voting.PrecommitProofs, vBefore.PrecommitProofs)
		if changed {
			verifrt.Reach("voting-view-changed")
			verifrt.Assert(e.s.Voting.Version > vBefore.Version, "C11:changed-view-has-a-newer-version")
		}
		// the state machine is in this round: its pending view is the current one
		sm := &e.s.StateMachineViewManager
		verifrt.Assert(sm.outgoingView.Version == e.s.Voting.Version && vhSameVotes(e.n, sm.outgoingView.PrevoteProofs, e.s.Voting.PrevoteProofs) &&
			vhSameVotes(e.n, sm.outgoingView.PrecommitProofs, e.s.Voting.PrecommitProofs), "C11:view-pending-for-the-state-machine-is-the-current-view")
	}
}
