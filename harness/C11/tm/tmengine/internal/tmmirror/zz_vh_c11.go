package tmmirror

import (
	"github.com/gordian-engine/gordian/gcrypto"
	"github.com/gordian-engine/gordian/internal/verifrt"
	"github.com/gordian-engine/gordian/internal/verifrt/vkit"
	"github.com/gordian-engine/gordian/tm/tmconsensus"
	"github.com/gordian-engine/gordian/tm/tmengine/internal/tmeil"
)

// ---- consumers (the harness plays the state machine and the gossip strategy)

type vhSeen struct {
	version uint32
	prevote map[string]uint64
	precom  map[string]uint64
	nPH     int
}

type vhConsumer struct {
	e    *vhM
	name string
	last map[[2]uint64]vhSeen // (h,r) -> last received
}

func grew(old, cur map[string]uint64) bool {
	for k, w := range old {
		if cur[k]&w != w {
			return false
		}
	}
	return true
}

// see checks one received view against what this consumer got before for the same round.
func (c *vhConsumer) see(v *tmconsensus.VersionedRoundView, fresh bool) {
	d := c.e.digest(v)
	key := [2]uint64{v.Height, uint64(v.Round)}
	cur := vhSeen{version: d.version, prevote: d.prevote, precom: d.precom, nPH: d.nPH}
	if old, ok := c.last[key]; ok {
		if fresh {
			verifrt.Assert(cur.version > old.version, "C11:"+c.name+":version-strictly-increases-per-round")
		} else {
			verifrt.Assert(cur.version >= old.version, "C11:"+c.name+":version-never-decreases-per-round")
		}
		verifrt.Assert(grew(old.prevote, cur.prevote) && grew(old.precom, cur.precom) && cur.nPH >= old.nPH, "C11:"+c.name+":votes-and-proposals-only-grow")
	}
	c.last[key] = cur
}

func (c *vhConsumer) sawPrecommits(h uint64, r uint32, hash string, signers uint64) bool {
	s, ok := c.last[[2]uint64{h, uint64(r)}]
	return ok && s.precom[hash]&signers == signers
}

type vhC11 struct {
	e      *vhM
	gossip *vhConsumer
	sm     *vhConsumer
	smH    uint64
	smR    uint32
	nilSeenByGossip map[[2]uint64]bool
	jumped bool
}

func (x *vhC11) drainGossip() {
	for i := 0; i < 8; i++ {
		u, ok := x.e.tryRecvGossip()
		if !ok {
			return
		}
		if u.Committing != nil {
			x.gossip.see(u.Committing, true)
		}
		if u.Voting != nil {
			x.gossip.see(u.Voting, true)
		}
		if u.NextRound != nil {
			x.gossip.see(u.NextRound, true)
		}
		if u.NilVotedRound != nil {
			v := u.NilVotedRound
			x.gossip.see(v, false)
			x.nilSeenByGossip[[2]uint64{v.Height, uint64(v.Round)}] = true
		}
	}
	verifrt.Fail("C11:gossip:output-never-quiesces")
}

func (x *vhC11) enterRound(h uint64, r uint32) {
	re := tmeil.StateMachineRoundEntrance{H: h, R: r, Actions: make(chan tmeil.StateMachineRoundAction, 3),
		HeightCommitted: make(chan struct{}), Response: make(chan tmeil.RoundEntranceResponse, 1)}
	x.e.smIn <- re
	resp := <-re.Response
	x.smH, x.smR = h, r
	if resp.IsVRV() {
		verifrt.Assert(resp.VRV.Height == h && resp.VRV.Round == r, "C11:sm:entrance-view-is-for-the-entered-round")
		x.sm.see(&resp.VRV, false)
	}
}

func (x *vhC11) drainSM() {
	for i := 0; i < 8; i++ {
		u, ok := x.e.tryRecvSM()
		if !ok {
			return
		}
		if u.VRV.Height > 0 {
			verifrt.Assert(u.VRV.Height == x.smH && u.VRV.Round == x.smR, "C11:sm:view-is-for-the-round-it-is-in")
			x.sm.see(&u.VRV, true)
		}
		if u.JumpAheadRoundView != nil {
			x.jumped = true
			j := u.JumpAheadRoundView
			verifrt.Assert(j.Height == x.smH && j.Round > x.smR, "C11:sm:jump-ahead-is-forward-in-the-same-height")
		}
	}
	verifrt.Fail("C11:sm:output-never-quiesces")
}

func (x *vhC11) vote(precommit bool, h uint64, r uint32, hash string, signers int, tag byte) {
	keys := x.e.keys
	if precommit {
		sigs := vhValidSigs(keys, vkit.PrecommitContent(h, r, hash), signers, tag)
		x.e.m.HandlePrecommitProofs(x.e.ctx, tmconsensus.PrecommitSparseProof{Height: h, Round: r, PubKeyHash: string(x.e.vs.PubKeyHash),
			Proofs: map[string][]gcrypto.SparseSignature{hash: sigs}})
	} else {
		sigs := vhValidSigs(keys, vkit.PrevoteContent(h, r, hash), signers, tag)
		x.e.m.HandlePrevoteProofs(x.e.ctx, tmconsensus.PrevoteSparseProof{Height: h, Round: r, PubKeyHash: string(x.e.vs.PubKeyHash),
			Proofs: map[string][]gcrypto.SparseSignature{hash: sigs}})
	}
}

// maybeRead lets each consumer either read now or stay stalled (a choice per consumer).
func (x *vhC11) maybeRead() {
	c := verifrt.Choose("readers", 4)
	if c&1 != 0 {
		x.drainSM()
	}
	if c&2 != 0 {
		x.drainGossip()
	}
}

// VH_C11_Consumers: a real mirror whose view outputs are unbuffered (as tmengine wires them);
// the harness is the state machine and the gossip strategy. A scripted message history
// (growing prevotes; one nil-precommit round; two consecutive nil-precommit rounds; a
// minority-prevote jump; the state machine entering the next round behind or ahead of the
// mirror) is delivered, and after every message each consumer either reads
// everything offered or stays stalled. Per consumer: versions per round strictly increase and
// votes/proposals only grow; at quiescence each has the mirror's latest view; the precommits
// that justified leaving a round were delivered before that round's view disappeared.
func VH_C11_Consumers() {
	n := 3
	e := &vhM{n: n, keys: vkit.Keys(0, n), pows: []uint64{1, 1, 1}, initialHeight: 1, unbufferedOut: true}
	ref := vhNewMirror(vkit.Keys(0, 1), []uint64{1}, 1) // only to obtain a context
	e.ctx = ref.ctx
	e.vs = vkit.ValSet(e.keys, e.pows)
	e.ms, e.hs, e.rs, e.vst = newStores(vkit.HashScheme{})
	if err := e.restart(); err != nil {
		verifrt.Fail("C11:start-failed")
		return
	}
	x := &vhC11{e: e, nilSeenByGossip: map[[2]uint64]bool{},
		gossip: &vhConsumer{e: e, name: "gossip", last: map[[2]uint64]vhSeen{}},
		sm:     &vhConsumer{e: e, name: "sm", last: map[[2]uint64]vhSeen{}}}
	x.enterRound(1, 0)
	all := uint64(1<<uint(n) - 1)

	script := verifrt.Choose("script", 8)
	var nilRounds []uint32
	committedA := false
	committedR1 := false
	switch script {
	case 0: // votes grow within the round
		x.vote(false, 1, 0, "A", 1, 1)
		x.maybeRead()
		x.vote(false, 1, 0, "A", 2, 2)
		x.maybeRead()
		x.vote(true, 1, 0, "A", 1, 3)
		x.maybeRead()
	case 1: // one nil-precommit round
		x.vote(true, 1, 0, "", 1, 1)
		x.maybeRead()
		x.vote(true, 1, 0, "", 6, 2)
		nilRounds = []uint32{0}
		x.maybeRead()
	case 2: // two consecutive nil-precommit rounds
		x.vote(true, 1, 0, "", 7, 1)
		x.maybeRead()
		x.vote(true, 1, 1, "", 7, 2)
		nilRounds = []uint32{0, 1}
		x.maybeRead()
	case 3: // minority prevote for the next round: jump
		x.vote(false, 1, 0, "A", 1, 1)
		x.maybeRead()
		x.vote(false, 1, 1, "B", 2, 2)
		x.maybeRead()
	case 6: // a commit while the consumers may be stalled: header A, a precommit for A, the rest
		// of the precommits (height 1 is committed, the voting view moves to height 2), then a
		// prevote at height 2; the state machine stays in (1,0), which is now the committing view
		verifrt.Assume(verifrt.UFBool("hashok", vkit.Pack([]byte("A")), 1))
		verifrt.Assume(e.keys[0].Verify([]byte{'P', 0, 1, 0, 'A'}, []byte("psA")))
		phA := tmconsensus.ProposedHeader{
			Header: tmconsensus.Header{Hash: []byte("A"), PrevBlockHash: []byte("g"), Height: 1,
				ValidatorSet: e.vs, NextValidatorSet: e.vs, DataID: []byte("d"),
				PrevCommitProof: tmconsensus.CommitProof{Proofs: map[string][]gcrypto.SparseSignature{}}},
			Round: 0, ProposerPubKey: e.keys[0], Signature: []byte("psA"),
		}
		verifrt.Assert(e.m.HandleProposedHeader(e.ctx, phA) == tmconsensus.HandleProposedHeaderAccepted, "C11:setup-header-accepted")
		x.maybeRead()
		x.vote(true, 1, 0, "A", 1, 1)
		x.maybeRead()
		x.vote(true, 1, 0, "A", 6, 2)
		x.maybeRead()
		x.vote(false, 2, 0, "B", 1, 3)
		x.maybeRead()
		committedA = true
		verifrt.Reach("commit-delivered-to-possibly-stalled-consumers")
	case 7: // round 0 ends with a nil quorum and round 1 commits block A, all of it possibly
		// before either consumer reads: the nil precommits that justified leaving round 0 must
		// still reach gossip (and the state machine, which sits in round 0) after the commit
		x.vote(true, 1, 0, "", 7, 1)
		nilRounds = []uint32{0}
		x.maybeRead()
		verifrt.Assume(verifrt.UFBool("hashok", vkit.Pack([]byte("A")), 1))
		verifrt.Assume(e.keys[0].Verify([]byte{'P', 0, 1, 1, 'A'}, []byte("psA")))
		phA1 := tmconsensus.ProposedHeader{
			Header: tmconsensus.Header{Hash: []byte("A"), PrevBlockHash: []byte("g"), Height: 1,
				ValidatorSet: e.vs, NextValidatorSet: e.vs, DataID: []byte("d"),
				PrevCommitProof: tmconsensus.CommitProof{Proofs: map[string][]gcrypto.SparseSignature{}}},
			Round: 1, ProposerPubKey: e.keys[0], Signature: []byte("psA"),
		}
		verifrt.Assert(e.m.HandleProposedHeader(e.ctx, phA1) == tmconsensus.HandleProposedHeaderAccepted, "C11:setup-header-accepted")
		x.maybeRead()
		x.vote(true, 1, 1, "A", 7, 2)
		x.maybeRead()
		committedR1 = true
		verifrt.Reach("commit-in-the-round-after-a-nil-round")
	case 5: // the state machine runs AHEAD of the mirror: round 0 has collected several view
		// versions, the state machine's own timer moves it to round 1 (answered from the
		// next-round view, which has seen nothing yet), then round 0 ends with a nil quorum, the
		// mirror follows to round 1 and a vote for round 1 arrives
		x.vote(false, 1, 0, "A", 1, 1)
		x.vote(false, 1, 0, "A", 2, 2)
		x.vote(true, 1, 0, "", 1, 3)
		x.maybeRead()
		x.enterRound(1, 1)
		x.vote(true, 1, 0, "", 6, 4)
		x.maybeRead()
		x.vote(false, 1, 1, "B", 1, 5)
		x.maybeRead()
		verifrt.Reach("sm-entered-the-next-round-before-the-mirror")
	default: // round entrance racing with a view shift: the mirror jumps to round 1 while the
		// state machine is slow; the state machine then enters round 1 on its own (its timer
		// elapsed) before reading, and one more vote arrives for round 1
		x.vote(false, 1, 1, "B", 6, 1)
		if verifrt.Choose("sm-reads-before-entering", 2) == 1 {
			x.drainSM()
		}
		x.enterRound(1, 1)
		x.vote(false, 1, 1, "B", 1, 2)
		x.maybeRead()
	}
	verifrt.Reach("script-delivered")

	// inputs stop; both consumers resume
	x.drainSM()
	x.drainGossip()
	var v tmconsensus.VersionedRoundView
	verifrt.Assert(e.m.VotingView(e.ctx, &v) == nil, "C11:kernel-serves")
	verifrt.Observe("final", v.Height, uint64(v.Round), uint64(v.Version))

	// gossip ends up current
	g, ok := x.gossip.last[[2]uint64{v.Height, uint64(v.Round)}]
	verifrt.Assert(ok && g.version == v.Version, "C11:gossip:has-latest-voting-view-at-quiescence")
	// the state machine ends up current for the round it is in, or was told to jump
	if x.smH == v.Height && x.smR == v.Round {
		s, ok := x.sm.last[[2]uint64{v.Height, uint64(v.Round)}]
		verifrt.Assert(ok && s.version == v.Version, "C11:sm:has-latest-view-of-its-round-at-quiescence")
	}
	if committedA {
		var c tmconsensus.VersionedRoundView
		verifrt.Assert(e.m.CommittingView(e.ctx, &c) == nil && c.Height == 1 && v.Height == 2, "C11:setup-height-1-committed")
		// both consumers end up with the final committing view of (1,0): all three precommits
		verifrt.Assert(x.gossip.sawPrecommits(1, 0, "A", all), "C11:gossip:commit-precommits-delivered")
		verifrt.Assert(x.sm.sawPrecommits(1, 0, "A", all), "C11:sm:commit-precommits-delivered")
		gc, okc := x.gossip.last[[2]uint64{1, 0}]
		verifrt.Assert(okc && gc.version == c.Version, "C11:gossip:has-latest-committing-view-at-quiescence")
		sc, oks := x.sm.last[[2]uint64{1, 0}]
		verifrt.Assert(oks && sc.version == c.Version, "C11:sm:has-latest-view-of-its-round-at-quiescence")
	}
	if committedR1 {
		var c tmconsensus.VersionedRoundView
		verifrt.Assert(e.m.CommittingView(e.ctx, &c) == nil && c.Height == 1 && c.Round == 1 && v.Height == 2, "C11:setup-height-1-committed-in-round-1")
		verifrt.Assert(x.gossip.sawPrecommits(1, 1, "A", all), "C11:gossip:commit-precommits-delivered")
	}
	for _, r := range nilRounds {
		verifrt.Reach("nil-round-left")
		verifrt.Assert(x.gossip.sawPrecommits(1, r, "", all), "C11:gossip:nil-precommits-delivered-before-round-dropped")
	}
	if len(nilRounds) > 0 {
		// the state machine was in round 0: it must have received the nil quorum of that round
		verifrt.Assert(x.sm.sawPrecommits(1, 0, "", all), "C11:sm:nil-precommits-delivered-before-round-dropped")
	}
	if script == 3 && v.Round == 1 {
		verifrt.Reach("jumped")
		verifrt.Assert(x.jumped, "C11:sm:told-about-the-skipped-round")
	}
	if script == 4 {
		verifrt.Reach("entered-while-jump-pending")
	}
}
