package tmengine

// Shared kit for the end-to-end engine harnesses (C01-E1, C10-E2): harness collaborators of a
// complete engine built by tmengine.New - consensus strategy (never ready to choose: the
// engine follows as a non-validator), gossip reader, round timer whose timers never fire,
// driver side of the init-chain exchange, and a poll of the block-finalization channel - and
// a builder that assembles the engine on given stores.

import (
	"context"
	"runtime"
	"time"

	"github.com/gordian-engine/gordian/gcrypto"
	"github.com/gordian-engine/gordian/gwatchdog"
	"github.com/gordian-engine/gordian/internal/verifrt"
	"github.com/gordian-engine/gordian/internal/verifrt/vkit"
	"github.com/gordian-engine/gordian/tm/tmconsensus"
	"github.com/gordian-engine/gordian/tm/tmdriver"
	"github.com/gordian-engine/gordian/tm/tmengine/tmelink"
	"github.com/gordian-engine/gordian/tm/tmstore/tmmemstore"
)

type vhE1CS struct{}

func (vhE1CS) EnterRound(context.Context, tmconsensus.RoundView, chan<- tmconsensus.Proposal) error {
	return nil
}
func (vhE1CS) ConsiderProposedBlocks(context.Context, []tmconsensus.ProposedHeader, tmconsensus.ConsiderProposedBlocksReason) (string, error) {
	return "", tmconsensus.ErrProposedBlockChoiceNotReady
}
func (vhE1CS) ChooseProposedBlock(context.Context, []tmconsensus.ProposedHeader) (string, error) {
	return "", nil
}
func (vhE1CS) DecidePrecommit(context.Context, tmconsensus.VoteSummary) (string, error) {
	return "", nil
}

type vhE1GS struct{ done chan struct{} }

func (g vhE1GS) Start(ch <-chan tmelink.NetworkViewUpdate) {
	go func() {
		defer close(g.done)
		for range ch {
		}
	}()
}
func (g vhE1GS) Wait() {}

type vhE1RT struct{}

func (vhE1RT) ProposalTimer(context.Context, uint64, uint32) (<-chan struct{}, func()) {
	return nil, func() {}
}
func (vhE1RT) PrevoteDelayTimer(context.Context, uint64, uint32) (<-chan struct{}, func()) {
	return nil, func() {}
}
func (vhE1RT) PrecommitDelayTimer(context.Context, uint64, uint32) (<-chan struct{}, func()) {
	return nil, func() {}
}
func (vhE1RT) CommitWaitTimer(context.Context, uint64, uint32) (<-chan struct{}, func()) {
	return nil, func() {}
}

// vhE1Poll: a finalize request the engine has ready, if any.
func vhE1Poll(ch chan tmdriver.FinalizeBlockRequest) (tmdriver.FinalizeBlockRequest, bool) {
	if verifrt.Symbolic() {
		for i := 0; i < 6; i++ {
			runtime.Gosched() // every other goroutine runs until it blocks
			select {
			case r := <-ch:
				return r, true
			default:
			}
		}
		return tmdriver.FinalizeBlockRequest{}, false
	}
	select {
	case r := <-ch:
		return r, true
	case <-time.After(1500 * time.Millisecond):
		return tmdriver.FinalizeBlockRequest{}, false
	}
}

// vhEngStores: the stores an engine life runs on (a restart reuses them).
type vhEngStores struct {
	fs  *tmmemstore.FinalizationStore
	ms  *tmmemstore.MirrorStore
	rs  *tmmemstore.RoundStore
	ss  *tmmemstore.StateMachineStore
	vst *tmmemstore.ValidatorStore
	chs *tmmemstore.CommittedHeaderStore
	as  *tmmemstore.ActionStore
}

func vhNewEngStores() *vhEngStores {
	return &vhEngStores{
		fs: tmmemstore.NewFinalizationStore(), ms: tmmemstore.NewMirrorStore(), rs: tmmemstore.NewRoundStore(),
		ss: tmmemstore.NewStateMachineStore(), vst: tmmemstore.NewValidatorStore(vkit.HashScheme{}),
		chs: tmmemstore.NewCommittedHeaderStore(), as: tmmemstore.NewActionStore(),
	}
}

// vhEngLife is one process life of the engine.
type vhEngLife struct {
	e      *Engine
	ctx    context.Context
	cancel context.CancelFunc
	finCh  chan tmdriver.FinalizeBlockRequest
	inits  *int // how often the driver was asked to initialise the chain
}

// vhStartEngine builds a complete engine on st for the genesis set vs; the harness answers
// an init-chain request if one comes.
func vhStartEngine(st *vhEngStores, vs tmconsensus.ValidatorSet) (*vhEngLife, error) {
	return vhStartEngineWith(st, vs, vhE1CS{}, vhE1GS{done: make(chan struct{})}, nil)
}

// vhStartEngineWith: the same with a consensus strategy, gossip strategy and (optionally) a
// signer of the harness's choice (a validating engine).
func vhStartEngineWith(st *vhEngStores, vs tmconsensus.ValidatorSet, cs tmconsensus.ConsensusStrategy, gs interface {
	Start(<-chan tmelink.NetworkViewUpdate)
	Wait()
}, signer tmconsensus.Signer) (*vhEngLife, error) {
	hs := vkit.HashScheme{}
	gen := &tmconsensus.ExternalGenesis{ChainID: "c", InitialHeight: 1, GenesisValidatorSet: vs}
	l := &vhEngLife{finCh: make(chan tmdriver.FinalizeBlockRequest), inits: new(int)}
	initCh := make(chan tmdriver.InitChainRequest)
	l.ctx, l.cancel = context.WithCancel(context.Background())
	go func() {
		select {
		case req := <-initCh:
			*l.inits++
			req.Resp <- tmdriver.InitChainResponse{AppStateHash: []byte("app")}
		case <-l.ctx.Done():
		}
	}()
	opts := []Opt{}
	if signer != nil {
		opts = append(opts, WithSigner(signer))
	}
	e, err := New(l.ctx, verifrt.Logger(), append(opts,
		WithGenesis(gen), WithHashScheme(hs), WithSignatureScheme(vkit.SigScheme{}),
		WithCommonMessageSignatureProofScheme(gcrypto.SimpleCommonMessageSignatureProofScheme{}),
		WithGossipStrategy(gs),
		WithFinalizationStore(st.fs), WithMirrorStore(st.ms), WithRoundStore(st.rs), WithStateMachineStore(st.ss),
		WithValidatorStore(st.vst), WithWatchdog(&gwatchdog.Watchdog{}),
		WithConsensusStrategy(cs), WithBlockFinalizationChannel(l.finCh), WithInternalRoundTimer(vhE1RT{}),
		WithCommittedHeaderStore(st.chs), WithActionStore(st.as), WithInitChainChannel(initCh),
	)...)
	if err != nil {
		l.cancel()
		return nil, err
	}
	l.e = e
	// let the state machine's first round entrance be served before the network speaks, so
	// that native runs of these harnesses do not depend on that schedule (the other order is
	// VH_C09_K15's subject)
	vhSettle()
	return l, nil
}

// vhSettle lets the engine's goroutines run until they block (natively: a short wait).
func vhSettle() {
	if verifrt.Symbolic() {
		for i := 0; i < 6; i++ {
			runtime.Gosched()
		}
		return
	}
	time.Sleep(400 * time.Millisecond)
}

// stop cancels the life's context and waits for the engine (violation if it does not return).
func (l *vhEngLife) stop(label string) bool {
	l.cancel()
	return verifrt.MustReturn(label, func() { l.e.Wait() })
}
