package tmstate

// Shared state-machine harness kit (overlay only; C02, C08, C12 first half).
//
// A real StateMachine value is built in-package WITHOUT its kernel goroutine. One
// event is delivered the way the kernel's select would see it: exactly one source of
// the real handleLiveEvent is made ready, then handleLiveEvent is called once. The
// harness plays mirror (round entrances, views), consensus strategy (EnterRound,
// answers on the per-round result channels), driver (finalization responses) and
// round timer. Everything the state machine does is recorded as ghost history and the
// oracles (written from the property text) read only that history and the stores.

import (
	"context"
	"github.com/gordian-engine/gordian/gwatchdog"

	"github.com/gordian-engine/gordian/gcrypto"
	"github.com/gordian-engine/gordian/internal/verifrt"
	"github.com/gordian-engine/gordian/internal/verifrt/vkit"
	"github.com/gordian-engine/gordian/tm/tmconsensus"
	"github.com/gordian-engine/gordian/tm/tmdriver"
	"github.com/gordian-engine/gordian/tm/tmengine/internal/tmeil"
	"github.com/gordian-engine/gordian/tm/tmengine/internal/tmstate/internal/tsi"
	"github.com/gordian-engine/gordian/tm/tmengine/tmelink"
	"github.com/gordian-engine/gordian/tm/tmstore/tmmemstore"
)

const vhInitialHeight = 1

var vhTargets = [3]string{"", "A", "B"}

type vhHR struct {
	h uint64
	r uint32
}

func (a vhHR) less(b vhHR) bool { return a.h < b.h || (a.h == b.h && a.r < b.r) }

// ---- hash scheme: block hash = "H" + data id (concrete); validator hashes from vkit.

type vhHashScheme struct{ vkit.HashScheme }

func (vhHashScheme) Block(h tmconsensus.Header) ([]byte, error) {
	return append([]byte("H"), h.DataID...), nil
}

// ---- view numbers

// vhNums are the summary numbers of one view: independent symbolic 64-bit values
// constrained only by consistency.
type vhNums struct {
	avail        uint64
	pvTot, pcTot uint64
	pv, pc       [3]uint64 // per target "", "A", "B"
	pvTop, pcTop int       // index of the most voted target
	th           *vhThresholds
	nPH          int  // proposed headers shown: 0, 1 (A), 2 (A, B)
	ownPH        bool // the view contains a header proposed by the local key
	version      uint32
}

// sumGE reports b0+b1+b2 >= tot without overflow, branch-free.
func vhSumGE(b [3]uint64, tot uint64) bool {
	return verifrt.Or(b[0] >= tot, verifrt.Or(b[1] >= tot-b[0], b[2] >= tot-b[0]-b[1]))
}

// vhTopOK: index t is what the vote summary reports as most voted: strictly more than
// every lexicographically earlier target, at least as much as every later one.
func vhTopOK(b [3]uint64, t int) bool {
	ok := true
	for i := 0; i < 3; i++ {
		if i < t {
			ok = verifrt.And(ok, b[t] > b[i])
		} else if i > t {
			ok = verifrt.And(ok, b[t] >= b[i])
		}
	}
	return ok
}

// Thresholds of the oracles. ByzantineMajority(total) is the least m with 3m > 2*total and
// ByzantineMinority(total) the least k with 3k >= total (specification established on the
// real functions in C18, which is what the engine substitutes under Summarize), so
// "x is more than two thirds of total" <=> x >= maj and "at least one third" <=> x >= min.
// The available power is one symbol per environment: computed once.
type vhThresholds struct{ maj, min uint64 }

func vhThresholdsOf(total uint64) *vhThresholds {
	return &vhThresholds{maj: tmconsensus.ByzantineMajority(total), min: tmconsensus.ByzantineMinority(total)}
}

// vhTopChoices: number of targets that carry votes: nil, "A" (quick); nil, "A", "B" (thorough).
func vhTopChoices() int {
	if vhExact() {
		return 3
	}
	return 2
}

// vhExactTargets: votes for all three targets nil/A/B with the exact most-voted rule (always
// in the thorough tier; a quick harness may switch it on for a short scripted history).
var vhExactTargets bool

func vhExact() bool { return vhExactTargets || verifrt.Thorough() }

const (
	vhGrowAll  = iota // every number may grow
	vhGrowPV          // only the prevote numbers change
	vhGrowPC          // only the precommit numbers change
	vhGrowNone        // numbers unchanged (a header arrives)
)

// vhGenNums makes the numbers of a new view. prev != nil: a later view of the same
// round (same available power, pointwise growth restricted by mode).
func vhGenNums(prev *vhNums, mode int) *vhNums {
	n := &vhNums{}
	if prev != nil {
		*n = *prev
		n.version = prev.version + 1
	} else {
		n.avail = verifrt.U64("avail")
		verifrt.Assume(n.avail >= 1)
		n.version = 1
		mode = vhGrowAll
	}
	if mode == vhGrowAll || mode == vhGrowPV {
		n.pvTot = verifrt.U64("pvTot")
		verifrt.Assume(n.pvTot <= n.avail)
		for i := 0; i < vhTopChoices(); i++ {
			n.pv[i] = verifrt.U64("pv")
			verifrt.Assume(n.pv[i] <= n.pvTot)
			if prev != nil {
				verifrt.Assume(n.pv[i] >= prev.pv[i])
			}
		}
		if prev != nil {
			verifrt.Assume(n.pvTot >= prev.pvTot)
		}
		verifrt.Assume(vhSumGE(n.pv, n.pvTot))
		if vhExact() {
			n.pvTop = verifrt.Choose("pvTop", 2)
			verifrt.Assume(vhTopOK(n.pv, n.pvTop))
		} else {
			// quick: the most voted prevote target is reported as "A" (the state machine
			// never inspects its identity, only its power); ties with nil go to "A"
			n.pvTop = 1
			verifrt.Assume(verifrt.And(n.pv[1] >= n.pv[0], n.pv[1] >= n.pv[2]))
		}
	}
	if mode == vhGrowAll || mode == vhGrowPC {
		n.pcTot = verifrt.U64("pcTot")
		verifrt.Assume(n.pcTot <= n.avail)
		for i := 0; i < vhTopChoices(); i++ {
			n.pc[i] = verifrt.U64("pc")
			verifrt.Assume(n.pc[i] <= n.pcTot)
			if prev != nil {
				verifrt.Assume(n.pc[i] >= prev.pc[i])
			}
		}
		if prev != nil {
			verifrt.Assume(n.pcTot >= prev.pcTot)
		}
		verifrt.Assume(vhSumGE(n.pc, n.pcTot))
		n.pcTop = verifrt.Choose("pcTop", vhTopChoices())
		verifrt.Assume(vhTopOK(n.pc, n.pcTop))
	}
	return n
}

func (n *vhNums) summary() tmconsensus.VoteSummary {
	vs := tmconsensus.NewVoteSummary()
	vs.AvailablePower = n.avail
	vs.TotalPrevotePower = n.pvTot
	vs.TotalPrecommitPower = n.pcTot
	for i, t := range vhTargets {
		vs.PrevoteBlockPower[t] = n.pv[i]
		vs.PrecommitBlockPower[t] = n.pc[i]
	}
	vs.MostVotedPrevoteHash = vhTargets[n.pvTop]
	vs.MostVotedPrecommitHash = vhTargets[n.pcTop]
	return vs
}

// oracle predicates over a view (property text)
func (n *vhNums) pcQuorumFor(i int) bool { return n.pc[i] >= n.th.maj }
func (n *vhNums) pcAnyQuorum() bool {
	return verifrt.Or(n.pcQuorumFor(0), verifrt.Or(n.pcQuorumFor(1), n.pcQuorumFor(2)))
}
func (n *vhNums) pcAllPresentNoQuorum() bool {
	return verifrt.And(n.pcTot == n.avail, verifrt.Not(n.pcAnyQuorum()))
}
func (n *vhNums) pvAnyQuorum() bool {
	return verifrt.Or(n.pv[0] >= n.th.maj, verifrt.Or(n.pv[1] >= n.th.maj, n.pv[2] >= n.th.maj))
}
func (n *vhNums) pcThird() bool   { return n.pcTot >= n.th.min }
func (n *vhNums) pvPresent() bool { return n.pvTot >= n.th.maj }

// ---- recording signer

type vhSignRec struct {
	kind byte // 'P' proposal, 'V' prevote, 'C' precommit
	hr   vhHR
	hash string
	sig  string
	at   vhHR // ghost: round the state machine was in
}

type vhSigner struct {
	e   *vhSM
	key gcrypto.PubKey
}

func (s *vhSigner) sign(kind byte, h uint64, r uint32, hash string) []byte {
	e := s.e
	sig := []byte{'s', kind, byte('a' + len(e.signs))}
	e.signs = append(e.signs, vhSignRec{kind: kind, hr: vhHR{h, r}, hash: hash, sig: string(sig), at: e.cur})
	return sig
}

func (s *vhSigner) Prevote(ctx context.Context, vt tmconsensus.VoteTarget) ([]byte, []byte, error) {
	return vkit.PrevoteContent(vt.Height, vt.Round, vt.BlockHash), s.sign('V', vt.Height, vt.Round, vt.BlockHash), nil
}

func (s *vhSigner) Precommit(ctx context.Context, vt tmconsensus.VoteTarget) ([]byte, []byte, error) {
	return vkit.PrecommitContent(vt.Height, vt.Round, vt.BlockHash), s.sign('C', vt.Height, vt.Round, vt.BlockHash), nil
}

func (s *vhSigner) SignProposedHeader(ctx context.Context, ph *tmconsensus.ProposedHeader) error {
	ph.Signature = s.sign('P', ph.Header.Height, ph.Round, string(ph.Header.Hash))
	return nil
}

func (s *vhSigner) PubKey() gcrypto.PubKey { return s.key }

// ---- recording action store (real memstore inside)

type vhSaveRec struct {
	kind          byte
	hr            vhHR
	hash, sig     string
	ok            bool
	emittedBefore int // actions released to the mirror before this save
}

type vhActionStore struct {
	e *vhSM
	*tmmemstore.ActionStore
}

func (s *vhActionStore) log(kind byte, h uint64, r uint32, hash string, sig []byte, err error) {
	e := s.e
	e.saves = append(e.saves, vhSaveRec{
		kind: kind, hr: vhHR{h, r}, hash: hash, sig: string(sig), ok: err == nil,
		emittedBefore: e.released(),
	})
	if err == nil && e.crashOnSave {
		e.crashOnSave = false
		e.crashed = true
		panic("vh: process killed right after the action-store save")
	}
}

func (s *vhActionStore) SaveProposedHeaderAction(ctx context.Context, ph tmconsensus.ProposedHeader) error {
	err := s.ActionStore.SaveProposedHeaderAction(ctx, ph)
	s.log('P', ph.Header.Height, ph.Round, string(ph.Header.Hash), ph.Signature, err)
	return err
}

func (s *vhActionStore) SavePrevoteAction(ctx context.Context, k gcrypto.PubKey, vt tmconsensus.VoteTarget, sig []byte) error {
	err := s.ActionStore.SavePrevoteAction(ctx, k, vt, sig)
	s.log('V', vt.Height, vt.Round, vt.BlockHash, sig, err)
	return err
}

func (s *vhActionStore) SavePrecommitAction(ctx context.Context, k gcrypto.PubKey, vt tmconsensus.VoteTarget, sig []byte) error {
	err := s.ActionStore.SavePrecommitAction(ctx, k, vt, sig)
	s.log('C', vt.Height, vt.Round, vt.BlockHash, sig, err)
	return err
}

// ---- recording round timer

const (
	vhTProposal = iota
	vhTPrevoteDelay
	vhTPrecommitDelay
	vhTCommitWait
)

type vhTimerRec struct {
	kind      int
	hr        vhHR
	ch        chan struct{}
	cancelled bool
	elapsed   bool
	// ghost: another timer was still un-cancelled when this one was started
	replacedLive bool
}

type vhTimer struct {
	e    *vhSM
	recs []*vhTimerRec
}

func (t *vhTimer) start(kind int, h uint64, r uint32) (<-chan struct{}, func()) {
	rec := &vhTimerRec{kind: kind, hr: vhHR{h, r}, ch: make(chan struct{})}
	for _, o := range t.recs {
		if !o.cancelled {
			rec.replacedLive = true
		}
	}
	t.recs = append(t.recs, rec)
	return rec.ch, func() { rec.cancelled = true }
}

func (t *vhTimer) ProposalTimer(ctx context.Context, h uint64, r uint32) (<-chan struct{}, func()) {
	return t.start(vhTProposal, h, r)
}
func (t *vhTimer) PrevoteDelayTimer(ctx context.Context, h uint64, r uint32) (<-chan struct{}, func()) {
	return t.start(vhTPrevoteDelay, h, r)
}
func (t *vhTimer) PrecommitDelayTimer(ctx context.Context, h uint64, r uint32) (<-chan struct{}, func()) {
	return t.start(vhTPrecommitDelay, h, r)
}
func (t *vhTimer) CommitWaitTimer(ctx context.Context, h uint64, r uint32) (<-chan struct{}, func()) {
	return t.start(vhTCommitWait, h, r)
}

func (t *vhTimer) outstanding() []*vhTimerRec {
	var out []*vhTimerRec
	for _, o := range t.recs {
		if !o.cancelled {
			out = append(out, o)
		}
	}
	return out
}

// ---- ghost history

// vhEntr is one round entrance received by the harness mirror.
type vhEntr struct {
	hr          vhHR
	prev        vhHR
	first       bool // first entrance of a process life (start-up)
	life        int
	hasActions  bool
	actions     chan tmeil.StateMachineRoundAction
	hc          chan<- struct{}
	catchup     bool // the mirror answered with a committed header
	okRound     bool // R3 cause held (symbolic), meaningful if same height
	okHeight    bool // R2: finalization of prev.h stored when the entrance was made
	causeTimer  bool
	causeJump   bool
	causeNilQ   bool
	causeAllNoQ bool
	prevFinal   bool // first entrance of a later life: the finalization of prev.h was stored when the process died
}

const (
	vhReqEnter = iota
	vhReqConsider
	vhReqChoose
	vhReqDecide
)

// vhReq is one request the state machine made of the consensus strategy.
type vhReq struct {
	kind     int
	at       vhHR // ghost current round when the request was observed
	hrOK     bool // every header / the round view in the request names round `at`
	nPHs     int
	result   chan tsi.HashSelection
	answered bool
	life     int
	// context for the R4/R5 "only when" clauses
	afterPrevote  bool // prevote of the round already recorded
	trigQuorumPV  bool // symbolic: latest view of the round shows a single-target prevote quorum
	trigAnyPV     bool // symbolic: latest view shows >2/3 prevote power present
	trigThirdPC   bool // symbolic: latest view shows >= 1/3 precommit power
	trigTimer     int  // kind of timer whose elapse is the event in progress, -1 none
	vsMatches     bool // Decide: the summary handed over equals the latest view's
	resultCurrent bool // result channel is the round's own channel
}

type vhFinReq struct {
	req      tmdriver.FinalizeBlockRequest
	at       vhHR
	answered bool
	life     int
	again    bool // a finalization of that height was already stored when the request was made
}

type vhEmit struct {
	hr     vhHR
	kind   byte
	hash   string
	sig    string
	index  int
	header tmconsensus.ProposedHeader
}

// vhRound: per entered round ghost.
type vhRound struct {
	view       *vhNums // latest view the mirror showed for this round
	proposalCh chan tmconsensus.Proposal
	prevoteCh  chan tsi.HashSelection
	precommCh  chan tsi.HashSelection
	// first answers handed to the state machine on the round's own channels
	pvAnswered, pcAnswered, propAnswered bool
	propCount                            int // proposals the strategy sent on this round's channel
	pvAnswer, pcAnswer                   string
	propData                             string
	catchupCH                            *tmconsensus.CommittedHeader
}

const (
	evView   = iota // every number may grow, a header may arrive (thorough)
	evViewPV        // prevote numbers grow
	evViewPC        // precommit numbers grow
	evHeader        // one more proposed header, numbers unchanged
	evTimer
	evPrevoteAnswer
	evPrecommitAnswer
	evProposal
	evFinalization
	evHeightCommitted
	evBlockData
	evJumpAhead
	evStaleView
	evKinds
)

var vhEvNames = [evKinds]string{
	"view", "view-prevotes", "view-precommits", "header", "timer", "prevote-answer", "precommit-answer", "proposal",
	"finalization", "height-committed", "block-data", "jump-ahead", "stale-view",
}

type vhSM struct {
	ctx context.Context
	m   *StateMachine
	rlc tsi.RoundLifecycle

	participating bool
	keys          []gcrypto.PubKey
	vs            tmconsensus.ValidatorSet

	as     *vhActionStore
	fs     *tmmemstore.FinalizationStore
	ss     *tmmemstore.StateMachineStore
	signer *vhSigner
	rt     *vhTimer

	viewCh     chan tmeil.StateMachineRoundView
	entranceCh chan tmeil.StateMachineRoundEntrance
	finReqCh   chan tmdriver.FinalizeBlockRequest
	bdaCh      chan tmelink.BlockDataArrival
	cm         *tsi.ConsensusManager
	stop       chan struct{}

	// options
	allowCatchup     bool // the mirror may answer an entrance with a committed header
	symEntrances     int  // how many more entrance responses carry arbitrary numbers (later ones: no votes yet)
	entrancePHs      int  // max proposed headers in an entrance response
	ownPHInRestart   bool
	viewsLeft        int                  // how many more view updates with new numbers may be delivered (<0: no limit)
	laterEntrancePHs bool                 // entrance responses after the first of a life may carry headers too
	strictPanics     bool                 // a panic inside the state machine is a violation (C09) instead of the end of the path
	gen              *tmconsensus.Genesis // genesis handed to the state machine (nil: the kit's own)
	stepBefore       tsi.Step             // step the state machine was in when the current event arrived (0: start-up)
	// finChoice != nil: the validator set the driver returns when it finalizes height h (C07:
	// sets that change from height to height); nil: always the genesis set. drv is the ghost of
	// what the driver returned first for each height.
	finChoice         func(h uint64) tmconsensus.ValidatorSet
	drv               map[uint64]tmconsensus.ValidatorSet
	proposalAnyHeight bool // the strategy may propose above the initial height too (views then carry a previous-commit proof)

	// ghost
	life      int // process life (restarts)
	alive     bool
	cur       vhHR
	haveCur   bool
	rounds    map[vhHR]*vhRound
	entrances []*vhEntr
	reqs      []*vhReq
	finReqs   []*vhFinReq
	signs     []vhSignRec
	saves     []vhSaveRec
	emits     []vhEmit
	drained   int
	// event in progress
	evKind      int
	evTimerKind int
	evTimerHR   vhHR
	evJumpTo    vhHR
	cursor      vhCursor
	crashed     bool
	seen        int  // coverage bits, see vhSeen*
	crashOnSave bool // the process dies right after the next successful action-store save
	th          *vhThresholds
	avail       uint64 // available power of the validator set (symbolic, one per environment)
	oldTimers   []*vhTimerRec
}

func vhNewSM(participating bool) *vhSM { return vhNewSMOn(participating, nil, nil) }

// vhNewSMOn: fs / gen non-nil: the chain was initialised by somebody else (the real engine code
// in the C10 engine-level harness): the finalization store already holds the pseudo-finalization
// and gen is the genesis to hand to the state machine.
func vhNewSMOn(participating bool, fs *tmmemstore.FinalizationStore, gen *tmconsensus.Genesis) *vhSM {
	e := &vhSM{ctx: context.Background(), participating: participating}
	e.keys = vkit.OkKeys(2)
	e.vs = vkit.ValSet(e.keys, []uint64{1, 1})
	e.as = &vhActionStore{e: e, ActionStore: tmmemstore.NewActionStore()}
	e.gen = gen
	if fs != nil {
		e.fs = fs
		e.ss = tmmemstore.NewStateMachineStore()
		var key gcrypto.PubKey = e.keys[0]
		e.signer = &vhSigner{e: e, key: key}
		e.rounds = map[vhHR]*vhRound{}
		e.avail = verifrt.U64("avail")
		verifrt.Assume(e.avail >= 1)
		e.th = vhThresholdsOf(e.avail)
		e.entrancePHs = 1
		e.symEntrances = 1
		e.viewsLeft = -1
		e.evTimerKind = -1
		e.boot()
		return e
	}
	e.fs = tmmemstore.NewFinalizationStore()
	e.ss = tmmemstore.NewStateMachineStore()
	var key gcrypto.PubKey = e.keys[0]
	if !participating {
		key = vkit.OkKey{ID: 9}
	}
	e.signer = &vhSigner{e: e, key: key}
	e.rounds = map[vhHR]*vhRound{}
	e.avail = verifrt.U64("avail")
	verifrt.Assume(e.avail >= 1)
	e.th = vhThresholdsOf(e.avail)
	e.entrancePHs = 1
	e.symEntrances = 1
	e.viewsLeft = -1
	e.evTimerKind = -1
	// the engine stores the genesis pseudo-finalization at initial height - 1
	g := e.genesis()
	gh, err := g.Header(vhHashScheme{})
	if err != nil {
		panic(err)
	}
	if err := e.fs.SaveFinalization(e.ctx, vhInitialHeight-1, 0, string(gh.Hash), e.vs, "app"); err != nil {
		panic(err)
	}
	e.boot()
	return e
}

func (e *vhSM) genesis() tmconsensus.Genesis {
	if e.gen != nil {
		return *e.gen
	}
	return tmconsensus.Genesis{
		ChainID:             "vh",
		InitialHeight:       vhInitialHeight,
		CurrentAppStateHash: []byte("app"),
		ValidatorSet:        e.vs,
	}
}

// boot builds a fresh StateMachine value (a process life) over the same stores and signer.
func (e *vhSM) boot() {
	if e.stop != nil {
		close(e.stop)
	}
	e.life++
	e.stop = make(chan struct{})
	if e.rt != nil {
		// timers of the previous process died with it
		e.oldTimers = append(e.oldTimers, e.rt.recs...)
	}
	e.rt = &vhTimer{e: e}
	e.cursor.timers = 0
	e.viewCh = make(chan tmeil.StateMachineRoundView, 1)
	e.entranceCh = make(chan tmeil.StateMachineRoundEntrance)
	e.finReqCh = make(chan tmdriver.FinalizeBlockRequest, 4)
	e.bdaCh = make(chan tmelink.BlockDataArrival, 2)
	e.cm = &tsi.ConsensusManager{
		EnterRoundRequests:             make(chan tsi.EnterRoundRequest),
		ConsiderProposedBlocksRequests: make(chan tsi.ConsiderProposedBlocksRequest, 8),
		ChooseProposedBlockRequests:    make(chan tsi.ChooseProposedBlockRequest, 8),
		DecidePrecommitRequests:        make(chan tsi.DecidePrecommitRequest, 8),
	}
	e.m = &StateMachine{
		log:        verifrt.Logger(),
		signer:     e.signer,
		hashScheme: vhHashScheme{},
		finalizer: tsi.CommitProofFinalizer{
			SigScheme:  vkit.SigScheme{},
			CMSPScheme: gcrypto.SimpleCommonMessageSignatureProofScheme{},
		},
		genesis: e.genesis(),
		aStore:  e.as,
		fStore:  e.fs,
		smStore: e.ss,
		rt:      e.rt,
		cm:      e.cm,

		viewInCh:               e.viewCh,
		roundEntranceOutCh:     e.entranceCh,
		finalizeBlockRequestCh: e.finReqCh,
		blockDataArrivalCh:     e.bdaCh,

		kernelDone: make(chan struct{}),
	}
	// a watchdog whose Terminate cancels the state machine's context, as in production
	e.m.wd, e.ctx = gwatchdog.NewNopWatchdog(context.Background(), verifrt.Logger())
	e.haveCur = false
	go e.envLoop(e.entranceCh, e.cm.EnterRoundRequests, e.stop)
}

// envLoop is the harness goroutine that answers the two synchronous exchanges of the
// state machine: round entrance (mirror) and EnterRound (consensus strategy).
func (e *vhSM) envLoop(
	entr chan tmeil.StateMachineRoundEntrance, enter chan tsi.EnterRoundRequest, stop chan struct{},
) {
	for {
		select {
		case re := <-entr:
			e.onEntrance(re)
		case req := <-enter:
			e.onEnterRound(req)
		case <-stop:
			return
		}
	}
}

func (e *vhSM) finish() {
	close(e.stop)
	e.stop = nil
}

// proposed headers the mirror shows for a round: "A" first, then "B"; own: the header
// recorded in the action store by the local key (restart).
func (e *vhSM) phs(hr vhHR, n int, own bool) []tmconsensus.ProposedHeader {
	var out []tmconsensus.ProposedHeader
	for i := 0; i < n; i++ {
		tag := vhTargets[1+i]
		out = append(out, tmconsensus.ProposedHeader{
			Header: tmconsensus.Header{
				Hash:             []byte(tag),
				PrevBlockHash:    []byte("p"),
				Height:           hr.h,
				ValidatorSet:     e.valSetAt(hr.h),
				NextValidatorSet: e.nextValSetAt(hr.h),
				DataID:           []byte("d" + tag),
				PrevAppStateHash: []byte("app"),
			},
			Round:          hr.r,
			ProposerPubKey: e.keys[1],
			Signature:      []byte("ps" + tag),
		})
	}
	if own {
		if ra, err := e.as.ActionStore.LoadActions(e.ctx, hr.h, hr.r); err == nil && ra.ProposedHeader.Header.Height != 0 {
			out = append(out, ra.ProposedHeader)
		}
	}
	return out
}

// valSetAt / nextValSetAt: the sets the chain prescribes for height h and h+1 as the property
// states them: what the driver returned when finalizing h-2 (h-1), the genesis set before that.
func (e *vhSM) valSetAt(h uint64) tmconsensus.ValidatorSet {
	if h >= 2 {
		if vs, ok := e.drv[h-2]; ok {
			return vs
		}
	}
	return e.vs
}

// localInSet: the local validator belongs to the set of height h (a strategy proposes only
// then; one that proposes as a non-validator is outside every claim, DESIGN §11).
func (e *vhSM) localInSet(h uint64) bool {
	for _, v := range e.valSetAt(h).Validators {
		if v.PubKey.Equal(e.signer.key) {
			return true
		}
	}
	return false
}

func (e *vhSM) nextValSetAt(h uint64) tmconsensus.ValidatorSet { return e.valSetAt(h + 1) }

func (e *vhSM) vrv(hr vhHR, n *vhNums) tmconsensus.VersionedRoundView {
	v := tmconsensus.VersionedRoundView{
		RoundView: tmconsensus.RoundView{
			Height:          hr.h,
			Round:           hr.r,
			ValidatorSet:    e.valSetAt(hr.h),
			ProposedHeaders: e.phs(hr, n.nPH, n.ownPH),
			VoteSummary:     n.summary(),
		},
		Version: n.version,
	}
	if e.proposalAnyHeight && hr.h > vhInitialHeight {
		// the precommits that committed the previous height, as the mirror carries them along:
		// one signature of the first validator of that height's set for the finalized block
		if _, bh, _, _, err := e.fs.LoadFinalizationByHeight(e.ctx, hr.h-1); err == nil {
			pvs := e.valSetAt(hr.h - 1)
			v.RoundView.PrevCommitProof = tmconsensus.CommitProof{
				PubKeyHash: string(pvs.PubKeyHash),
				Proofs: map[string][]gcrypto.SparseSignature{
					bh: {{KeyID: vkit.KeyID(0), Sig: []byte("pc")}},
				},
			}
		}
	}
	return v
}

func (e *vhSM) committedHeader(h uint64) tmconsensus.CommittedHeader {
	return tmconsensus.CommittedHeader{
		Header: tmconsensus.Header{
			Hash:             []byte("K"),
			PrevBlockHash:    []byte("p"),
			Height:           h,
			ValidatorSet:     e.valSetAt(h),
			NextValidatorSet: e.nextValSetAt(h),
			DataID:           []byte("dK"),
			PrevAppStateHash: []byte("app"),
		},
		// the round the block was committed in: any, not necessarily the round entered
		Proof: tmconsensus.CommitProof{Round: verifrt.U32("committed-round")},
	}
}

// onEntrance runs on the env goroutine while the state machine is blocked waiting for
// the response: the ghost and the stores are stable.
func (e *vhSM) onEntrance(re tmeil.StateMachineRoundEntrance) {
	hr := vhHR{re.H, re.R}
	en := &vhEntr{hr: hr, prev: e.cur, first: !e.haveCur, life: e.life, hasActions: re.Actions != nil, actions: re.Actions, hc: re.HeightCommitted}
	if e.haveCur {
		if hr.h == e.cur.h {
			// R3: why may the round be left?
			old := e.rounds[e.cur]
			if old != nil && old.view != nil {
				en.causeNilQ = old.view.pcQuorumFor(0)
				en.causeAllNoQ = old.view.pcAllPresentNoQuorum()
			}
			en.causeTimer = e.evKind == evTimer && e.evTimerKind == vhTPrecommitDelay && e.evTimerHR == e.cur
			en.causeJump = e.evKind == evJumpAhead && e.evJumpTo.h == e.cur.h && e.cur.r < e.evJumpTo.r
			en.okRound = verifrt.Or(verifrt.Or(en.causeNilQ, en.causeAllNoQ), verifrt.Or(en.causeTimer, en.causeJump))
		} else {
			_, _, _, _, err := e.fs.LoadFinalizationByHeight(e.ctx, e.cur.h)
			en.okHeight = err == nil
		}
	}
	if en.first && e.life > 1 {
		_, _, _, _, err := e.fs.LoadFinalizationByHeight(e.ctx, e.cur.h)
		en.prevFinal = err == nil
	}
	e.entrances = append(e.entrances, en)
	e.cur, e.haveCur = hr, true
	rd := &vhRound{}
	e.rounds[hr] = rd

	var resp tmeil.RoundEntranceResponse
	if e.allowCatchup && verifrt.Choose("entrance-catchup", 2) == 1 {
		en.catchup = true
		ch := e.committedHeader(hr.h)
		rd.catchupCH = &ch
		resp.CH = ch
	} else {
		var n *vhNums
		if e.symEntrances <= 0 {
			n = &vhNums{avail: e.avail, th: e.th, version: 1}
		} else {
			e.symEntrances--
			n = vhGenNums(&vhNums{avail: e.avail, th: e.th}, vhGrowAll)
			n.version = 1
		}
		if e.entrancePHs > 0 && (en.first || e.laterEntrancePHs) {
			n.nPH = verifrt.Choose("entrance-phs", e.entrancePHs+1)
		}
		if en.first && e.life > 1 && e.ownPHInRestart {
			n.ownPH = verifrt.Choose("mirror-has-own-ph", 2) == 1
		}
		rd.view = n
		resp.VRV = e.vrv(hr, n)
	}
	re.Response <- resp
}

func (e *vhSM) onEnterRound(req tsi.EnterRoundRequest) {
	r := &vhReq{kind: vhReqEnter, at: e.cur, life: e.life, trigTimer: -1}
	r.hrOK = req.RV.Height == e.cur.h && req.RV.Round == e.cur.r
	if rd := e.rounds[e.cur]; rd != nil {
		rd.proposalCh = req.ProposalOut
	}
	e.reqs = append(e.reqs, r)
	req.Result <- nil
}

// released is the number of actions handed to the mirror so far.
func (e *vhSM) released() int {
	n := e.drained
	for _, en := range e.entrances {
		if en.actions != nil {
			n += len(en.actions)
		}
	}
	return n
}

// ---- start-up

// start runs the real start-up path (initializeRLC: sendInitialActionSet, EnterRound,
// beginRoundLive) with the harness answering. Reports false if the state machine
// did not come up (or panicked: crash freedom is C09).
func (e *vhSM) start() bool {
	e.evKind = -1
	e.stepBefore = 0
	ok := false
	if e.panics("SM:start-up-panics", func() {
		rlc, up := e.m.initializeRLC(e.ctx)
		e.rlc = rlc
		ok = up
	}) {
		e.alive = false
		return false
	}
	if !ok && e.strictPanics {
		verifrt.Fail("SM:start-up-stops-the-state-machine")
	}
	e.alive = ok
	e.afterEvent()
	return ok
}

// panics runs f and reports whether it panicked; with strictPanics the panic is a violation.
func (e *vhSM) panics(label string, f func()) bool {
	if e.strictPanics {
		return !verifrt.NoPanic(label, f)
	}
	return verifrt.Panics(f)
}

// restart: the process dies (in-memory lifecycle, channels, timers, pending strategy
// requests are gone) and comes up again on the same stores and signer.
func (e *vhSM) restart() bool {
	for _, r := range e.reqs {
		r.answered = true // requests of the dead process can no longer be answered
	}
	for _, f := range e.finReqs {
		f.answered = true
	}
	e.boot()
	return e.start()
}

// ---- events

func (e *vhSM) round() *vhRound { return e.rounds[e.cur] }

// applicable lists the event kinds that can happen now.
func (e *vhSM) applicable(kinds []int) []int {
	var out []int
	rd := e.round()
	live := !e.rlc.IsReplaying()
	for _, k := range kinds {
		ok := false
		switch k {
		case evView, evViewPV, evViewPC:
			ok = live && rd != nil && rd.view != nil && e.viewsLeft != 0
		case evJumpAhead, evStaleView:
			ok = live && rd != nil && rd.view != nil
		case evHeader:
			ok = live && rd != nil && rd.view != nil && rd.view.nPH < 2
		case evTimer:
			ok = e.rlc.StepTimer != nil && len(e.rt.outstanding()) > 0
		case evPrevoteAnswer:
			ok = e.pendingReq(true) != nil
		case evPrecommitAnswer:
			ok = e.pendingReq(false) != nil
		case evProposal:
			// (the strategy may send a second, different proposal on the same round's channel)
			ok = live && rd != nil && rd.proposalCh != nil && rd.propCount < 2 && (e.cur.h == vhInitialHeight || e.proposalAnyHeight) && e.participating && e.localInSet(e.cur.h)
		case evFinalization:
			ok = e.pendingFin() != nil
		case evHeightCommitted:
			// the mirror closes the channel when it commits the NEXT height while the state
			// machine is still at this one; a state machine that lags (slow strategy or
			// driver) can get the signal in any step, before the view that shows the quorum
			ok = live && e.rlc.HeightCommitted != nil
		case evBlockData:
			ok = live
		}
		if e.rlc.IsReplaying() && k != evFinalization {
			ok = false
		}
		if ok {
			out = append(out, k)
		}
	}
	return out
}

// pendingReq: the oldest unanswered prevote-kind (consider/choose) or decide request
// of this process life. Requests of earlier rounds are answered late on purpose.
func (e *vhSM) pendingReq(prevote bool) *vhReq {
	for _, r := range e.reqs {
		if r.answered || r.life != e.life {
			continue
		}
		if prevote && (r.kind == vhReqConsider || r.kind == vhReqChoose) {
			return r
		}
		if !prevote && r.kind == vhReqDecide {
			return r
		}
	}
	return nil
}

func (e *vhSM) pendingFin() *vhFinReq {
	for _, f := range e.finReqs {
		if !f.answered && f.life == e.life {
			return f
		}
	}
	return nil
}

// step delivers one event chosen among kinds. Reports false when the path ends
// (nothing applicable, state machine stopped or panicked).
func (e *vhSM) step(kinds []int) bool {
	if !e.alive {
		return false
	}
	app := e.applicable(kinds)
	if len(app) == 0 {
		return false
	}
	k := app[verifrt.Choose("event", len(app))]
	return e.deliver(k)
}

func (e *vhSM) deliver(k int) bool {
	e.evKind = k
	e.stepBefore = e.rlc.S
	e.evTimerKind = -1
	rd := e.round()
	fromCatchup := e.rlc.IsReplaying()
	switch k {
	case evView, evViewPV, evViewPC, evHeader:
		mode := vhGrowAll
		switch k {
		case evViewPV:
			mode = vhGrowPV
		case evViewPC:
			mode = vhGrowPC
		case evHeader:
			mode = vhGrowNone
		}
		if k != evHeader && e.viewsLeft > 0 {
			e.viewsLeft--
		}
		n := vhGenNums(rd.view, mode)
		if k == evHeader || (k == evView && n.nPH < 2 && verifrt.Choose("new-header", 2) == 1) {
			n.nPH++
		}
		rd.view = n
		e.viewCh <- tmeil.StateMachineRoundView{VRV: e.vrv(e.cur, n)}
	case evStaleView:
		// a view of the previous round (or of the next one) arrives: to be ignored
		hr := e.cur
		if hr.r > 0 && verifrt.Choose("stale-earlier", 2) == 1 {
			hr.r--
		} else {
			hr.r++
		}
		n := &vhNums{avail: rd.view.avail, th: e.th, pvTot: rd.view.avail, pcTot: rd.view.avail, version: 9}
		n.pv[0], n.pc[0] = n.avail, n.avail // would be a nil quorum if it were taken for the current round
		e.viewCh <- tmeil.StateMachineRoundView{VRV: e.vrv(hr, n)}
	case evJumpAhead:
		by := uint32(2)
		if verifrt.Thorough() {
			by = 1 + uint32(verifrt.Choose("jump-by", 2))
		}
		to := vhHR{e.cur.h, e.cur.r + by}
		e.evJumpTo = to
		j := e.vrv(to, &vhNums{avail: rd.view.avail, th: e.th, version: 1})
		e.viewCh <- tmeil.StateMachineRoundView{JumpAheadRoundView: &j}
	case evTimer:
		var t *vhTimerRec
		for _, o := range e.rt.outstanding() {
			var ch <-chan struct{} = o.ch
			if ch == e.rlc.StepTimer {
				t = o
			}
		}
		if t == nil {
			// the lifecycle waits on a channel that is not an outstanding timer: C12's finding
			e.afterEvent()
			return true
		}
		e.evTimerKind, e.evTimerHR = t.kind, t.hr
		t.elapsed = true
		close(t.ch)
	case evPrevoteAnswer, evPrecommitAnswer:
		r := e.pendingReq(k == evPrevoteAnswer)
		r.answered = true
		hash := vhTargets[verifrt.Choose("answer-hash", vhTopChoices())]
		// the consensus manager sends on the 1-buffered result channel of the request
		select {
		case r.result <- tsi.HashSelection{Hash: hash}:
			if ard := e.rounds[r.at]; ard != nil {
				if k == evPrevoteAnswer && r.result == ard.prevoteCh && !ard.pvAnswered {
					ard.pvAnswered, ard.pvAnswer = true, hash
				}
				if k == evPrecommitAnswer && r.result == ard.precommCh && !ard.pcAnswered {
					ard.pcAnswered, ard.pcAnswer = true, hash
				}
			}
		default:
			// a second answer while the first is still unread: the real manager would block
		}
		if (k == evPrevoteAnswer && (e.rlc.PrevoteHashCh == nil || len(e.rlc.PrevoteHashCh) == 0)) ||
			(k == evPrecommitAnswer && (e.rlc.PrecommitHashCh == nil || len(e.rlc.PrecommitHashCh) == 0)) {
			// late or duplicate answer: nobody listens; no source of the select is ready
			e.afterEvent()
			return true
		}
	case evProposal:
		rd.propCount++
		data := "dP"
		if rd.propCount > 1 {
			data = "dQ"
		}
		select {
		case rd.proposalCh <- tmconsensus.Proposal{DataID: data}:
			if !rd.propAnswered {
				rd.propAnswered = true
				rd.propData = data
			}
		default:
		}
		if e.rlc.ProposalCh == nil || len(e.rlc.ProposalCh) == 0 {
			// a second proposal after the first was taken: nobody listens any more
			e.afterEvent()
			return true
		}
	case evFinalization:
		f := e.pendingFin()
		f.answered = true
		fvs := e.vs
		if e.finChoice != nil {
			if prev, ok := e.drv[f.req.Header.Height]; ok {
				fvs = prev // the driver is deterministic: a second request for a height gets the same answer
			} else {
				fvs = e.finChoice(f.req.Header.Height)
				if e.drv == nil {
					e.drv = map[uint64]tmconsensus.ValidatorSet{}
				}
				e.drv[f.req.Header.Height] = fvs
			}
		}
		resp := tmdriver.FinalizeBlockResponse{
			Height:       f.req.Header.Height,
			Round:        f.req.Round,
			BlockHash:    f.req.Header.Hash,
			Validators:   fvs.Validators,
			AppStateHash: []byte("app"),
		}
		select {
		case f.req.Resp <- resp:
		default:
		}
		if e.rlc.FinalizeRespCh == nil || len(e.rlc.FinalizeRespCh) == 0 {
			// response to a request of a round that is gone: nobody listens
			e.afterEvent()
			return true
		}
	case evHeightCommitted:
		en := e.entrances[len(e.entrances)-1]
		close(en.hc)
		if (chan<- struct{})(e.rlc.HeightCommitted) != en.hc {
			e.afterEvent()
			return true
		}
	case evBlockData:
		id := "dA"
		hr := e.cur
		switch verifrt.Choose("arrived-data", 3) {
		case 1:
			id = "dB"
		case 2:
			hr.r++
		}
		e.bdaCh <- tmelink.BlockDataArrival{Height: hr.h, Round: hr.r, ID: id}
	}

	ok := false
	replayedFin := k == evFinalization && rd != nil && rd.catchupCH != nil
	h0 := e.cur.h
	if e.panics("SM:event-handler-panics", func() {
		if fromCatchup {
			// the real catch-up handler; it has to come back to the kernel loop after the
			// finalization it waited for (a handler that keeps looping ignores every live
			// event from then on: the node stops serving)
			if !verifrt.MustReturn("SM:catch-up-handler-returns-to-the-kernel-loop-after-the-finalization", func() {
				ok = e.m.handleCatchupEvent(e.ctx, nil, &e.rlc)
			}) {
				ok = false
			}
		} else {
			ok = e.m.handleLiveEvent(e.ctx, nil, &e.rlc)
		}
	}) {
		// crash freedom is C09's obligation; the path ends here
		e.alive = false
		return false
	}
	if ok && replayedFin && e.strictPanics {
		// the driver finalized a header the mirror had already committed: nothing else
		// can move the state machine on, so it has to enter the next height now
		verifrt.Assert(e.cur.h == h0+1, "SM:finalization-of-a-replayed-header-enters-the-next-height")
	}
	if context.Cause(e.ctx) != nil {
		// the state machine asked the watchdog to terminate the process
		if e.strictPanics {
			verifrt.Fail("SM:state-machine-terminates-the-process-through-the-watchdog")
		}
		ok = false
	} else if !ok && e.strictPanics {
		// no store fails, no strategy error and no cancellation in this environment:
		// a handler that reports failure stops the kernel loop for good
		verifrt.Fail("SM:event-handler-stops-the-state-machine")
	}
	e.alive = ok
	e.afterEvent()
	return ok
}

// afterEvent drains what the state machine sent on buffered channels into the ghost
// history and captures the channels of newly entered rounds.
func (e *vhSM) afterEvent() {
	rd := e.round()
	if rd != nil && rd.prevoteCh == nil && rd.catchupCH == nil && e.alive {
		rd.prevoteCh = e.rlc.PrevoteHashCh
		rd.precommCh = e.rlc.PrecommitHashCh
	}
	mk := func(kind int, result chan tsi.HashSelection) *vhReq {
		r := &vhReq{kind: kind, at: e.cur, result: result, life: e.life, trigTimer: -1, hrOK: true}
		if e.evKind == evTimer {
			r.trigTimer = e.evTimerKind
		}
		if rd != nil {
			r.afterPrevote = e.savedOK('V', e.cur)
			if rd.view != nil {
				r.trigQuorumPV = rd.view.pvAnyQuorum()
				r.trigAnyPV = rd.view.pvPresent()
				r.trigThirdPC = rd.view.pcThird()
			}
			if kind == vhReqDecide {
				r.resultCurrent = rd.precommCh != nil && result == rd.precommCh
			} else {
				r.resultCurrent = rd.prevoteCh != nil && result == rd.prevoteCh
			}
		}
		e.reqs = append(e.reqs, r)
		return r
	}
	phsOK := func(phs []tmconsensus.ProposedHeader) bool {
		for _, ph := range phs {
			if ph.Header.Height != e.cur.h || ph.Round != e.cur.r {
				return false
			}
		}
		return true
	}
	for len(e.cm.ConsiderProposedBlocksRequests) > 0 {
		q := <-e.cm.ConsiderProposedBlocksRequests
		r := mk(vhReqConsider, q.Result)
		r.nPHs = len(q.PHs)
		r.hrOK = phsOK(q.PHs)
	}
	for len(e.cm.ChooseProposedBlockRequests) > 0 {
		q := <-e.cm.ChooseProposedBlockRequests
		r := mk(vhReqChoose, q.Result)
		r.nPHs = len(q.PHs)
		r.hrOK = phsOK(q.PHs)
	}
	for len(e.cm.DecidePrecommitRequests) > 0 {
		q := <-e.cm.DecidePrecommitRequests
		r := mk(vhReqDecide, q.Result)
		if rd != nil && rd.view != nil {
			v := rd.view
			r.vsMatches = verifrt.And(
				verifrt.And(q.VS.AvailablePower == v.avail, q.VS.TotalPrevotePower == v.pvTot),
				verifrt.And(q.VS.TotalPrecommitPower == v.pcTot, q.VS.PrecommitBlockPower["A"] == v.pc[1]))
		}
	}
	for len(e.finReqCh) > 0 {
		q := <-e.finReqCh
		_, _, _, _, ferr := e.fs.LoadFinalizationByHeight(e.ctx, q.Header.Height)
		e.finReqs = append(e.finReqs, &vhFinReq{req: q, at: e.cur, life: e.life, again: ferr == nil})
	}
	for _, en := range e.entrances {
		for en.actions != nil && len(en.actions) > 0 {
			a := <-en.actions
			em := vhEmit{hr: en.hr, index: e.drained}
			e.drained++
			switch {
			case a.PH.Header.Height != 0 || len(a.PH.Signature) > 0:
				em.kind, em.hash, em.sig, em.header = 'P', string(a.PH.Header.Hash), string(a.PH.Signature), a.PH
			case len(a.Prevote.Sig) > 0:
				em.kind, em.hash, em.sig = 'V', a.Prevote.TargetHash, string(a.Prevote.Sig)
			default:
				em.kind, em.hash, em.sig = 'C', a.Precommit.TargetHash, string(a.Precommit.Sig)
			}
			e.emits = append(e.emits, em)
		}
	}
}

// savedOK: a successful save of that kind for the round is in the log.
func (e *vhSM) savedOK(kind byte, hr vhHR) bool {
	for _, s := range e.saves {
		if s.ok && s.kind == kind && s.hr == hr {
			return true
		}
	}
	return false
}

func (e *vhSM) signCount(kind byte, hr vhHR) int {
	n := 0
	for _, s := range e.signs {
		if s.kind == kind && s.hr == hr {
			n++
		}
	}
	return n
}

func (e *vhSM) observeState(label string) {
	verifrt.Observe(label, e.rlc.H, uint64(e.rlc.R), uint64(e.rlc.S), uint64(len(e.entrances)),
		uint64(len(e.reqs)), uint64(len(e.finReqs)), uint64(len(e.signs)), uint64(len(e.emits)),
		uint64(len(e.rt.recs)), uint64(len(e.rt.outstanding())))
}

// ---- coverage bits and the common driver

const (
	vhSeenNextRound = 1 << iota
	vhSeenNextHeight
	vhSeenReplaying
	vhSeenCommitWait
	vhSeenAwaitingFinalization
	vhSeenPrevoteDelay
	vhSeenPrecommitDelay
	vhSeenAwaitingPrevotes
	vhSeenAwaitingPrecommits
	vhSeenStopped
	vhSeenVoteReleased
	vhSeenProposalReleased
)

func (e *vhSM) note(h0 uint64, r0 uint32) {
	switch {
	case !e.alive:
		e.seen |= vhSeenStopped
	case e.rlc.IsReplaying():
		e.seen |= vhSeenReplaying
	default:
		if e.cur.h != h0 {
			e.seen |= vhSeenNextHeight
		} else if e.cur.r != r0 {
			e.seen |= vhSeenNextRound
		}
		switch e.rlc.S {
		case tsi.StepCommitWait:
			e.seen |= vhSeenCommitWait
		case tsi.StepAwaitingFinalization:
			e.seen |= vhSeenAwaitingFinalization
		case tsi.StepPrevoteDelay:
			e.seen |= vhSeenPrevoteDelay
		case tsi.StepPrecommitDelay:
			e.seen |= vhSeenPrecommitDelay
		case tsi.StepAwaitingPrevotes:
			e.seen |= vhSeenAwaitingPrevotes
		case tsi.StepAwaitingPrecommits:
			e.seen |= vhSeenAwaitingPrecommits
		}
	}
	for _, em := range e.emits {
		if em.kind == 'P' {
			e.seen |= vhSeenProposalReleased
		} else {
			e.seen |= vhSeenVoteReleased
		}
	}
}

// run delivers up to n events chosen among kinds, checking the oracle groups after each.
func (e *vhSM) run(groups int, kinds []int, n int) {
	for i := 0; i < n; i++ {
		h0, r0 := e.cur.h, e.cur.r
		ok := e.step(kinds)
		e.check(groups)
		e.note(h0, r0)
		if !ok {
			return
		}
		e.observeState("after-event")
	}
}

func vhOpts() {
	verifrt.Summarize("ByzantineThresholds")
	verifrt.Summarize("SMQuietSendGuardTimers")
}

var vhAllEvents = []int{
	evViewPV, evViewPC, evHeader, evTimer, evPrevoteAnswer, evPrecommitAnswer, evProposal,
	evFinalization, evHeightCommitted, evBlockData, evJumpAhead, evStaleView,
}

// vhTailEvents: the events that carry no new vote numbers (quick tier: last event of a sequence).
var vhTailEvents = []int{
	evHeader, evTimer, evPrevoteAnswer, evPrecommitAnswer, evProposal, evFinalization, evHeightCommitted, evBlockData,
}

// replayingCH: the mirror answered the last round entrance with a committed header.
func (e *vhSM) replayingCH() bool {
	rd := e.round()
	return rd != nil && rd.catchupCH != nil
}

// runSeq: 2 events of any kind, then 1 (quick) / 2 (thorough) events without new vote numbers.
func (e *vhSM) runSeq(groups int) {
	e.run(groups, vhEvents(), 2)
	tail := 1
	if verifrt.Thorough() {
		tail = 2
	}
	if e.alive {
		e.run(groups, vhTailEvents, tail)
	}
}

// runStartAny: after an arbitrary start: 1 event of any kind (thorough: including the
// general view update in which every number may grow and a header may arrive), then
// 1 event without new vote numbers.
func (e *vhSM) runStartAny(groups int) {
	first := vhEvents()
	tail := 1
	if verifrt.Thorough() {
		// (with 2 quiet events after it the thorough tier did not finish within its budget:
		// 88550 paths in 1500 s; the bound was reduced to 1)
		first = append([]int{evView}, first...)
	}
	e.run(groups, first, 1)
	if e.alive {
		e.run(groups, vhTailEvents, tail)
	}
}

// vhEvents: every event kind except the general view update (see runStartAny).
func vhEvents() []int { return vhAllEvents }

// ---- probe API for the engine-level restart harness (C10, package tmengine)

// VHProbe lets a harness outside this package run a real state machine on stores it prepared
// with the real engine code, let it die, and restart it with the genesis the engine hands over.
type VHProbe struct{ e *vhSM }

// VHProbeHashScheme / VHProbeValidators: what the chain of the probe is built on.
func VHProbeHashScheme() tmconsensus.HashScheme { return vhHashScheme{} }
func VHProbeValidators() tmconsensus.ValidatorSet {
	return vkit.ValSet(vkit.OkKeys(2), []uint64{1, 1})
}

func VHNewProbe(g tmconsensus.Genesis, fs *tmmemstore.FinalizationStore) *VHProbe {
	vhOpts()
	e := vhNewSMOn(true, fs, &g)
	e.symEntrances = 0
	e.laterEntrancePHs = true
	return &VHProbe{e: e}
}

// FirstLife starts the state machine and delivers the first n events of [view with new
// precommit numbers, driver finalization, step timer]; it reports where the state machine is
// when the process dies, and whether the finalization of that height is already stored.
func (p *VHProbe) FirstLife(n int) (h uint64, r uint32, finalized, ok bool) {
	e := p.e
	if !e.start() {
		return 0, 0, false, false
	}
	e.check(chkC08)
	script := [][]int{{evViewPC}, {evFinalization}, {evTimer}}
	for i := 0; i < n && i < len(script) && e.alive; i++ {
		e.run(chkC08, script[i], 1)
	}
	if !e.alive {
		return 0, 0, false, false
	}
	_, _, _, _, err := e.fs.LoadFinalizationByHeight(e.ctx, e.cur.h)
	return e.cur.h, e.cur.r, err == nil, true
}

// Restart: a new state machine value on the same stores, given g as its genesis. The restart
// rules of C08 (resume the round, or height+1 round 0 after a stored finalization) are checked.
func (p *VHProbe) Restart(g tmconsensus.Genesis) (up bool, h uint64, r uint32) {
	e := p.e
	e.gen = &g
	up = e.restart()
	if up {
		e.check(chkC08)
	}
	return up, e.cur.h, e.cur.r
}
