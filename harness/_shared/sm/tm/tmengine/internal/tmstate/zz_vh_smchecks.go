package tmstate

// Oracles of the state-machine family, written from the property texts of C08, C02 and
// C12 (first half) over the ghost history kept by the kit. Every check function looks
// only at what was added to the history since it last ran.

import (
	"github.com/gordian-engine/gordian/internal/verifrt"
	"github.com/gordian-engine/gordian/tm/tmengine/internal/tmstate/internal/tsi"
)

// check groups
const (
	chkC08     = 1 << iota // R1-R4, R5 at-most-once / only-when, R6, R7
	chkC08Asap             // R5 "as soon as" clauses
	chkC02Sign             // at most one signature per kind per round
	chkC02Save             // saved before released, at most one release
	chkC12                 // timer discipline
)

type vhCursor struct {
	entr, reqs, fins, emits, signs, timers int
}

func (e *vhSM) countReqs(kind int, hr vhHR) int {
	n := 0
	for _, r := range e.reqs {
		if r.kind == kind && r.at == hr {
			n++
		}
	}
	return n
}

func vhTimedStep(s tsi.Step) bool {
	return s == tsi.StepAwaitingProposal || s == tsi.StepPrevoteDelay ||
		s == tsi.StepPrecommitDelay || s == tsi.StepCommitWait
}

func vhTimerKindOf(s tsi.Step) int {
	switch s {
	case tsi.StepAwaitingProposal:
		return vhTProposal
	case tsi.StepPrevoteDelay:
		return vhTPrevoteDelay
	case tsi.StepPrecommitDelay:
		return vhTPrecommitDelay
	case tsi.StepCommitWait:
		return vhTCommitWait
	}
	return -1
}

// check runs the selected oracle groups over the new part of the history.
func (e *vhSM) check(groups int) {
	c := &e.cursor
	// live: the state machine is voting in a round (not replaying a committed header)
	live := e.alive && !e.rlc.IsReplaying() && !e.replayingCH()

	if groups&chkC08 != 0 {
		for _, en := range e.entrances[c.entr:] {
			if en.first {
				// start-up or restart: the process comes back in the round it had stored
				verifrt.Assert(en.life == 1 || !en.hr.less(en.prev), "R6:restart-does-not-go-back")
				if en.life > 1 {
					if en.prevFinal {
						// the height was finalized before the process died: it is over
						verifrt.Assert(en.hr.h == en.prev.h+1 && en.hr.r == 0, "R2:restart-after-a-stored-finalization-enters-the-next-height-at-round-0")
					} else {
						verifrt.Assert(en.hr == en.prev, "R6:restart-resumes-in-the-round-it-was-in")
					}
				}
				continue
			}
			verifrt.Assert(en.prev.less(en.hr), "R6:entered-rounds-strictly-increase")
			if en.hr.h == en.prev.h {
				verifrt.Assert(en.okRound, "R3:round-left-only-on-nil-quorum/all-present/precommit-delay/jump-ahead")
			} else {
				verifrt.Assert(en.hr.h == en.prev.h+1 && en.hr.r == 0, "R2:next-height-is-h+1-round-0")
				verifrt.Assert(en.okHeight, "R2:next-height-only-after-finalization-stored")
			}
		}
		if e.alive {
			if rd := e.round(); rd != nil && rd.catchupCH != nil {
				// replaying a committed header: the round belongs to the commit, not to the entrance
				verifrt.Assert(e.rlc.H == e.cur.h, "R6:replaying-lifecycle-names-the-height-entered")
			} else {
				verifrt.Assert(e.rlc.H == e.cur.h && e.rlc.R == e.cur.r, "R6:lifecycle-round-is-the-last-entered")
			}
		}
		for _, f := range e.finReqs[c.fins:] {
			verifrt.Assert(!f.again, "R1:no-finalize-request-for-a-height-whose-finalization-is-stored")
			rd := e.rounds[f.at]
			hash := string(f.req.Header.Hash)
			if rd != nil && rd.catchupCH != nil {
				verifrt.Assert(hash == string(rd.catchupCH.Header.Hash) && f.req.Header.Height == rd.catchupCH.Header.Height,
					"R1:catch-up-finalize-is-the-committed-header-supplied")
				continue
			}
			idx := 0
			if hash == "A" {
				idx = 1
			} else if hash == "B" {
				idx = 2
			}
			verifrt.Assert(idx != 0, "R1:finalize-names-a-block")
			verifrt.Assert(f.req.Header.Height == f.at.h && f.req.Round == f.at.r, "R1:finalize-names-the-current-round")
			if idx != 0 && rd != nil && rd.view != nil {
				verifrt.Assert(rd.view.pcQuorumFor(idx), "R1:finalize-only-with-precommit-quorum-for-that-block")
				verifrt.Assert(idx <= rd.view.nPH, "R1:finalized-header-was-shown-by-the-mirror")
			} else {
				verifrt.Fail("R1:finalize-without-a-view-of-the-round")
			}
			verifrt.Assert(e.alive && f.req.Resp == e.rlc.FinalizeRespCh, "R1:finalize-response-channel-is-the-round's")
		}
		for i, r := range e.reqs[c.reqs:] {
			upto := c.reqs + i + 1
			verifrt.Assert(r.hrOK, "R7:strategy-request-names-current-round")
			switch r.kind {
			case vhReqConsider, vhReqChoose:
				verifrt.Assert(r.resultCurrent, "R7:prevote-answer-channel-is-the-current-round's")
				verifrt.Assert(!r.afterPrevote, "R4:no-prevote-decision-asked-after-the-prevote")
				if r.kind == vhReqChoose {
					n := 0
					for _, o := range e.reqs[:upto] {
						if o.kind == vhReqChoose && o.at == r.at && o.life == r.life {
							n++
						}
					}
					verifrt.Assert(n <= 1, "R4:prevote-choice-forced-at-most-once")
					verifrt.Assert(verifrt.Or(r.trigTimer == vhTProposal, r.trigQuorumPV),
						"R4:prevote-choice-forced-only-on-proposal-timeout-or-prevote-quorum")
				} else {
					verifrt.Assert(r.nPHs > 0, "R4:consider-only-with-an-acceptable-proposal")
				}
			case vhReqDecide:
				verifrt.Assert(r.resultCurrent, "R7:precommit-answer-channel-is-the-current-round's")
				n := 0
				for _, o := range e.reqs[:upto] {
					if o.kind == vhReqDecide && o.at == r.at && o.life == r.life {
						n++
					}
				}
				verifrt.Assert(n <= 1, "R5:precommit-decision-asked-at-most-once")
				verifrt.Assert(verifrt.Or(verifrt.Or(r.trigQuorumPV, r.trigThirdPC), r.trigTimer == vhTPrevoteDelay),
					"R5:precommit-decision-asked-only-on-prevote-quorum/prevote-delay/third-precommits")
				verifrt.Assert(r.vsMatches, "R7:precommit-decision-gets-the-current-summary")
			}
		}
		for _, s := range e.signs[c.signs:] {
			verifrt.Assert(s.hr == s.at, "R7:signer-call-names-current-round")
		}
		for _, em := range e.emits[c.emits:] {
			rd := e.rounds[em.hr]
			switch em.kind {
			case 'V':
				verifrt.Assert(rd != nil && rd.pvAnswered && em.hash == rd.pvAnswer, "R7:prevote-target-is-the-strategy's")
			case 'C':
				verifrt.Assert(rd != nil && rd.pcAnswered && em.hash == rd.pcAnswer, "R7:precommit-target-is-the-strategy's")
			case 'P':
				verifrt.Assert(rd != nil && rd.propAnswered && string(em.header.Header.DataID) == rd.propData &&
					em.header.Header.Height == em.hr.h && em.header.Round == em.hr.r, "R7:proposal-is-the-strategy's-for-this-round")
			}
		}
	}

	if groups&chkC08Asap != 0 && live && e.rlc.S < tsi.StepCommitWait {
		rd := e.round()
		if rd != nil && rd.view != nil {
			asked := e.countReqs(vhReqDecide, e.cur) > 0 || e.savedOK('C', e.cur)
			// the label names the step in which the event found the state machine, so that a
			// finding in one handler does not cover the others
			switch e.stepBefore {
			case tsi.StepAwaitingProposal:
				verifrt.Assert(verifrt.Implies(rd.view.pvAnyQuorum(), asked), "R5a:precommit-decision-asked-as-soon-as-prevote-quorum-visible/event-arrived-while-awaiting-the-proposal")
			case tsi.StepAwaitingPrevotes, tsi.StepPrevoteDelay:
				verifrt.Assert(verifrt.Implies(rd.view.pvAnyQuorum(), asked), "R5a:precommit-decision-asked-as-soon-as-prevote-quorum-visible/event-arrived-in-a-prevote-step")
			default:
				verifrt.Assert(verifrt.Implies(rd.view.pvAnyQuorum(), asked), "R5a:precommit-decision-asked-as-soon-as-prevote-quorum-visible/start-up-or-later-step")
			}
			if e.evKind == evTimer && e.evTimerKind == vhTPrevoteDelay && e.evTimerHR == e.cur {
				verifrt.Assert(asked, "R5b:precommit-decision-asked-when-prevote-delay-elapses")
			}
			// the label names the step the state machine is left in, so that a finding in one
			// handler does not cover the others
			switch e.rlc.S {
			case tsi.StepAwaitingPrevotes, tsi.StepPrevoteDelay:
				verifrt.Assert(verifrt.Implies(rd.view.pcThird(), asked), "R5c:precommit-decision-asked-as-soon-as-third-of-precommits-seen/left-in-a-prevote-step")
			case tsi.StepAwaitingProposal:
				verifrt.Assert(verifrt.Implies(rd.view.pcThird(), asked), "R5c:precommit-decision-asked-as-soon-as-third-of-precommits-seen/left-awaiting-proposal")
			default:
				verifrt.Assert(verifrt.Implies(rd.view.pcThird(), asked), "R5c:precommit-decision-asked-as-soon-as-third-of-precommits-seen/left-in-a-precommit-step")
			}
		}
	}

	// release obligations first: a (concrete) signature-count violation ends the path
	if groups&chkC02Save != 0 {
		for i, em := range e.emits[c.emits:] {
			saved := false
			for _, s := range e.saves {
				if s.ok && s.kind == em.kind && s.hr == em.hr && s.sig == em.sig && s.hash == em.hash && s.emittedBefore <= em.index {
					saved = true
				}
			}
			same := true // every release of this kind in this round carries the same signature
			for _, o := range e.emits[:c.emits+i+1] {
				if o.kind == em.kind && o.hr == em.hr && (o.sig != em.sig || o.hash != em.hash) {
					same = false
				}
			}
			switch em.kind {
			case 'P':
				verifrt.Assert(saved, "C02:proposal-saved-before-released")
				verifrt.Assert(same, "C02:one-proposal-signature-released-per-round")
			case 'V':
				verifrt.Assert(saved, "C02:prevote-saved-before-released")
				verifrt.Assert(same, "C02:one-prevote-signature-released-per-round")
			case 'C':
				verifrt.Assert(saved, "C02:precommit-saved-before-released")
				verifrt.Assert(same, "C02:one-precommit-signature-released-per-round")
			}
		}
	}

	if groups&chkC02Sign != 0 {
		for _, s := range e.signs[c.signs:] {
			switch s.kind {
			case 'P':
				verifrt.Assert(e.signCount('P', s.hr) <= 1, "C02:at-most-one-proposal-signed-per-round")
			case 'V':
				verifrt.Assert(e.signCount('V', s.hr) <= 1, "C02:at-most-one-prevote-signed-per-round")
			case 'C':
				verifrt.Assert(e.signCount('C', s.hr) <= 1, "C02:at-most-one-precommit-signed-per-round")
			}
		}
	}
	if groups&chkC12 != 0 {
		for _, t := range e.rt.recs[c.timers:] {
			verifrt.Assert(!t.replacedLive, "C12:replaced-timer-was-cancelled-first")
		}
		if e.alive {
			out := e.rt.outstanding()
			verifrt.Assert(len(out) <= 1, "C12:at-most-one-timer-outstanding")
			if live {
				timed := vhTimedStep(e.rlc.S)
				if timed {
					verifrt.Assert(len(out) >= 1, "C12:timer-armed-while-waiting-in-a-timed-step")
					verifrt.Assert(e.rlc.StepTimer != nil && e.rlc.CancelTimer != nil, "C12:lifecycle-holds-the-timer-in-a-timed-step")
					if len(out) == 1 {
						t := out[0]
						var ch <-chan struct{} = t.ch
						verifrt.Assert(ch == e.rlc.StepTimer && t.kind == vhTimerKindOf(e.rlc.S) && t.hr == e.cur && !t.elapsed,
							"C12:outstanding-timer-is-the-current-step's")
					}
				} else {
					verifrt.Assert(len(out) == 0, "C12:no-timer-outside-timed-steps")
					verifrt.Assert(e.rlc.StepTimer == nil && e.rlc.CancelTimer == nil, "C12:lifecycle-holds-no-timer-outside-timed-steps")
				}
			} else {
				verifrt.Assert(len(out) == 0, "C12:no-timer-while-replaying")
			}
		}
	}

	c.entr, c.reqs, c.fins, c.emits, c.signs, c.timers =
		len(e.entrances), len(e.reqs), len(e.finReqs), len(e.emits), len(e.signs), len(e.rt.recs)
}
