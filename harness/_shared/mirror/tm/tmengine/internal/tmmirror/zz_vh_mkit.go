package tmmirror

// Shared mirror harness kit (overlay only): a real Mirror (real kernel goroutine, shipped
// in-memory stores) over keys whose signature verification is an uninterpreted predicate.

import (
	"context"
	"runtime"
	"time"

	"github.com/gordian-engine/gordian/gcrypto"
	"github.com/gordian-engine/gordian/gwatchdog"
	"github.com/gordian-engine/gordian/internal/verifrt"
	"github.com/gordian-engine/gordian/internal/verifrt/vkit"
	"github.com/gordian-engine/gordian/tm/tmconsensus"
	"github.com/gordian-engine/gordian/tm/tmengine/internal/tmeil"
	"github.com/gordian-engine/gordian/tm/tmengine/tmelink"
	"github.com/gordian-engine/gordian/tm/tmstore"
	"github.com/gordian-engine/gordian/tm/tmstore/tmmemstore"
)

type vhM struct {
	ctx  context.Context
	m    *Mirror
	n    int
	keys []gcrypto.PubKey
	pows []uint64
	vs   tmconsensus.ValidatorSet

	ms  *tmmemstore.MirrorStore
	hs  *tmmemstore.CommittedHeaderStore
	rs  *tmmemstore.RoundStore
	vst *tmmemstore.ValidatorStore

	gossipOut chan tmelink.NetworkViewUpdate
	smOut     chan tmeil.StateMachineRoundView
	smIn      chan tmeil.StateMachineRoundEntrance
	replayIn  chan tmelink.ReplayedHeaderRequest
	fetchReq  chan tmelink.ProposedHeaderFetchRequest
	fetched   chan tmconsensus.ProposedHeader

	initialHeight uint64
	hsch          vkit.HashScheme
	unbufferedOut bool     // view outputs unbuffered, as tmengine wires them (consumers can stall)
	crash         *vhCrash // non-nil: stores are wrapped and "the process stops" after the k-th store write
	cmsp          gcrypto.CommonMessageSignatureProofScheme // nil: the simple (non-aggregating) scheme
}

// vhCrash counts mutating store calls; the crashAt-th one is performed and then the calling
// goroutine (the kernel) is frozen for ever: nothing after that write happens in the old
// process. crashed is closed at that moment.
type vhCrash struct {
	writes  int
	crashAt int // 0 = never
	crashed chan struct{}
	never   chan struct{}
	hit     bool
	armed   bool // writes are only counted once the process is up (start-up writes are not crash points here)
}

func newCrash(at int) *vhCrash {
	return &vhCrash{crashAt: at, crashed: make(chan struct{}), never: make(chan struct{})}
}

func (c *vhCrash) wrote() {
	if !c.armed {
		return
	}
	c.writes++
	if c.crashAt != 0 && c.writes == c.crashAt {
		c.hit = true
		close(c.crashed)
		<-c.never
	}
}

type vhCrashMirrorStore struct {
	*tmmemstore.MirrorStore
	c *vhCrash
}

func (w vhCrashMirrorStore) SetNetworkHeightRound(ctx context.Context, vh uint64, vr uint32, ch uint64, cr uint32) error {
	err := w.MirrorStore.SetNetworkHeightRound(ctx, vh, vr, ch, cr)
	w.c.wrote()
	return err
}

type vhCrashHeaderStore struct {
	*tmmemstore.CommittedHeaderStore
	c *vhCrash
}

func (w vhCrashHeaderStore) SaveCommittedHeader(ctx context.Context, ch tmconsensus.CommittedHeader) error {
	err := w.CommittedHeaderStore.SaveCommittedHeader(ctx, ch)
	w.c.wrote()
	return err
}

type vhCrashRoundStore struct {
	*tmmemstore.RoundStore
	c *vhCrash
}

func (w vhCrashRoundStore) SaveRoundProposedHeader(ctx context.Context, ph tmconsensus.ProposedHeader) error {
	err := w.RoundStore.SaveRoundProposedHeader(ctx, ph)
	w.c.wrote()
	return err
}
func (w vhCrashRoundStore) SaveRoundReplayedHeader(ctx context.Context, h tmconsensus.Header) error {
	err := w.RoundStore.SaveRoundReplayedHeader(ctx, h)
	w.c.wrote()
	return err
}
func (w vhCrashRoundStore) OverwriteRoundPrevoteProofs(ctx context.Context, h uint64, r uint32, p tmconsensus.SparseSignatureCollection) error {
	err := w.RoundStore.OverwriteRoundPrevoteProofs(ctx, h, r, p)
	w.c.wrote()
	return err
}
func (w vhCrashRoundStore) OverwriteRoundPrecommitProofs(ctx context.Context, h uint64, r uint32, p tmconsensus.SparseSignatureCollection) error {
	err := w.RoundStore.OverwriteRoundPrecommitProofs(ctx, h, r, p)
	w.c.wrote()
	return err
}

// vhNewMirror starts a real mirror at genesis over the given keys and powers.
func vhNewMirror(keys []gcrypto.PubKey, pows []uint64, initialHeight uint64) *vhM {
	return vhNewMirrorHS(keys, pows, initialHeight, vkit.HashScheme{})
}

func vhNewMirrorHS(keys []gcrypto.PubKey, pows []uint64, initialHeight uint64, hs vkit.HashScheme) *vhM {
	e := &vhM{ctx: context.Background(), n: len(keys), keys: keys, pows: pows, initialHeight: initialHeight, hsch: hs}
	e.vs = vkit.ValSetHS(keys, pows, hs)
	e.ms = tmmemstore.NewMirrorStore()
	e.hs = tmmemstore.NewCommittedHeaderStore()
	e.rs = tmmemstore.NewRoundStore()
	e.vst = tmmemstore.NewValidatorStore(e.hsch)
	if err := e.restart(); err != nil {
		panic(err)
	}
	return e
}

// restart builds a new Mirror (and kernel) on the same stores.
func (e *vhM) restart() error {
	e.gossipOut = make(chan tmelink.NetworkViewUpdate, 64)
	e.smOut = make(chan tmeil.StateMachineRoundView, 64)
	if e.unbufferedOut {
		e.gossipOut = make(chan tmelink.NetworkViewUpdate)
		e.smOut = make(chan tmeil.StateMachineRoundView)
	}
	e.smIn = make(chan tmeil.StateMachineRoundEntrance)
	e.replayIn = make(chan tmelink.ReplayedHeaderRequest)
	e.fetchReq = make(chan tmelink.ProposedHeaderFetchRequest, 8)
	e.fetched = make(chan tmconsensus.ProposedHeader)
	var mst tmstore.MirrorStore = e.ms
	var hst tmstore.CommittedHeaderStore = e.hs
	var rst tmstore.RoundStore = e.rs
	if e.crash != nil {
		mst = vhCrashMirrorStore{e.ms, e.crash}
		hst = vhCrashHeaderStore{e.hs, e.crash}
		rst = vhCrashRoundStore{e.rs, e.crash}
	}
	var cmsp gcrypto.CommonMessageSignatureProofScheme = gcrypto.SimpleCommonMessageSignatureProofScheme{}
	if e.cmsp != nil {
		cmsp = e.cmsp
	}
	m, err := NewMirror(e.ctx, verifrt.Logger(), MirrorConfig{
		Store:                mst,
		CommittedHeaderStore: hst,
		RoundStore:           rst,
		ValidatorStore:       e.vst,

		InitialHeight:       e.initialHeight,
		InitialValidatorSet: e.vs,

		HashScheme:                        e.hsch,
		SignatureScheme:                   vkit.SigScheme{},
		CommonMessageSignatureProofScheme: cmsp,

		ProposedHeaderFetcher: tmelink.ProposedHeaderFetcher{
			FetchRequests:          e.fetchReq,
			FetchedProposedHeaders: e.fetched,
		},

		ReplayedHeadersIn: e.replayIn,
		GossipStrategyOut: e.gossipOut,

		StateMachineRoundEntranceIn: e.smIn,
		StateMachineRoundViewOut:    e.smOut,

		Watchdog: &gwatchdog.Watchdog{},
	})
	if err != nil {
		return err
	}
	e.m = m
	return nil
}

// vhViewDigest is what "unchanged" means for a view: version and the signer sets per target.
type vhViewDigest struct {
	h       uint64
	r       uint32
	version uint32
	nPH     int
	prevote map[string]uint64
	precom  map[string]uint64
}

func bitsOf(p gcrypto.CommonMessageSignatureProof, n int) uint64 {
	var w uint64
	for i := 0; i < n; i++ {
		has, _ := p.HasSparseKeyID(vkit.KeyID(i))
		if has {
			w |= 1 << uint(i)
		}
	}
	return w
}

func (e *vhM) digest(v *tmconsensus.VersionedRoundView) vhViewDigest {
	d := vhViewDigest{h: v.Height, r: v.Round, version: v.Version, nPH: len(v.ProposedHeaders),
		prevote: map[string]uint64{}, precom: map[string]uint64{}}
	for h, p := range v.PrevoteProofs {
		d.prevote[h] = bitsOf(p, e.n)
	}
	for h, p := range v.PrecommitProofs {
		d.precom[h] = bitsOf(p, e.n)
	}
	return d
}

func sameSigners(a, b map[string]uint64) bool {
	if len(a) != len(b) {
		return false
	}
	for k, v := range a {
		if w, ok := b[k]; !ok || w != v {
			return false
		}
	}
	return true
}

func (a vhViewDigest) same(b vhViewDigest) bool {
	return a.h == b.h && a.r == b.r && a.version == b.version && a.nPH == b.nPH &&
		sameSigners(a.prevote, b.prevote) && sameSigners(a.precom, b.precom)
}

// views returns digests of the voting and committing views through the public snapshot API.
func (e *vhM) views() (voting, committing vhViewDigest) {
	var v, c tmconsensus.VersionedRoundView
	if err := e.m.VotingView(e.ctx, &v); err != nil {
		verifrt.Fail("kit:voting-view-unavailable")
	}
	if err := e.m.CommittingView(e.ctx, &c); err != nil {
		verifrt.Fail("kit:committing-view-unavailable")
	}
	return e.digest(&v), e.digest(&c)
}

// verifyViewSignatures re-verifies every signature found in a view through the same
// verification predicate, for exactly the kind/height/round/hash it is filed under.
func (e *vhM) verifyViewSignatures(tag string, v *tmconsensus.VersionedRoundView) {
	e.verifyViewSignaturesWith(tag, v, e.keys)
}

// verifyViewSignaturesWith verifies under the given member keys (the set the chain prescribes
// for the view's height).
func (e *vhM) verifyViewSignaturesWith(tag string, v *tmconsensus.VersionedRoundView, keys []gcrypto.PubKey) {
	check := func(kind string, precommit bool, proofs map[string]gcrypto.CommonMessageSignatureProof) {
		for hash, p := range proofs {
			var content []byte
			if precommit {
				content = vkit.PrecommitContent(v.Height, v.Round, hash)
			} else {
				content = vkit.PrevoteContent(v.Height, v.Round, hash)
			}
			for _, sg := range p.AsSparse().Signatures {
				okID := len(sg.KeyID) == 2 && int(sg.KeyID[0])<<8|int(sg.KeyID[1]) < len(keys)
				verifrt.Assert(okID, tag+":"+kind+"-signature-key-id-is-a-member")
				if !okID {
					continue
				}
				id := int(sg.KeyID[0])<<8 | int(sg.KeyID[1])
				verifrt.Assert(keys[id].Verify(content, sg.Sig), tag+":"+kind+"-signature-verifies-for-its-target")
			}
		}
	}
	check("prevote", false, v.PrevoteProofs)
	check("precommit", true, v.PrecommitProofs)
}

// verifyStoredSignatures does the same for what the round store holds for (h,r).
func (e *vhM) verifyStoredSignatures(tag string, h uint64, r uint32) {
	_, prevotes, precommits, err := e.rs.LoadRoundState(e.ctx, h, r)
	if err != nil {
		return
	}
	check := func(kind string, precommit bool, c tmconsensus.SparseSignatureCollection) {
		for hash, sigs := range c.BlockSignatures {
			var content []byte
			if precommit {
				content = vkit.PrecommitContent(h, r, hash)
			} else {
				content = vkit.PrevoteContent(h, r, hash)
			}
			for _, sg := range sigs {
				okID := len(sg.KeyID) == 2 && int(sg.KeyID[0])<<8|int(sg.KeyID[1]) < e.n
				verifrt.Assert(okID, tag+":stored-"+kind+"-key-id-is-a-member")
				if !okID {
					continue
				}
				id := int(sg.KeyID[0])<<8 | int(sg.KeyID[1])
				verifrt.Assert(e.keys[id].Verify(content, sg.Sig), tag+":stored-"+kind+"-signature-verifies-for-its-target")
			}
		}
	}
	check("prevote", false, prevotes)
	check("precommit", true, precommits)
}

// vhOffer builds one sparse signature whose key id is chosen among: a member index,
// an out-of-range index, a 1-byte id, a 3-byte id. It returns the member index (or -1).
func vhOffer(n int, tag byte) (gcrypto.SparseSignature, int) {
	c := verifrt.Choose("keyid", n+3)
	switch {
	case c < n:
		return gcrypto.SparseSignature{KeyID: vkit.KeyID(c), Sig: vkit.Sig(byte(c), tag)}, c
	case c == n:
		return gcrypto.SparseSignature{KeyID: vkit.KeyID(n + 5), Sig: vkit.Sig(99, tag)}, -1
	case c == n+1:
		return gcrypto.SparseSignature{KeyID: []byte{0}, Sig: vkit.Sig(98, tag)}, -1
	default:
		return gcrypto.SparseSignature{KeyID: []byte{0, 0, 0}, Sig: vkit.Sig(97, tag)}, -1
	}
}


func newStores(hs vkit.HashScheme) (*tmmemstore.MirrorStore, *tmmemstore.CommittedHeaderStore, *tmmemstore.RoundStore, *tmmemstore.ValidatorStore) {
	return tmmemstore.NewMirrorStore(), tmmemstore.NewCommittedHeaderStore(), tmmemstore.NewRoundStore(), tmmemstore.NewValidatorStore(hs)
}

// vhValidSigs builds sparse signatures of the given signers, assumed authentic.
func vhValidSigs(keys []gcrypto.PubKey, content []byte, signers int, tag byte) []gcrypto.SparseSignature {
	var sigs []gcrypto.SparseSignature
	for i := range keys {
		if signers&(1<<uint(i)) == 0 {
			continue
		}
		sig := vkit.Sig(byte(i), tag)
		verifrt.Assume(keys[i].Verify(content, sig))
		sigs = append(sigs, gcrypto.SparseSignature{KeyID: vkit.KeyID(i), Sig: sig})
	}
	return sigs
}


// tryRecvGossip / tryRecvSM: a receive that does not wait for ever. Under the symbolic executor
// the kernel goroutine is parked in its select whenever the harness runs, so a non-blocking
// receive is exact; natively a short wait gives the kernel goroutine time to get there.
func (e *vhM) tryRecvGossip() (tmelink.NetworkViewUpdate, bool) {
	if verifrt.Symbolic() {
		runtime.Gosched() // let the kernel goroutine reach its select
		select {
		case u := <-e.gossipOut:
			return u, true
		default:
			return tmelink.NetworkViewUpdate{}, false
		}
	}
	select {
	case u := <-e.gossipOut:
		return u, true
	case <-time.After(150 * time.Millisecond):
		return tmelink.NetworkViewUpdate{}, false
	}
}

func (e *vhM) tryRecvSM() (tmeil.StateMachineRoundView, bool) {
	if verifrt.Symbolic() {
		runtime.Gosched()
		select {
		case u := <-e.smOut:
			return u, true
		default:
			return tmeil.StateMachineRoundView{}, false
		}
	}
	select {
	case u := <-e.smOut:
		return u, true
	case <-time.After(150 * time.Millisecond):
		return tmeil.StateMachineRoundView{}, false
	}
}


// verifyPrevCommitProof: the previous-commit proof a view carries verifies, under the given
// keys, as precommits for (height-1, proof round, hash).
func (e *vhM) verifyPrevCommitProof(tag string, v *tmconsensus.VersionedRoundView, keys []gcrypto.PubKey) {
	if v.Height <= e.initialHeight {
		return
	}
	for hash, sigs := range v.PrevCommitProof.Proofs {
		content := vkit.PrecommitContent(v.Height-1, v.PrevCommitProof.Round, hash)
		for _, sg := range sigs {
			okID := len(sg.KeyID) == 2 && int(sg.KeyID[0])<<8|int(sg.KeyID[1]) < len(keys)
			verifrt.Assert(okID, tag+":prev-commit-signature-key-id-is-a-member")
			if !okID {
				continue
			}
			id := int(sg.KeyID[0])<<8 | int(sg.KeyID[1])
			verifrt.Assert(keys[id].Verify(content, sg.Sig), tag+":prev-commit-signature-verifies-for-its-target")
		}
	}
}

// verifyGossip drains everything offered to the gossip strategy and re-verifies every vote
// signature and previous-commit proof in every view of every update.
func (e *vhM) verifyGossip(tag string) int {
	n := 0
	for i := 0; i < 64; i++ {
		u, ok := e.tryRecvGossip()
		if !ok {
			return n
		}
		n++
		for _, v := range []*tmconsensus.VersionedRoundView{u.Committing, u.Voting, u.NextRound, u.NilVotedRound} {
			if v != nil {
				e.verifyViewSignatures(tag+":gossip", v)
				e.verifyPrevCommitProof(tag+":gossip", v, e.keys)
			}
		}
	}
	return n
}
