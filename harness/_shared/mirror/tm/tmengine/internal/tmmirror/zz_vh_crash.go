package tmmirror

import (
	"github.com/gordian-engine/gordian/gcrypto"
	"github.com/gordian-engine/gordian/internal/verifrt"
	"github.com/gordian-engine/gordian/internal/verifrt/vkit"
	"github.com/gordian-engine/gordian/tm/tmconsensus"
)

// ---- the message history (all messages valid; authenticity is C05's subject)

type vhMsg struct {
	ph        *tmconsensus.ProposedHeader
	precommit *tmconsensus.PrecommitSparseProof
	prevote   *tmconsensus.PrevoteSparseProof
}

func (e *vhM) deliver(msg vhMsg) {
	switch {
	case msg.ph != nil:
		r := e.m.HandleProposedHeader(e.ctx, *msg.ph)
		_ = r
	case msg.precommit != nil:
		r := e.m.HandlePrecommitProofs(e.ctx, *msg.precommit)
		_ = r
	case msg.prevote != nil:
		r := e.m.HandlePrevoteProofs(e.ctx, *msg.prevote)
		_ = r
	}
}

// deliverMaybeCrash delivers msg on its own goroutine and returns when the handler returned or
// the process "stopped" at the injected crash point, whichever comes first.
func (e *vhM) deliverMaybeCrash(msg vhMsg) (crashed bool) {
	done := make(chan struct{})
	go func() {
		e.deliver(msg)
		close(done)
	}()
	select {
	case <-done:
		return false
	case <-e.crash.crashed:
		return true
	}
}

type vhFinal struct {
	vh, ch uint64
	vr, cr uint32
	hash1  string
	valset string
	nPH    int
	prevoteA, precommitNil uint64
	// the previous-commit proof the voting view carries (what a proposer at this node would put
	// into the next header): round, validator-set hash, per committed hash the number of signatures
	prevProof string
}

func (e *vhM) final(tag string) vhFinal {
	var v, c tmconsensus.VersionedRoundView
	verifrt.Assert(e.m.VotingView(e.ctx, &v) == nil, tag+":kernel-serves")
	verifrt.Assert(e.m.CommittingView(e.ctx, &c) == nil, tag+":kernel-serves")
	f := vhFinal{vh: v.Height, vr: v.Round, ch: c.Height, cr: c.Round, nPH: len(v.ProposedHeaders)}
	if ch, err := e.hs.LoadCommittedHeader(e.ctx, 1); err == nil {
		f.hash1 = string(ch.Header.Hash)
	}
	f.valset = string(v.ValidatorSet.PubKeyHash) + "/" + string(v.ValidatorSet.VotePowerHash)
	for _, val := range v.ValidatorSet.Validators {
		f.valset += "/" + string(val.PubKey.PubKeyBytes()) + ":" + string(rune('0'+val.Power))
	}
	if p := v.PrevoteProofs["B"]; p != nil {
		f.prevoteA = bitsOf(p, e.n)
	}
	if p := v.PrecommitProofs[""]; p != nil {
		f.precommitNil = bitsOf(p, e.n)
	}
	f.prevProof = string(rune('0'+v.PrevCommitProof.Round)) + "/" + v.PrevCommitProof.PubKeyHash
	for _, h := range []string{"A", "B", "g", ""} {
		if sigs, ok := v.PrevCommitProof.Proofs[h]; ok {
			f.prevProof += "/" + h + ":" + string(rune('0'+len(sigs)))
		}
	}
	return f
}

// vhHistory: proposed header A at height 1 (prescribing a different validator set for height
// 2), a precommit quorum for A (commit), then at height 2 a proposed header B and a prevote.
func vhHistory(e *vhM, next tmconsensus.ValidatorSet, kind int) []vhMsg {
	if kind == 1 {
		return vhHistoryNilRound(e, next)
	}
	keys := e.keys
	verifrt.Assume(verifrt.UFBool("hashok", vkit.Pack([]byte("A")), 1))
	verifrt.Assume(verifrt.UFBool("hashok", vkit.Pack([]byte("B")), 2))
	verifrt.Assume(keys[0].Verify([]byte{'P', 0, 1, 0, 'A'}, []byte("psA")))
	phA := tmconsensus.ProposedHeader{
		Header: tmconsensus.Header{Hash: []byte("A"), PrevBlockHash: []byte("g"), Height: 1,
			ValidatorSet: e.vs, NextValidatorSet: next, DataID: []byte("d"),
			PrevCommitProof: tmconsensus.CommitProof{Proofs: map[string][]gcrypto.SparseSignature{}}},
		Round: 0, ProposerPubKey: keys[0], Signature: []byte("psA"),
	}
	pcA := tmconsensus.PrecommitSparseProof{Height: 1, Round: 0, PubKeyHash: string(e.vs.PubKeyHash),
		Proofs: map[string][]gcrypto.SparseSignature{"A": vhValidSigs(keys, vkit.PrecommitContent(1, 0, "A"), 3, 1)}}
	// height 2 is voted by the next set
	nk := next.PubKeys
	pvB := tmconsensus.PrevoteSparseProof{Height: 2, Round: 0, PubKeyHash: string(next.PubKeyHash),
		Proofs: map[string][]gcrypto.SparseSignature{"B": vhValidSigs(nk, vkit.PrevoteContent(2, 0, "B"), 1, 2)}}
	return []vhMsg{{ph: &phA}, {precommit: &pcA}, {prevote: &pvB}}
}

// vhHistoryNilRound: round 0 of height 1 ends in a nil-precommit majority; the block is then
// proposed and committed in round 1; a prevote follows at height 2.
func vhHistoryNilRound(e *vhM, next tmconsensus.ValidatorSet) []vhMsg {
	keys := e.keys
	verifrt.Assume(verifrt.UFBool("hashok", vkit.Pack([]byte("A")), 1))
	verifrt.Assume(keys[0].Verify([]byte{'P', 0, 1, 1, 'A'}, []byte("psA")))
	pcNil := tmconsensus.PrecommitSparseProof{Height: 1, Round: 0, PubKeyHash: string(e.vs.PubKeyHash),
		Proofs: map[string][]gcrypto.SparseSignature{"": vhValidSigs(keys, vkit.PrecommitContent(1, 0, ""), 3, 4)}}
	phA := tmconsensus.ProposedHeader{
		Header: tmconsensus.Header{Hash: []byte("A"), PrevBlockHash: []byte("g"), Height: 1,
			ValidatorSet: e.vs, NextValidatorSet: next, DataID: []byte("d"),
			PrevCommitProof: tmconsensus.CommitProof{Proofs: map[string][]gcrypto.SparseSignature{}}},
		Round: 1, ProposerPubKey: keys[0], Signature: []byte("psA"),
	}
	pcA := tmconsensus.PrecommitSparseProof{Height: 1, Round: 1, PubKeyHash: string(e.vs.PubKeyHash),
		Proofs: map[string][]gcrypto.SparseSignature{"A": vhValidSigs(keys, vkit.PrecommitContent(1, 1, "A"), 3, 1)}}
	nk := next.PubKeys
	pvB := tmconsensus.PrevoteSparseProof{Height: 2, Round: 0, PubKeyHash: string(next.PubKeyHash),
		Proofs: map[string][]gcrypto.SparseSignature{"B": vhValidSigs(nk, vkit.PrevoteContent(2, 0, "B"), 1, 2)}}
	return []vhMsg{{precommit: &pcNil}, {ph: &phA}, {precommit: &pcA}, {prevote: &pvB}}
}

// VH_C10_CrashRestart: the history is delivered to a real mirror on the shipped in-memory
// stores; the process stops right after the k-th store write (every k, and k=0 for "after a
// handled message" restarts), a new mirror is started on the same stores, the interrupted
// message is delivered again and the history continues. Restart must succeed; the position must
// not be behind the durable record; and the final committed chain, voting position and
// validator set must equal those of the run without a stop.
// vhCrashRestart is shared with C04 (chain obligations across restarts).
func vhCrashRestart(tag string) {
	n := 2
	kind := verifrt.Choose("history", 2)
	hs := vkit.HashScheme{PowerSensitive: true}
	keys := vkit.Keys(0, n)
	next := vkit.ValSetHS(vkit.Keys(1, n), []uint64{2, 3}, hs)

	// reference run without a stop
	ref := vhNewMirrorHS(keys, []uint64{1, 1}, 1, hs)
	var wantAfter []vhFinal // the reference position after each message
	for _, msg := range vhHistory(ref, next, kind) {
		ref.deliver(msg)
		wantAfter = append(wantAfter, ref.final(tag))
	}
	want := ref.final(tag)
	verifrt.Assert(want.vh == 2 && want.hash1 == "A", tag+":setup-reference-run-commits-height-1")

	// run with a stop after the k-th store write, or a clean restart after message r
	e := &vhM{ctx: ref.ctx, n: n, keys: keys, pows: []uint64{1, 1}, initialHeight: 1, hsch: hs}
	e.vs = vkit.ValSetHS(keys, e.pows, hs)
	e.ms, e.hs, e.rs, e.vst = newStores(hs)
	k := verifrt.Choose("crash-after-write", 10) // 0 = no crash inside a handler
	e.crash = newCrash(k)
	if err := e.restart(); err != nil {
		verifrt.Fail(tag+":initial-start-failed")
		return
	}
	e.crash.armed = true
	cleanRestartAfter := -1
	if k == 0 {
		cleanRestartAfter = verifrt.Choose("restart-after-message", 5) - 1 // -1 = never
	}
	hist := vhHistory(e, next, kind)
	for i := 0; i < len(hist); i++ {
		crashed := e.deliverMaybeCrash(hist[i])
		if crashed || i == cleanRestartAfter {
			if crashed {
				verifrt.Reach("stopped-inside-handler")
			} else {
				verifrt.Reach("restarted-between-messages")
			}
			dvh, dvr, dch, dcr, derr := e.ms.NetworkHeightRound(e.ctx)
			e.crash = newCrash(0)
			var err error
			ok := verifrt.NoPanic(tag+":restart-panics", func() { err = e.restart() })
			if !ok {
				return
			}
			verifrt.Assert(err == nil, tag+":restart-returns-error")
			if err != nil {
				return
			}
			var v, c tmconsensus.VersionedRoundView
			verifrt.Assert(e.m.VotingView(e.ctx, &v) == nil && e.m.CommittingView(e.ctx, &c) == nil, tag+":kernel-serves-after-restart")
			if derr == nil {
				notBehind := (v.Height > dvh || (v.Height == dvh && v.Round >= dvr)) && (c.Height > dch || (c.Height == dch && c.Round >= dcr))
				verifrt.Assert(notBehind, tag+":position-not-behind-durable-record")
			}
			keysFor := func(h uint64) []gcrypto.PubKey {
				if h >= 2 {
					return next.PubKeys
				}
				return keys
			}
			e.verifyViewSignaturesWith(tag+":resumed-voting", &v, keysFor(v.Height))
			e.verifyViewSignaturesWith(tag+":resumed-committing", &c, keysFor(c.Height))
			// Everything sent so far is delivered again (the network re-gossips what it has; a
			// message answered "accepted" may not have been persisted yet when the process stopped).
			for j := 0; j <= i; j++ {
				e.deliver(hist[j])
			}
			cleanRestartAfter = -1
			// with the in-flight messages delivered again the node is where it would have been
			now := e.final(tag)
			w := wantAfter[i]
			verifrt.Assert(now.vh == w.vh && now.vr == w.vr && now.ch == w.ch && now.cr == w.cr, tag+":same-position-after-redelivery-as-without-stop")
		}
	}
	got := e.final(tag)
	verifrt.Reach("history-finished")
	verifrt.Observe("final", got.vh, uint64(got.vr), got.ch, uint64(got.cr))
	verifrt.Assert(got.hash1 == want.hash1, tag+":same-committed-chain")
	verifrt.Assert(got.vh == want.vh && got.vr == want.vr && got.ch == want.ch && got.cr == want.cr, tag+":same-position-as-without-stop")
	verifrt.Assert(got.valset == want.valset, tag+":same-validator-set-as-without-stop")
	verifrt.Assert(got.prevoteA == want.prevoteA, tag+":same-votes-as-without-stop")
	verifrt.Assert(got.prevProof == want.prevProof, tag+":same-previous-commit-proof-in-the-voting-view-as-without-stop")
}
