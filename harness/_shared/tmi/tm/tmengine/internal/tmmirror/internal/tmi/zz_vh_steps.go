package tmi

import (
	"bytes"

	"github.com/gordian-engine/gordian/gcrypto"
	"github.com/gordian-engine/gordian/internal/verifrt"
	"github.com/gordian-engine/gordian/tm/tmconsensus"
)

// ---- snapshot of what C04 talks about

type vhChainSnap struct {
	vh, ch uint64
	vr, cr uint32
	stored map[uint64]string // height -> committed hash
	chash  string            // committing header hash
}

func (e *vhEnv) snap(maxH uint64) vhChainSnap {
	sn := vhChainSnap{
		vh: e.s.Voting.Height, vr: e.s.Voting.Round,
		ch: e.s.Committing.Height, cr: e.s.Committing.Round,
		stored: map[uint64]string{},
		chash:  string(e.s.CommittingHeader.Hash),
	}
	for h := e.initialHeight; h <= maxH; h++ {
		if c, err := e.hs.LoadCommittedHeader(e.ctx, h); err == nil {
			sn.stored[h] = string(c.Header.Hash)
		}
	}
	return sn
}

// checkChain asserts the C04 obligations between two consecutive snapshots.
func (e *vhEnv) checkChain(tag string, before vhChainSnap, maxH uint64) vhChainSnap {
	after := e.snap(maxH)
	// voting height one above committing height (or no committing view yet at the initial height)
	inv := verifrt.Or(
		verifrt.And(after.ch == 0, after.vh == e.initialHeight),
		verifrt.And(after.ch >= e.initialHeight, after.vh == after.ch+1))
	verifrt.Assert(inv, "C04:"+tag+":voting-is-one-above-committing")
	verifrt.Assert(verifrt.And(e.s.NextRound.Height == after.vh, e.s.NextRound.Round == after.vr+1), "C04:"+tag+":next-round-follows-voting")
	// never backwards
	fw := verifrt.Or(after.vh > before.vh, verifrt.And(after.vh == before.vh, after.vr >= before.vr))
	verifrt.Assert(fw, "C04:"+tag+":voting-position-never-moves-backwards")
	verifrt.Assert(verifrt.Or(after.vh == before.vh, after.vh == before.vh+1), "C04:"+tag+":heights-advance-one-at-a-time")
	// durable position equals in-memory position
	svh, svr, sch, scr, err := e.ms.NetworkHeightRound(e.ctx)
	verifrt.Assert(err == nil, "C04:"+tag+":mirror-store-readable")
	verifrt.Assert(verifrt.And(verifrt.And(svh == after.vh, svr == after.vr), verifrt.And(sch == after.ch, scr == after.cr)),
		"C04:"+tag+":mirror-store-matches-position")
	// committed hashes never change, no gaps
	for h, hash := range before.stored {
		verifrt.Assert(after.stored[h] == hash, "C04:"+tag+":committed-hash-immutable")
	}
	for h := range after.stored {
		if _, had := before.stored[h]; !had {
			verifrt.Reach("new-commit")
			verifrt.Assert(h == before.vh, "C04:"+tag+":new-commit-is-at-old-voting-height")
			if h > e.initialHeight {
				c, _ := e.hs.LoadCommittedHeader(e.ctx, h)
				verifrt.Assert(string(c.Header.PrevBlockHash) == before.chash, "C04:"+tag+":hash-linked-to-previous-commit")
			}
		}
		if h > e.initialHeight {
			_, ok := after.stored[h-1]
			verifrt.Assert(ok, "C04:"+tag+":no-gap-below-a-committed-height")
		}
	}
	if after.ch > 0 {
		verifrt.Assert(after.stored[after.ch] == after.chash, "C04:"+tag+":committing-header-is-the-stored-one")
	}
	return after
}

// grow returns a proof for (kind, hash) in vrv extended by the signers in add.
func (e *vhEnv) grow(vrv *tmconsensus.VersionedRoundView, precommit bool, hash string, add int) gcrypto.CommonMessageSignatureProof {
	var existing gcrypto.CommonMessageSignatureProof
	if precommit {
		existing = vrv.PrecommitProofs[hash]
	} else {
		existing = vrv.PrevoteProofs[hash]
	}
	if existing == nil {
		return e.voteProof(precommit, vrv.Height, vrv.Round, hash, add)
	}
	p := existing.Clone()
	for i := 0; i < e.n; i++ {
		if add&(1<<uint(i)) != 0 {
			_ = p.AddSignature([]byte{'s', byte(i), 0}, e.keys[i])
		}
	}
	return p
}

// linkedHeader is a header the mirror layer would let through at the given height:
// it names the committing header's hash as predecessor (the mirror checks that against the
// kernel's PHCheckResponse before calling addProposedHeader).
func (e *vhEnv) linkedProposed(tag string, h uint64, r uint32, proposer int) tmconsensus.ProposedHeader {
	ph := e.proposed(tag, h, r, proposer, e.vs)
	ph.Header.PrevBlockHash = bytes.Clone(e.s.CommittingHeader.Hash)
	return ph
}

// vhStep performs one kernel entry whose height/round are symbolic (anywhere relative to the
// node: before committing, committing, voting, next round, future), content chosen.
// guard runs f; in crash-checking mode (C09) a panic is a violation, otherwise it is only
// reported to the caller (the chain obligations are then skipped for this step).
func (e *vhEnv) guard(label string, f func()) bool {
	if e.panicsAreViolations {
		return verifrt.NoPanic(label, f)
	}
	return !verifrt.Panics(f)
}

func (e *vhEnv) vhStep(i int) bool {
	h := verifrt.U64("req_h")
	r := verifrt.U32("req_r")
	verifrt.Assume(h < 1<<62)
	verifrt.Assume(r < 1<<30)
	all := 1<<uint(e.n) - 1
	ok := true
	e.voteAsked, e.voteAnswered = false, false
	switch verifrt.Choose("event", 6) {
	case 0: // proposed header A or B
		tag := []string{"A", "B"}[verifrt.Choose("ph-tag", 2)]
		ok = e.guard("K3:addProposedHeader-panics", func() {
			e.k.addProposedHeader(e.ctx, e.s, e.linkedProposed(tag, h, r, 0))
		})
	case 1, 2: // precommits for nil, A or B by everybody or by validator 0 only
		precommit := true
		hash := []string{"", "A", "B"}[verifrt.Choose("vote-target", 3)]
		signers := []int{all, 1}[verifrt.Choose("vote-signers", 2)]
		vrv, _, st := e.s.FindView(h, r, "harness")
		// the mirror only sends addPrecommit/addPrevote for views its lookup found; a view can
		// afterwards be orphaned or committed but never become a future view
		verifrt.Assume(st != ViewFuture)
		var upd map[string]VoteUpdate
		if vrv != nil {
			var pv uint32
			if precommit {
				pv = vrv.PrecommitBlockVersions[hash]
			}
			upd = map[string]VoteUpdate{hash: {Proof: e.grow(vrv, true, hash, signers), PrevVersion: pv}}
		} else {
			upd = map[string]VoteUpdate{hash: {Proof: e.voteProof(true, 1, 0, hash, signers), PrevVersion: 0}}
		}
		resp := make(chan AddVoteResult, 1)
		ok = e.guard("K3:addPrecommit-panics", func() {
			e.k.addPrecommit(e.ctx, e.s, AddPrecommitRequest{H: h, R: r, PrecommitUpdates: upd, Response: resp})
		})
		e.noteVoteAnswer(ok, resp)
	case 3: // prevotes
		hash := []string{"", "A"}[verifrt.Choose("prevote-target", 2)]
		signers := []int{all, 1}[verifrt.Choose("prevote-signers", 2)]
		vrv, _, st := e.s.FindView(h, r, "harness")
		verifrt.Assume(st != ViewFuture)
		var upd map[string]VoteUpdate
		if vrv != nil {
			upd = map[string]VoteUpdate{hash: {Proof: e.grow(vrv, false, hash, signers), PrevVersion: vrv.PrevoteBlockVersions[hash]}}
		} else {
			upd = map[string]VoteUpdate{hash: {Proof: e.voteProof(false, 1, 0, hash, signers), PrevVersion: 0}}
		}
		resp := make(chan AddVoteResult, 1)
		ok = e.guard("K3:addPrevote-panics", func() {
			e.k.addPrevote(e.ctx, e.s, AddPrevoteRequest{H: h, R: r, PrevoteUpdates: upd, Response: resp})
		})
		e.noteVoteAnswer(ok, resp)
	case 4: // replayed header A or B with a full-quorum proof for round r
		tag := []string{"A", "B"}[verifrt.Choose("replay-tag", 2)]
		hdr := e.header(tag, h, e.vs)
		linked := verifrt.Choose("replay-linked", 2) == 0
		if linked {
			hdr.PrevBlockHash = bytes.Clone(e.s.CommittingHeader.Hash)
		}
		var sigs []gcrypto.SparseSignature
		for v := 0; v < e.n; v++ {
			sigs = append(sigs, gcrypto.SparseSignature{KeyID: []byte{0, byte(v)}, Sig: []byte{'s', byte(v), 0}})
		}
		proof := tmconsensus.CommitProof{Round: r, PubKeyHash: string(e.vs.PubKeyHash), Proofs: map[string][]gcrypto.SparseSignature{tag: sigs}}
		// rounds below the voting round are an acknowledged TODO panic in the code; keep them
		// out of this harness (C09 owns crash freedom) so the chain obligations stay visible
		if h == e.s.Voting.Height {
			verifrt.Assume(r >= e.s.Voting.Round)
			verifrt.Assume(r <= e.s.Voting.Round+1)
		}
		ok = e.guard("K3:handleReplayedHeader-panics", func() {
			_ = e.k.handleReplayedHeader(e.ctx, e.s, hdr, proof)
		})
	default:
		// Two concurrent mirror callers looked the voting view up before either was applied:
		// caller Y sends a nil vote of validator 1; caller X sends a vote of validator 0 for A plus
		// the same nil vote, both with the block versions it saw. X is partially applicable.
		vh, vr := e.s.Voting.Height, e.s.Voting.Round
		verifrt.Assume(verifrt.And(h == vh, r == vr))
		precommit := verifrt.Choose("mixed-kind", 2) == 1
		y := e.grow(&e.s.Voting, precommit, "", 2)
		xa := e.grow(&e.s.Voting, precommit, "A", 1)
		xn := e.grow(&e.s.Voting, precommit, "", 2)
		var pvA, pvN uint32
		if precommit {
			pvA, pvN = e.s.Voting.PrecommitBlockVersions["A"], e.s.Voting.PrecommitBlockVersions[""]
		} else {
			pvA, pvN = e.s.Voting.PrevoteBlockVersions["A"], e.s.Voting.PrevoteBlockVersions[""]
		}
		resp := make(chan AddVoteResult, 1)
		if precommit {
			ok = e.guard("K3:addPrecommit-panics", func() {
				e.k.addPrecommit(e.ctx, e.s, AddPrecommitRequest{H: vh, R: vr, PrecommitUpdates: map[string]VoteUpdate{"": {Proof: y, PrevVersion: pvN}}, Response: make(chan AddVoteResult, 1)})
				e.k.addPrecommit(e.ctx, e.s, AddPrecommitRequest{H: vh, R: vr, PrecommitUpdates: map[string]VoteUpdate{"A": {Proof: xa, PrevVersion: pvA}, "": {Proof: xn, PrevVersion: pvN}}, Response: resp})
			})
		} else {
			ok = e.guard("K3:addPrevote-panics", func() {
				e.k.addPrevote(e.ctx, e.s, AddPrevoteRequest{H: vh, R: vr, PrevoteUpdates: map[string]VoteUpdate{"": {Proof: y, PrevVersion: pvN}}, Response: make(chan AddVoteResult, 1)})
				e.k.addPrevote(e.ctx, e.s, AddPrevoteRequest{H: vh, R: vr, PrevoteUpdates: map[string]VoteUpdate{"A": {Proof: xa, PrevVersion: pvA}, "": {Proof: xn, PrevVersion: pvN}}, Response: resp})
			})
		}
		e.noteVoteAnswer(ok, resp)
	}
	return ok
}

// vhStart builds one of the constructive start states through the real handlers:
// 0 genesis (initial height 1), 1 genesis (initial height 5), 2 one committed height,
// 3 one committed height and then a nil-precommit round advance (voting round 1).
func vhStart(which int) (*vhEnv, uint64) {
	n := 3
	ih := uint64(1)
	if which == 1 {
		ih = 5
	}
	e := vhNewEnv(n, []uint64{1, 1, 1}, ih)
	if which >= 2 {
		e.k.addProposedHeader(e.ctx, e.s, e.linkedProposed("G", ih, 0, 0))
		e.k.addPrecommit(e.ctx, e.s, AddPrecommitRequest{H: ih, R: 0,
			PrecommitUpdates: map[string]VoteUpdate{"G": {Proof: e.voteProof(true, ih, 0, "G", 7)}}, Response: make(chan AddVoteResult, 1)})
	}
	if which == 3 {
		e.k.addPrecommit(e.ctx, e.s, AddPrecommitRequest{H: ih + 1, R: 0,
			PrecommitUpdates: map[string]VoteUpdate{"": {Proof: e.voteProof(true, ih+1, 0, "", 7)}}, Response: make(chan AddVoteResult, 1)})
	}
	return e, ih + 4
}

// noteVoteAnswer records the kernel's answer to an add-vote request.
func (e *vhEnv) noteVoteAnswer(ok bool, resp chan AddVoteResult) {
	e.voteAsked = ok
	if ok && len(resp) == 1 {
		e.voteAnswered = true
		e.voteAnswer = <-resp
	}
}

// summaryMatchesProofs: the view's vote summary equals the recomputation from its proofs
// (powers are concrete in the step harnesses).
func (e *vhEnv) summaryMatchesProofs(tag string, v *tmconsensus.VersionedRoundView) {
	var avail uint64
	for _, val := range v.ValidatorSet.Validators {
		avail += val.Power
	}
	check := func(kind string, proofs map[string]gcrypto.CommonMessageSignatureProof, total uint64, block map[string]uint64) {
		var union uint64
		for hash, p := range proofs {
			var w, pow uint64
			for i, val := range v.ValidatorSet.Validators {
				if has, _ := p.HasSparseKeyID([]byte{0, byte(i)}); has {
					w |= 1 << uint(i)
					pow += val.Power
				}
			}
			union |= w
			verifrt.Assert(block[hash] == pow, tag+":"+kind+"-block-power-matches-admitted-signatures")
		}
		var tot uint64
		for i, val := range v.ValidatorSet.Validators {
			if union&(1<<uint(i)) != 0 {
				tot += val.Power
			}
		}
		verifrt.Assert(total == tot, tag+":"+kind+"-total-power-matches-admitted-signatures")
		verifrt.Assert(len(block) == len(proofs), tag+":"+kind+"-block-power-entries-match-proofs")
	}
	verifrt.Assert(v.VoteSummary.AvailablePower == avail, tag+":available-power-is-sum-of-validator-powers")
	check("prevote", v.PrevoteProofs, v.VoteSummary.TotalPrevotePower, v.VoteSummary.PrevoteBlockPower)
	check("precommit", v.PrecommitProofs, v.VoteSummary.TotalPrecommitPower, v.VoteSummary.PrecommitBlockPower)
}
