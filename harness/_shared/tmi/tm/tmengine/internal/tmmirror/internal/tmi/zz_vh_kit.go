package tmi

// Shared kernel harness kit (overlay only): a real Kernel value wired to the
// shipped in-memory stores, with the genesis kState produced by the real
// loadInitialVotingView, plus builders for headers and proofs.

import (
	"context"

	"github.com/gordian-engine/gordian/gcrypto"
	"github.com/gordian-engine/gordian/internal/verifrt"
	"github.com/gordian-engine/gordian/internal/verifrt/vkit"
	"github.com/gordian-engine/gordian/tm/tmconsensus"
	"github.com/gordian-engine/gordian/tm/tmengine/internal/tmeil"
	"github.com/gordian-engine/gordian/tm/tmengine/tmelink"
	"github.com/gordian-engine/gordian/tm/tmstore/tmmemstore"
)

type vhEnv struct {
	ctx  context.Context
	k    *Kernel
	s    *kState
	n    int
	keys []gcrypto.PubKey
	pows []uint64
	vs   tmconsensus.ValidatorSet

	ms  *tmmemstore.MirrorStore
	hs  *tmmemstore.CommittedHeaderStore
	rs  *tmmemstore.RoundStore
	vst *tmmemstore.ValidatorStore

	gossipOut chan tmelink.NetworkViewUpdate
	smOut     chan tmeil.StateMachineRoundView
	fetchReq  chan tmelink.ProposedHeaderFetchRequest
	initialHeight uint64
	panicsAreViolations bool
	voteAsked, voteAnswered bool
	voteAnswer AddVoteResult
}

// vhNewEnv builds a kernel at genesis (voting at initialHeight round 0, no committing view).
func vhNewEnv(n int, pows []uint64, initialHeight uint64) *vhEnv {
	return vhNewEnvKeys(vkit.OkKeys(n), pows, initialHeight)
}

// vhNewEnvSym is vhNewEnv with keys whose verification relation is uninterpreted.
func vhNewEnvSym(n int, pows []uint64, initialHeight uint64) *vhEnv {
	return vhNewEnvKeys(vkit.Keys(0, n), pows, initialHeight)
}

func vhNewEnvKeys(keys []gcrypto.PubKey, pows []uint64, initialHeight uint64) *vhEnv {
	n := len(keys)
	e := &vhEnv{ctx: context.Background(), n: n, pows: pows, initialHeight: initialHeight}
	e.keys = keys
	e.vs = vkit.ValSet(e.keys, pows)
	e.ms = tmmemstore.NewMirrorStore()
	e.hs = tmmemstore.NewCommittedHeaderStore()
	e.rs = tmmemstore.NewRoundStore()
	e.vst = tmmemstore.NewValidatorStore(vkit.HashScheme{})
	e.gossipOut = make(chan tmelink.NetworkViewUpdate, 1)
	e.smOut = make(chan tmeil.StateMachineRoundView, 1)
	e.fetchReq = make(chan tmelink.ProposedHeaderFetchRequest, 4)
	e.k = &Kernel{
		log:           verifrt.Logger(),
		store:         e.ms,
		hStore:        e.hs,
		rStore:        e.rs,
		vStore:        e.vst,
		hashScheme:    vkit.HashScheme{},
		sigScheme:     vkit.SigScheme{},
		cmspScheme:    gcrypto.SimpleCommonMessageSignatureProofScheme{},
		initialHeight: initialHeight,
		initialValSet: e.vs,
		phf: tmelink.ProposedHeaderFetcher{
			FetchRequests: e.fetchReq,
		},
		done: make(chan struct{}),
	}
	e.s = &kState{
		Voting: tmconsensus.VersionedRoundView{
			RoundView: tmconsensus.RoundView{Height: initialHeight},
		},
		InFlightFetchPHs:        make(map[string]context.CancelFunc),
		StateMachineViewManager: newStateMachineViewManager(e.smOut),
		GossipViewManager:       newGossipViewManager(e.gossipOut),
		LagManager:              newLagManager(nil),
	}
	if err := e.ms.SetNetworkHeightRound(e.ctx, initialHeight, 0, 0, 0); err != nil {
		panic(err)
	}
	if err := e.k.loadInitialVotingView(e.ctx, e.s); err != nil {
		panic(err)
	}
	e.s.Voting.PrevCommitProof = tmconsensus.CommitProof{Proofs: map[string][]gcrypto.SparseSignature{}}
	e.s.NextRound.PrevCommitProof = tmconsensus.CommitProof{Proofs: map[string][]gcrypto.SparseSignature{}}
	return e
}

// header builds a header with hash tag (1 byte) at the given height. The validator set
// is the environment's; next is the set the header prescribes for height+1.
func (e *vhEnv) header(tag string, height uint64, next tmconsensus.ValidatorSet) tmconsensus.Header {
	return tmconsensus.Header{
		Hash:             []byte(tag),
		PrevBlockHash:    []byte("p" + tag),
		Height:           height,
		ValidatorSet:     e.vs,
		NextValidatorSet: next,
		DataID:           []byte("d" + tag),
		PrevCommitProof:  tmconsensus.CommitProof{Proofs: map[string][]gcrypto.SparseSignature{}},
	}
}

func (e *vhEnv) proposed(tag string, height uint64, round uint32, proposer int, next tmconsensus.ValidatorSet) tmconsensus.ProposedHeader {
	return tmconsensus.ProposedHeader{
		Header:         e.header(tag, height, next),
		Round:          round,
		ProposerPubKey: e.keys[proposer],
		Signature:      []byte("ps" + tag),
	}
}

// voteProof builds a real simple proof for (kind, h, r, hash) over the environment's keys,
// signed by the validators in the signer word. The signatures are assumed authentic
// (admission of signatures is C05's subject, not the callers').
func (e *vhEnv) voteProof(precommit bool, h uint64, r uint32, hash string, signers int) gcrypto.CommonMessageSignatureProof {
	var msg []byte
	if precommit {
		msg = vkit.PrecommitContent(h, r, hash)
	} else {
		msg = vkit.PrevoteContent(h, r, hash)
	}
	p, err := gcrypto.NewSimpleCommonMessageSignatureProof(msg, e.keys, string(e.vs.PubKeyHash))
	if err != nil {
		panic(err)
	}
	for i := 0; i < e.n; i++ {
		if signers&(1<<uint(i)) == 0 {
			continue
		}
		sig := vkit.Sig(byte(i), 0)
		if _, always := e.keys[i].(vkit.OkKey); !always {
			verifrt.Assume(e.keys[i].Verify(msg, sig))
		}
		if err := p.AddSignature(sig, e.keys[i]); err != nil {
			panic(err)
		}
	}
	return p
}

// signerPower is the oracle: sum of the powers of the validators in the signer word.
func (e *vhEnv) signerPower(signers int) uint64 {
	var sum uint64
	for i := 0; i < e.n; i++ {
		if signers&(1<<uint(i)) != 0 {
			sum += e.pows[i]
		}
	}
	return sum
}

func (e *vhEnv) totalPower() uint64 {
	var sum uint64
	for _, p := range e.pows {
		sum += p
	}
	return sum
}

// moreThanTwoThirds reports 3*x > 2*total in 128-bit arithmetic, branch-free.
func moreThanTwoThirds(x, total uint64) bool {
	h3, l3 := verifrt.MulU(3, x)
	h2, l2 := verifrt.MulU(2, total)
	return verifrt.Gt128(h3, l3, h2, l2)
}

// lessThanOneThird reports 3*x < total.
func lessThanOneThird(x, total uint64) bool {
	h3, l3 := verifrt.MulU(3, x)
	return verifrt.Gt128(0, total, h3, l3)
}

// vhCommitObserved reports what the kernel now treats as committed at height h.
type vhCommit struct {
	happened  bool
	hash      string
	stored    bool
	storeHash string
}

func (e *vhEnv) commitAt(h uint64) vhCommit {
	var c vhCommit
	if e.s.Committing.Height == h && len(e.s.CommittingHeader.Hash) > 0 {
		c.happened = true
		c.hash = string(e.s.CommittingHeader.Hash)
	}
	ch, err := e.hs.LoadCommittedHeader(e.ctx, h)
	if err == nil {
		c.stored = true
		c.storeHash = string(ch.Header.Hash)
	}
	return c
}

