package tmmirror

// Shared kit: a real Mirror over the aggregating BLS scheme (gcrypto/gblsminsig) on top of the
// pure-Go blst model (config "replace"). Keys and honest signatures are concrete; offered
// signatures carry a symbolic group element.

import (
	"context"

	"github.com/bits-and-blooms/bitset"
	blst "github.com/supranational/blst/bindings/go"

	"github.com/gordian-engine/gordian/gcrypto"
	"github.com/gordian-engine/gordian/gcrypto/gblsminsig"
	"github.com/gordian-engine/gordian/internal/verifrt"
	"github.com/gordian-engine/gordian/internal/verifrt/vkit"
	"github.com/gordian-engine/gordian/tm/tmconsensus"
)

type vhBLS struct {
	n       int
	signers []gblsminsig.Signer
	keys    []gblsminsig.PubKey
	gkeys   []gcrypto.PubKey
	width   int
	nodes   int
}

func vhNewBLS(n int) *vhBLS {
	b := &vhBLS{n: n}
	for i := 0; i < n; i++ {
		ikm := make([]byte, 32)
		ikm[0], ikm[31] = byte(i+1), 0x5a
		s, err := gblsminsig.NewSigner(ikm)
		if err != nil {
			panic(err)
		}
		b.signers = append(b.signers, s)
		k := s.PubKey().(gblsminsig.PubKey)
		b.keys = append(b.keys, k)
		b.gkeys = append(b.gkeys, k)
	}
	b.width = 1
	for b.width < n {
		b.width <<= 1
	}
	b.nodes = 2*b.width - 1
	return b
}

// vhNewMirrorBLS: a real mirror at genesis whose validators are the BLS keys.
func vhNewMirrorBLS(b *vhBLS, pows []uint64) *vhM {
	e := &vhM{ctx: context.Background(), n: b.n, keys: b.gkeys, pows: pows, initialHeight: 1, cmsp: gblsminsig.SignatureProofScheme{}}
	e.vs = vkit.ValSet(e.keys, pows)
	e.ms, e.hs, e.rs, e.vst = newStores(vkit.HashScheme{})
	if err := e.restart(); err != nil {
		panic(err)
	}
	return e
}

func (b *vhBLS) leafSet(id int) uint64 {
	start, width, span := 0, b.width, 1
	for id >= start+width {
		start += width
		width >>= 1
		span <<= 1
	}
	off := id - start
	var s uint64
	for i := off * span; i < (off+1)*span && i < b.n; i++ {
		s |= 1 << uint(i)
	}
	return s
}

func (b *vhBLS) aggKey(s uint64) gblsminsig.PubKey {
	acc := new(blst.P2)
	for i := 0; i < b.n; i++ {
		if s&(1<<uint(i)) != 0 {
			acc = acc.Add((*blst.P2Affine)(&b.keys[i]))
		}
	}
	return gblsminsig.PubKey(*acc.ToAffine())
}

func (b *vhBLS) honest(i int, content []byte) []byte {
	sig, err := b.signers[i].Sign(context.Background(), content)
	if err != nil {
		panic(err)
	}
	return sig
}

// honestSparse: leaf entries with the honest signatures of the validators in set s.
func (b *vhBLS) honestSparse(s uint64, content []byte) []gcrypto.SparseSignature {
	var out []gcrypto.SparseSignature
	for i := 0; i < b.n; i++ {
		if s&(1<<uint(i)) != 0 {
			out = append(out, gcrypto.SparseSignature{KeyID: []byte{0, byte(i)}, Sig: b.honest(i, content)})
		}
	}
	return out
}

// symSig: 48 bytes with the compressed flag and a symbolic non-zero group element, or 5 bytes.
func vhBLSSymSig(name string) []byte {
	if verifrt.Choose(name+"-form", 2) == 1 {
		return []byte("short")
	}
	v := verifrt.U64(name + "-v")
	verifrt.Assume(v != 0)
	out := make([]byte, blst.BLST_P1_COMPRESS_BYTES)
	out[0] = 0x80
	for i := 0; i < 8; i++ {
		out[1+i] = byte(v >> (56 - 8*uint(i)))
	}
	out[9] = verifrt.U8(name + "-torsion") // != 0: outside the prime-order subgroup
	return out
}

// offer: any tree node or an out-of-range id, with a symbolic signature; leafs = 0 when the
// id names no real key.
func (b *vhBLS) offer(name string) (gcrypto.SparseSignature, uint64) {
	return b.offerAmong(name, nil)
}

// offerAmong: nodes != nil restricts the choice to those tree nodes.
func (b *vhBLS) offerAmong(name string, nodes []int) (gcrypto.SparseSignature, uint64) {
	var k int
	if nodes != nil {
		k = nodes[verifrt.Choose(name+"-node", len(nodes))]
	} else {
		k = verifrt.Choose(name+"-node", b.nodes+1)
	}
	sig := vhBLSSymSig(name)
	if k < b.nodes {
		return gcrypto.SparseSignature{KeyID: []byte{byte(k >> 8), byte(k)}, Sig: sig}, b.leafSet(k)
	}
	return gcrypto.SparseSignature{KeyID: []byte{0, byte(b.nodes + 3)}, Sig: sig}, 0
}

func vhBitsWord(p gcrypto.CommonMessageSignatureProof, n int, tag string) uint64 {
	var bs bitset.BitSet
	p.SignatureBitSet(&bs)
	var x uint64
	for i := 0; i < 64; i++ {
		if bs.Test(uint(i)) {
			x |= 1 << uint(i)
		}
	}
	verifrt.Assert(x>>uint(n) == 0, tag+":bit-outside-the-validator-set")
	return x
}

// checkSparse: every entry names a tree node with real keys and verifies under the aggregate
// of exactly those keys for content; returns the union of the leaf sets.
func (b *vhBLS) checkSparse(tag string, sigs []gcrypto.SparseSignature, content []byte) uint64 {
	var union uint64
	for _, sg := range sigs {
		okID := len(sg.KeyID) == 2 && int(sg.KeyID[0])<<8|int(sg.KeyID[1]) < b.nodes
		verifrt.Assert(okID, tag+"-signature-key-id-is-a-tree-node")
		if !okID {
			continue
		}
		ls := b.leafSet(int(sg.KeyID[0])<<8 | int(sg.KeyID[1]))
		verifrt.Assert(ls != 0, tag+"-signature-for-a-padding-node")
		verifrt.Assert(b.aggKey(ls).Verify(content, sg.Sig), tag+"-signature-verifies-for-its-target")
		union |= ls
	}
	return union
}

// verifyViewBLS: every (aggregated) signature in the view verifies for the target it is filed
// under, and every signer bit is backed by one.
func (b *vhBLS) verifyViewBLS(tag string, v *tmconsensus.VersionedRoundView) {
	for hash, p := range v.PrevoteProofs {
		u := b.checkSparse(tag+":prevote", p.AsSparse().Signatures, vkit.PrevoteContent(v.Height, v.Round, hash))
		verifrt.Assert(u == vhBitsWord(p, b.n, tag), tag+":prevote-bits-backed-by-verifying-signatures")
	}
	for hash, p := range v.PrecommitProofs {
		u := b.checkSparse(tag+":precommit", p.AsSparse().Signatures, vkit.PrecommitContent(v.Height, v.Round, hash))
		verifrt.Assert(u == vhBitsWord(p, b.n, tag), tag+":precommit-bits-backed-by-verifying-signatures")
	}
}

func (b *vhBLS) verifyStoredBLS(e *vhM, tag string, h uint64, r uint32) {
	_, prevotes, precommits, err := e.rs.LoadRoundState(e.ctx, h, r)
	if err != nil {
		return
	}
	for hash, sigs := range prevotes.BlockSignatures {
		b.checkSparse(tag+":stored-prevote", sigs, vkit.PrevoteContent(h, r, hash))
	}
	for hash, sigs := range precommits.BlockSignatures {
		b.checkSparse(tag+":stored-precommit", sigs, vkit.PrecommitContent(h, r, hash))
	}
}

type vhBLSDigest struct {
	h       uint64
	r       uint32
	version uint32
	pv, pc  map[string]uint64
}

func (b *vhBLS) digest(v *tmconsensus.VersionedRoundView) vhBLSDigest {
	d := vhBLSDigest{h: v.Height, r: v.Round, version: v.Version, pv: map[string]uint64{}, pc: map[string]uint64{}}
	for h, p := range v.PrevoteProofs {
		d.pv[h] = vhBitsWord(p, b.n, "digest")
	}
	for h, p := range v.PrecommitProofs {
		d.pc[h] = vhBitsWord(p, b.n, "digest")
	}
	return d
}

func (a vhBLSDigest) same(o vhBLSDigest) bool {
	return a.h == o.h && a.r == o.r && a.version == o.version && sameSigners(a.pv, o.pv) && sameSigners(a.pc, o.pc)
}
