#!/bin/bash
# Builds the gsx engine offline from /verif/gsx (module cache only).
set -euo pipefail
cd "$(dirname "$0")/gsx"
export GOFLAGS=-mod=mod GOPROXY=off GOSUMDB=off GOTOOLCHAIN=local
mkdir -p ../bin
/opt/veriftools/go1.26.8/bin/go build -o ../bin/gsx .
echo "built $(cd .. && pwd)/bin/gsx"
