#!/usr/bin/env python3
"""Regenerates MANIFEST.json from the per-property table below (single source of truth)."""
import json, os
HERE = os.path.dirname(os.path.abspath(__file__))
props = [json.loads(l) for l in open(os.path.join(HERE, 'properties.jsonl'))]
ids = [p['id'] for p in props]

COMMON_NOTE = ("Trusted base: go/packages+go/ssa (x/tools v0.50.0) lowering of /repo's current working tree, the gsx executor "
  "(operators + intrinsics listed in DESIGN.md §2.5; validated on every run by replaying solver models of explored paths natively and comparing labels/observations), "
  "z3 4.8.12, the Go toolchain for replay. ")

checks = {}
def add(pid, category, text, note, technique, design_ref):
    checks[pid] = {
        "property_id": pid,
        "quick_cmd": f"./check {pid} quick",
        "thorough_cmd": f"./check {pid} thorough",
        "evidence_file": f"/verif/evidence/{pid}.json",
        "replay_cmd_template": f"./check {pid} --replay {{path}}",
        "engine": "gsx",
        "level_claimed": {"category": category, "text": text, "design_ref": design_ref},
        "level_note": COMMON_NOTE + note,
        "technique": technique,
    }

exec(open(os.path.join(HERE, 'manifest_entries.py')).read())

na = [{"property_id": i, "reason": NOT_APPLICABLE.get(i, "check not built yet in this session (see DESIGN.md §8 build order)")} for i in ids if i not in checks]
m = {
 "version": 1,
 "setup_cmd": "./setup.sh",
 "hooks": {"guard": "verif", "enable": "no hooks in /repo: harnesses and the verifrt runtime are injected with -overlay (go/packages Overlay for the encoder, go test -overlay for native replay)",
           "baseline_off_cmd": "cd /repo && go test -mod=mod -vet=off -count=1 -timeout 25m ./...",
           "source_commits": [], "add_only": True},
 "engines": [{"name": "gsx", "path": "/verif/gsx", "serves_properties": sorted(checks), "kind_free_text": "symbolic executor for go/ssa (fork of x/tools ssa/interp) with SMT-LIB2 bit-vector terms, z3 -in per worker, re-execution based path exploration, native replay of models"}],
 "checks": [checks[i] for i in ids if i in checks],
 "not_applicable": na,
 "notes": "Every check symbolically executes the real functions from /repo's working tree (regenerated per run). Exit 0 = all obligations unsat within the stated bounds; 1 = VIOLATION reproduced natively; 2 = machinery problem; 3 = inconclusive (solver unknown / bound exceeded).",
}
json.dump(m, open(os.path.join(HERE, 'MANIFEST.json'), 'w'), indent=1)
print("checks:", sorted(checks), "n/a:", [x['property_id'] for x in na])
